"""C20 — options mean the same on the command line and in a config file; quoted strings survive the file."""
from __future__ import annotations

import argparse
import ast
import contextlib
import io
import itertools
import os
import shutil
import tempfile
import time
import warnings
from typing import Any, Dict, List, Optional, Sequence, Tuple

from ..core import Ctx, Infra, enc

THEOREMS = [
    "Config.quote_roundtrip", "Config.quote3_roundtrip", "Config.quote_roundtrip_rawnul", "Config.quote3_roundtrip_rawnul",
    "Config.quote3_empty_python", "Config.unquoted_passthrough", "Config.not_quoted_of_head",
    "Config.ini_quote_roundtrip", "Config.ini_quote3_roundtrip", "Config.ini_quote_roundtrip_rawnul",
    # historical: the recogniser / unquote_str before /repo commits 65e15f6 (empty triple) and cada0b1 (raw NUL)
    "Config.quote3_roundtrip_old_partial", "Config.quote3_empty_old_counterexample", "Config.raw_nul_old_counterexample",
    # historical: the INI pipeline before /repo commit d27392d (iniValueOld basicInterp)
    "Config.ini_quote_roundtrip_old_partial", "Config.ini_quote_roundtrip_old_basic",
    "Config.ini_quote_roundtrip_old_counterexample", "Config.ini_percent_percent_old_counterexample",
    "Config.ini_list_roundtrip_old_partial", "Config.ini_list_roundtrip_old_counterexample", "Config.iniValue_eq_old",
    "Config.cli_overrides_file", "Config.append_in_order", "Config.append_cli_in_order",
    "Config.unknown_key_filtered", "Config.unknown_key_not_applied",
    "Config.file_eq_cli", "Config.file_eq_cli_flag", "Config.file_eq_cli_count", "Config.parseArg_render",
    "Config.later_file_wins", "Config.evalList_listLit", "Config.ini_list_roundtrip",
    "Config.flagsDisjointB_iff", "Config.keysDisjointB_iff", "Config.noSepFlagB_iff",
    # round 3: the exact known-key rule, any number of files, the rule per action type, multi-line lists, section names,
    # TOML section lookup and stringification, the composite parser, Options.from_namespace
    "Config.isKnown_iff", "Config.last_file_wins", "Config.cli_overrides_files", "Config.append_cli_replaces_file",
    "Config.store_cli_replaces_file", "Config.count_cli_replaces_file", "Config.verbosity_spec", "Config.ini_multiline_list",
    "Config.section_constants", "Config.getTomlSection_tool_pydoctor", "Config.tomlParse_first", "Config.tomlParse_skip",
    "Config.tnodeItem_spec", "Config.toml_bool_flag", "Config.composite_ini_first", "Config.composite_toml_first",
    "Config.composite_fallback", "Config.compositeOrder_spec", "Config.makeHtml_spec", "Config.sourceTemplate_spec",
    "Config.finalSourcepath_spec", "Config.sidebarOk_spec",
    "Config.cluster_not_already_on", "Config.default_section_leaks", "Config.sectionItems_spec",
    # follow-up to ae278e0 (value check of ValidatorParser) and 67194dc (TOML boolean text)
    "Config.bad_value_refused", "Config.mergeFile_no_traceback", "Config.not_bad_of_convert_ok", "Config.mergeFile_ok",
    "Config.bad_count_old_counterexample", "Config.toml_bool_text_old_counterexample",
    # hunter round: kernel-checked witnesses of open findings (what the code does today)
    "Config.unknown_key_bad_value_counterexample", "Config.ini_multiline_quoted_items_counterexample",
    "Config.toml_file_falls_back_to_ini", "Config.config_key_unknown", "Config.config_key_old_counterexample",
    "Config.positional_equal_to_option_string_counterexample",
]
PARTIAL: dict = {}     # every property statement is at full strength for the code at /repo HEAD; `…_old_…` are about earlier code
RULE = ("(a) exhaustive: every string of length <=3 (quick) / <=4 (thorough) over {a, space, \", ', \\, #, ;, =, %, [, ], newline, "
        "tab}, plus each of them wrapped in the four delimiters (with and without a final newline), through the real "
        "is_quoted / unquote_str (both `triple` settings) and through the Lean recognisers and literal decoder; the same "
        "strings through quote1/quote3 (model) = py quoting (harness) and back; random strings over a wider alphabet "
        "(CR, NUL, hex/octal/named escapes, Unicode blanks). (b) the same strings written quoted as `project-name` into "
        "pyproject.toml [tool.pydoctor] (TOML basic and literal strings), setup.cfg [tool:pydoctor] and pydoctor.ini "
        "[pydoctor] (the four Python forms) in a scratch cwd and read with the real Options.from_args([]) (length <=2 quick / "
        "<=3 thorough one file per string; up to length 3 / 4 in batches as items of the list option `intersphinx`); direct "
        "oracle: read back == written. (c) every option of the live parser (except --help, --version, --config, positional) x "
        "representative and adversarial values x the three files: Options from the file == Options from the command line; a "
        "different command-line value overrides the file; lists accumulate in order; an unknown key is warned about once, "
        "not applied, no abort; merged argument vector and per-option effect compared with the model. Non-trivial = the "
        "string contains a quote, a backslash or one of # ; = % [ ] newline tab (string streams) / the option is given in "
        "the file and on the command line, or is an append option with >=2 values (option streams). (c') unquoted INI values: a "
        "grammar of value shapes ({…, [[…, dates, versions, 0x…, inf/nan, true…, lone quotes, trailing backslash, GitHub source "
        "templates such as {mod_source_href}?plain=1#L{lineno}; ~1200 shapes) is scanned at run time with the installed toml "
        "package; every shape on which toml.loads raises something else than TomlDecodeError (the corpus; its size and exception "
        "classes are in evidence) plus a sample of the others is written unquoted for every string-typed option and the free-text "
        "append options into setup.cfg and pydoctor.ini under each of the three section spellings, as first and as later key: "
        "Options from the file == Options from `--opt=value`; an exception other than SystemExit is a failure. (d) run FIRST, "
        "whatever the seed: the recorded input of every C20 finding (open ones must still fail with their signature, fixed ones "
        "must pass) and the shape each seeded change needs (near-miss unknown keys in the three formats, a triple-quoted value "
        "over two lines, the GitHub template unquoted in setup.cfg and in a --config file, TOML integer 0 for int options, an "
        "INI-only --config file followed by a pyproject.toml with a comment and a literal string). (e) pydoctor's own parsing "
        "steps against their transcriptions: parse_toml_section_name on ~1000 names over {a b . \" ' space : \\ tab}; "
        "TomlConfigParser.parse on ~400 generated TOML documents (tool/pydoctor tables present, empty, scalar, shadowed); the real "
        "CompositeConfigParser over stub parsers for every parser list x outcome x 18 stream names (504 cases); "
        "Options.from_namespace (make-html default, view-source template for 17 bases x 3 explicit templates, verbosity, sidebar "
        "depths, sourcepath order); multi-file merges now include an explicit --config file. (f) first on every run and independent "
        "of the model's option table: every config key the real parser accepts (each long option string of each action, with and "
        "without --, generated negative spellings included) x true/false/count/valid value x the three files against the command "
        "line that spells the same option string. (g) hunter shapes, deterministic, first on every run: the config-file option's own "
        "key in a file (existing and missing target, 3 formats), unknown INI keys with bracketed/quoted values that do not evaluate, "
        "pyproject.toml files the toml package refuses (a TOML 1.0 mixed array in another table) x strings x basic/literal x "
        "trailing comment, one-item-per-line lists with every line quoted, commas in TOML array strings, a source path equal to an "
        "option string. The corpus also holds: one-item-per-line "
        "lists for the five repeatable options with each of VT FF FS GS RS NEL U+2028 U+2029 in the middle of an item in setup.cfg "
        "and pydoctor.ini (80 files; CR and the same characters are in the value-level INI stream), the reviewed edge cases as open "
        "findings (clustered -vv/-vq, the value `--`, bad count/flag values, key case, TOML boolean on a string option) and as "
        "pinned behaviours (comment/indentation handling inside triple-quoted INI values, config/help/version keys, [DEFAULT], "
        "one-line quotes over two lines, unquoted [..] x [..], verbose = -1).")
ASSUMPTIONS = [
    "configargparse, configparser, toml and argparse are parameters of the model (DESIGN 4.4): their behaviour is "
    "transcribed (merge order, already_on_command_line, convert_item_to_command_line_arg, str.strip, "
    "literal_eval on string literals and lists of them) and tied to the installed modules only by the correspondence streams",
    "the literal decoder covers \\\\ \\' \\\" \\a \\b \\f \\n \\r \\t \\v \\xHH \\<newline> and unknown escapes; octal, \\N, \\u, \\U are the "
    "explicit outcome `unmodelled` (never generated by the quoting function; counted when met)",
    "the INI pipeline has no interpolation step (IniConfigParser builds ConfigParser(interpolation=None) since /repo commit "
    "d27392d); the pre-fix pipeline is kept in the model as iniValueOld with machine-checked historical counterexamples",
    "Lean `Char` has no lone surrogates; such strings cannot be written to a UTF-8 config file either",
    "every action of the live parser that can be set from a file has nargs None or 0 and one of the modelled kinds; an action "
    "outside that is reported as a broken correspondence (ctx.broken) and the direct oracles search for a failing input",
    "the option table satisfies FlagsDisjoint / KeysDisjoint / NoSepFlag (argparse refuses conflicting option strings); "
    "checked on the live parser at run time",
    "triple-quoted forms are written to INI files only when every line of the string survives configparser's "
    "continuation-line rules (no leading/trailing blanks per line, no blank line, no line starting with # or ;): a raw "
    "newline in an INI value is file syntax, not quoting",
    "CompositeConfigParser (order by extension, fall-back) is modelled with the two parsers' outcomes (accepts / raises) as "
    "parameters; which texts the toml package accepts or refuses, and with which exception class, is observed at run time",
    "TOML documents are modelled as toml.load returns them (nested tables, strings, integers, booleans, arrays of scalars); "
    "str() of floats, dates, nested arrays and tables is `unmodelled`; csv.reader is transcribed for one-line section names",
    "parse_path / findClassFromDottedName / parse_privacy_tuple (the Options converters) are not modelled: they receive the same "
    "text from a file and from the command line (file_eq_cli) and are compared as black boxes through Options equality",
    "`[DEFAULT]` entries are handed to every INI section by configparser (modelled: sectionItems); INI keys reach the model as "
    "configparser returns them (case kept since commit c9fb39f)",
    "abbreviated long options and clustered short options (--proj, -vv) are not seen by configargparse's "
    "already_on_command_line; the model covers exact option strings; abbreviations are probed with the direct oracle only",
]
EXPLANATION = ("Theorems over the model of _configparser.py and of configargparse's merge hold for every string / every option "
               "table; the correspondence ties recognisers, decoder, INI value pipeline, TOML stringification, validator and "
               "merge to the real code; the direct oracle reads real files with the real Options.from_args.")

ALPHA = ["a", " ", '"', "'", "\\", "#", ";", "=", "%", "[", "]", "\n", "\t"]
META = set('"\'\\#;=%[]\n\t')

SIG_PERCENT = "ini-quoted-value:percent-interpolation"
SIG_NUL = "ini-quoted-value:nul"
SIG_EMPTY3 = "ini-quoted-value:empty-triple"
SIG_INI_AS_TOML = "pydoctor.ini-read-as-toml:quoted-value-differs"
SIG_TOML_LIB = "toml-quoted-value:leading-escaped-quote"
SIG_ABBREV = "cli-abbreviation:file-not-overridden"
SIG_CRASH = "config-file:uncaught-exception"
SIG_CLUSTER = "cli-clustered-short-count:file-count-added"
SIG_DDASH = "string-value:double-dash-lost"
SIG_BADCOUNT = "bad-count-or-flag-value:traceback"
SIG_KEYCASE = "key-case:ini-applies-toml-warns"
SIG_TOMLBOOL = "toml-bool-on-string-option:capitalised"
# what str.splitlines() breaks at besides \n and \r (a text file does not): VT FF FS GS RS NEL LS PS
LINE_BOUNDARIES = ["\x0b", "\x0c", "\x1c", "\x1d", "\x1e", "\x85", "\u2028", "\u2029"]
SIG_CONFIG_KEY = "config-key-in-file:neither-applied-nor-warned"
SIG_UNKNOWN_BADVALUE = "unknown-key:aborts:unevaluable-ini-value"
SIG_TOML_AS_INI = "toml-file-read-as-ini:quoted-value-differs"
SIG_ML_QUOTES = "ini-multiline-list:quoted-items-keep-quotes"
SIG_TOML_ARRAY = "toml-array-value:comma-misread"
SIG_POSITIONAL = "positional-equal-to-option-string:file-value-dropped"
SIG_MAXAGE = "intersphinx-cache-max-age:not-checked-at-parse-time"
MAXAGE_GOOD = ["1d", "3h", "0s", "59m", "2w", "1w"]
MAXAGE_BAD = ["1x", "x", "d", "1", "1.5d", "-1d", "1 d", "1dd", "99999999999999999999w", "é"]
SIG_CONF_AS_TOML = "config-file-other-extension-read-as-toml:quoted-value-differs"


def compare(ctx: Ctx, stream: str, reqs, impls, pay=None) -> None:
    """ctx.compare, retried when the driver binary is being relinked by a concurrent `lake build`"""
    ctx.count("corr:" + stream, len(reqs))
    for attempt in range(4):
        try:
            ctx.compare(stream, reqs, impls, pay)
            return
        except (OSError, Infra):
            if attempt == 3:
                raise
            time.sleep(5)


def model(ctx: Ctx, reqs: Sequence[str]) -> List[str]:
    for attempt in range(4):
        try:
            return ctx.driver.run_parallel(list(reqs))
        except (OSError, Infra):
            if attempt == 3:
                raise
            time.sleep(5)
    return []


def strings_upto(n: int) -> List[str]:
    return ["".join(t) for L in range(n + 1) for t in itertools.product(ALPHA, repeat=L)]


def nontrivial_str(s: str) -> bool:
    return any(c in META for c in s)


# ------------------------------------------------------------------ the quoting function of the property (mirror of Config.quote1/3)

def esc_char(q: str, c: str) -> str:
    if c == "\\":
        return "\\\\"
    if c == q:
        return "\\" + q
    if c == "\r":
        return "\\r"
    if c == "\x00":
        return "\\x00"
    return c


def py_quote(form: str, s: str) -> str:
    """forms 1d 1s 3d 3s (mirror of Config.quote1/quote3) and r1d r1s r3d r3s (the same with NUL left raw: quote1R/quote3R)"""
    raw = form[0] == "r"
    form = form[-2:]
    q = '"' if form[1] == "d" else "'"
    esc = (lambda c: c if (raw and c == "\x00") else esc_char(q, c))
    if form[0] == "1":
        return q + "".join("\\n" if c == "\n" else esc(c) for c in s) + q
    return q * 3 + "".join(esc(c) for c in s) + q * 3


FORMS = ["1d", "1s", "3d", "3s"]
RAW_FORMS = ["r1d", "r1s", "r3d", "r3s"]


def toml_basic(s: str) -> str:
    out = []
    for c in s:
        if c == "\\":
            out.append("\\\\")
        elif c == '"':
            out.append('\\"')
        elif c == "\n":
            out.append("\\n")
        elif c == "\t":
            out.append("\\t")
        elif c == "\r":
            out.append("\\r")
        elif ord(c) < 0x20 or ord(c) == 0x7f:
            out.append("\\u%04x" % ord(c))
        else:
            out.append(c)
    return '"' + "".join(out) + '"'


def toml_literal(s: str) -> Optional[str]:
    if "'" in s or any((ord(c) < 0x20 and c != "\t") or ord(c) == 0x7f for c in s):
        return None
    return "'" + s + "'"


def ini_multiline_safe(s: str) -> bool:
    """a raw newline in an INI value starts a continuation line; these are the strings whose lines configparser keeps"""
    if "\n" not in s:
        return True
    for line in s.split("\n"):
        if line == "" or line != line.strip() or line[0] in "#;":
            return False
    return True


def ini_embed(text: str) -> str:
    """continuation lines must be indented"""
    return text.replace("\n", "\n    ")


# ------------------------------------------------------------------ real code adapters

def impl_unq(text: str, triple: bool) -> str:
    from pydoctor._configparser import unquote_str
    try:
        return "ok " + enc(unquote_str(text, triple=triple))
    except ValueError:
        return "ValueError"
    except Exception as e:   # anything else escaping unquote_str is outside its contract
        return "RAISE:" + type(e).__name__


class Scratch:
    """a scratch cwd; every real Options.from_args call happens inside it"""

    def __init__(self) -> None:
        self.dir = tempfile.mkdtemp(prefix="c20-")
        self.old = os.getcwd()
        os.chdir(self.dir)
        os.makedirs("sub/x", exist_ok=True)
        self.argv: Optional[List[str]] = None
        self.ns: Optional[Dict[str, Any]] = None
        self._orig = argparse.ArgumentParser.parse_known_args
        scratch = self

        def spy(self_, args=None, namespace=None):
            import configargparse
            mine = isinstance(self_, configargparse.ArgumentParser) and args is not None
            if mine:
                scratch.argv = list(args)
            res = scratch._orig(self_, args, namespace)
            if mine:
                scratch.ns = dict(vars(res[0]))     # what argparse stored, before parse_args/Options touch it
            return res
        argparse.ArgumentParser.parse_known_args = spy  # type: ignore[method-assign]

    def close(self) -> None:
        argparse.ArgumentParser.parse_known_args = self._orig  # type: ignore[method-assign]
        os.chdir(self.old)
        shutil.rmtree(self.dir, ignore_errors=True)

    def clear(self) -> None:
        for f in ("pyproject.toml", "setup.cfg", "pydoctor.ini", "pydoctor.conf"):
            if os.path.exists(f):
                os.remove(f)

    def write(self, name: str, text: str) -> None:
        with open(name, "w", encoding="utf-8", newline="") as f:
            f.write(text)

    def run(self, args: Sequence[str]) -> Dict[str, Any]:
        """real Options.from_args(args) in the scratch cwd"""
        from pydoctor.options import Options
        self.argv = None
        self.ns = None
        err = io.StringIO()
        res: Dict[str, Any]
        with warnings.catch_warnings(record=True) as caught, contextlib.redirect_stderr(err):
            warnings.simplefilter("always")
            try:
                o = Options.from_args(list(args))
                res = {"kind": "ok", "options": o}
            except SystemExit as e:
                res = {"kind": "exit", "code": e.code, "msg": err.getvalue().strip()[-300:]}
            except BaseException as e:  # noqa: BLE001 - an exception escaping from_args is an outcome to report
                res = {"kind": "raise", "cls": type(e).__name__, "msg": str(e)[:200]}
        res["warnings"] = [str(w.message) for w in caught if str(w.message).startswith("No such config option")]
        res["argv"] = self.argv
        if self.ns is not None:
            res["ns"] = self.ns
        return res


def opt_dict(o: Any) -> Dict[str, Any]:
    import attr
    return attr.asdict(o, recurse=False)


def outcome_key(r: Dict[str, Any]) -> Any:
    if r["kind"] == "ok":
        return ("ok", sorted((k, repr(v)) for k, v in opt_dict(r["options"]).items()))
    if r["kind"] == "exit":
        return ("exit", r["code"])
    return ("raise", r["cls"])


def short(r: Dict[str, Any]) -> str:
    if r["kind"] == "ok":
        return "ok"
    if r["kind"] == "exit":
        return f"exit {r['code']}: {r['msg'][-160:]}"
    return f"raise {r['cls']}: {r['msg']}"


FILES = [("pyproject.toml", "[tool.pydoctor]", "toml"), ("setup.cfg", "[tool:pydoctor]", "ini"),
         ("pydoctor.ini", "[pydoctor]", "ini")]


# ------------------------------------------------------------------ stream (a): recognisers, decoder, quoting

def stream_quoting(ctx: Ctx) -> None:
    from pydoctor._configparser import is_quoted, unquote_str
    n = 3 if ctx.quick else 4
    base = strings_upto(n)
    texts = list(base)
    for s in strings_upto(n - 1):
        for q in ('"', "'"):
            texts += [q + s + q, q * 3 + s + q * 3, q + s + q + "\n", q * 3 + s + q * 3 + "\n"]
    # wider alphabet (random): CR, NUL, escapes the decoder knows and the ones it declares unmodelled, Unicode blanks
    wide = ["a", "x", "0", "1", "7", "8", "n", "r", "t", "v", "b", "f", "N", "u", "U", "{", "}", " ", "\t", "\n", "\r", "\x00",
            "\\", "\\", '"', "'", "#", "%", "é", "\u2028", "\x0c", "\x85", "A", "F", "g"]
    for _ in range(3000 if ctx.quick else 40000):
        body = "".join(ctx.rng.choice(wide) for _ in range(ctx.rng.randint(0, 7)))
        q = ctx.rng.choice(['"', "'", '"""', "'''"])
        texts.append(q + body + q if ctx.rng.random() < 0.9 else body)
    texts = list(dict.fromkeys(texts))
    for triple in (True, False):
        t = "t" if triple else "s"
        reqs = [f"config isq {t} {enc(s)}" for s in texts]
        impl = [str(is_quoted(s, triple=triple)) for s in texts]
        compare(ctx, "is_quoted~isQuoted", reqs, impl, texts)
        reqs = [f"config unq {t} {enc(s)}" for s in texts]
        impl = [impl_unq(s, triple) for s in texts]
        outs = model(ctx, reqs)
        for i, m in enumerate(outs):
            if m == "unmodelled":
                ctx.count("unquote:unmodelled-escape")
                impl[i] = "unmodelled"
        compare(ctx, "unquote_str~unquoteStr", reqs, impl, texts)
        for s, r in zip(texts, impl):
            ctx.count("unquote:" + r.split()[0])
            # direct oracle: a text that is not quoted is returned unchanged; nothing but ValueError escapes
            if r.startswith("RAISE"):
                ctx.fail("unquote-raises:" + r[6:], {"text": s, "triple": triple}, f"unquote_str({s!r}) raised {r[6:]}")
            elif not is_quoted(s, triple=triple) and r != "ok " + enc(s):
                ctx.fail("unquoted-not-passed-through", {"text": s, "triple": triple}, f"unquote_str({s!r}) changed an unquoted text")
    for s in texts:
        ctx.case("unq " + enc(s), nontrivial_str(s), None)
    # quoting function: model quote == harness quote, recognised, read back
    srcs = list(base)
    uni = ["a", "é", "☃", "\U0001f600", "\x00", "\r", "\n", "\t", "\\", '"', "'", "%", "\x7f", "\x1b", "\u2028", " "]
    for _ in range(1500 if ctx.quick else 20000):
        srcs.append("".join(ctx.rng.choice(uni) for _ in range(ctx.rng.randint(1, 8))))
    srcs = list(dict.fromkeys(srcs))
    reqs, impl, pay = [], [], []
    for s in srcs:
        for form in FORMS + (RAW_FORMS if "\x00" in s else []):
            qd = py_quote(form, s)
            try:
                back = ast.literal_eval(qd.replace("\x00", "\\x00"))   # (Python source itself cannot hold a raw NUL)
            except Exception as e:  # the quoting function itself must produce a Python literal of s
                raise Infra(f"py_quote({form},{s!r}) is not a Python literal: {e}")
            if back != s:
                raise Infra(f"py_quote({form},{s!r}) evaluates to {back!r}")
            isq = is_quoted(qd)
            un = impl_unq(qd, True)
            reqs.append(f"config quote {form} {enc(s)}")
            impl.append(f"{enc(qd)} {isq} {un}")
            pay.append({"form": form, "s": s})
            ctx.case(f"quote {form} {enc(s)}", nontrivial_str(s),
                     {"written": qd, "read_back": un} if nontrivial_str(s) and len(s) == 3 and len(ctx.samples) < 2 else None)
            ctx.count("quote-form:" + form)
            if not isq or un != "ok " + enc(s):
                sig = SIG_EMPTY3 if (s == "" and form[-2] == "3") else SIG_NUL if (form[0] == "r") else "quote-roundtrip:" + form
                ctx.fail(sig, {"form": form, "s": s, "quoted": qd},
                         f"unquote_str({qd!r}) -> is_quoted={isq}, {un}")
    compare(ctx, "quote~quote1/quote3", reqs, impl, pay)
    # str.isspace table and strip
    reqs = ["config space 0 12544"]
    impl = [",".join(str(i) for i in range(12544) if chr(i).isspace())]
    compare(ctx, "str.isspace~isPySpace", reqs, impl)
    blanks = [" ", "\t", "\n", "\x0b", "\x0c", "\r", "\x1c", "\x1f", "\x85", "\xa0", "\u2003", "\u3000", "a", '"', "\u200b", "\ufeff"]
    ts = ["".join(ctx.rng.choice(blanks) for _ in range(ctx.rng.randint(0, 6))) for _ in range(500)]
    compare(ctx, "str.strip~pyStrip", [f"config iniline {enc(t)}" for t in ts], [enc(t.strip()) for t in ts], ts)


# ------------------------------------------------------------------ stream: INI value pipeline / list literal / TOML items

def ini_parse_real(text: str, split_ml: bool) -> Tuple[str, Any]:
    """real IniConfigParser.parse on a file text: ('ok', dict) or ('error', kind)"""
    import configparser
    from configargparse import ConfigFileParserException
    from pydoctor._configparser import IniConfigParser
    from pydoctor.options import CONFIG_SECTIONS
    try:
        return "ok", IniConfigParser(CONFIG_SECTIONS, split_ml).parse(io.StringIO(text))
    except configparser.InterpolationError:
        return "error", "interpolation"
    except ConfigFileParserException as e:
        m = str(e)
        if m.startswith("Error evaluating list"):
            return "error", "listEval"
        if m.startswith("Error trying to unquote"):
            return "error", "unquote"
        if m.startswith("Couldn't parse INI file"):
            return "error", "syntax"
        return "error", "other:" + m[:40]


def sect(name: str, words: Sequence[str]) -> str:
    return name + (" " + " ".join(words) if words else "")


def show_val(v: Any) -> str:
    if v is None:
        return "skip"
    if isinstance(v, list) and all(isinstance(x, str) for x in v):
        return sect("list", [enc(x) for x in v])
    if isinstance(v, str):
        return "str " + enc(v)
    return "not-a-string:" + type(v).__name__      # the parsers promise str or list of str


def stream_ini_values(ctx: Ctx) -> None:
    import configparser
    n = 3 if ctx.quick else 4
    values = strings_upto(n)
    # values a user writes: quoted forms, list literals, multi-line lists
    extra = []
    for s in strings_upto(2):
        for form in FORMS:
            extra.append(py_quote(form, s))
        extra.append("[" + py_quote("1d", s) + ", " + py_quote("1s", s + "x") + "]")
        extra.append("[" + py_quote("3s", s + "y") + ",\n" + py_quote("1d", s) + ",]")
        extra.append("[" + s + "]")
    # one item per line with every str.splitlines() boundary (and CR) in the middle of an item: only \n separates items
    for b in LINE_BOUNDARIES + ["\r"]:
        extra += [f"a{b}b", f"a{b}b\nc", f"x\na{b}b", f"x\na{b}b\ny{b}{b}z", f"'q{b}'\nr", f"{b}lead\ntrail{b}"]
    pool = ["a", "b", " ", "'", '"', "\\", "%", "%%", "%(", "(", ")", "s", "[", "]", ",", "\n", "\n", "#", "1", "x", "=", ":"] + LINE_BOUNDARIES + ["\r"]
    for _ in range(2000 if ctx.quick else 30000):
        extra.append("".join(ctx.rng.choice(pool) for _ in range(ctx.rng.randint(1, 9))))
    values = list(dict.fromkeys(values + extra))
    reqs0, reqs1, impl0, impl1, pay = [], [], [], [], []
    for v in values:
        text = "[tool:pydoctor]\nk = " + ini_embed(v) + "\n"
        ref = configparser.ConfigParser(interpolation=None)
        try:
            ref.read_string(text)
            raw = ref["tool:pydoctor"].get("k")
            keys = list(ref["tool:pydoctor"].keys())
        except configparser.Error:
            ctx.count("ini-value:not-a-value(configparser refuses the file)")
            continue
        if raw is None or keys != ["k"]:
            ctx.count("ini-value:not-a-value(other keys)")
            continue
        for split_ml, reqs, impl in ((True, reqs1, impl1), (False, reqs0, impl0)):
            kind, res = ini_parse_real(text, split_ml)
            if kind == "ok":
                out = show_val(res.get("k"))
            else:
                out = "error:" + res
            reqs.append(f"config inival none {1 if split_ml else 0} {enc(raw)}")
            impl.append(out)
        pay.append({"value": v, "raw": raw})
        ctx.case("inival " + enc(raw), nontrivial_str(raw), None)
    for reqs, impl, name in ((reqs1, impl1, "IniConfigParser(split_ml)~iniValue"), (reqs0, impl0, "IniConfigParser(no split)~iniValue")):
        outs = model(ctx, reqs)
        for i, m in enumerate(outs):
            if m == "unmodelled":
                ctx.count("ini-value:unmodelled(reference, nested list, comment…)")
                impl[i] = "unmodelled"
            else:
                ctx.count("ini-value:" + impl[i].split()[0].split(":")[0])
        compare(ctx, name, reqs, impl, pay)
    # literal_eval on list displays, directly
    lists = ["[" + c + "]" for c in strings_upto(2 if ctx.quick else 3)]
    items_pool = [py_quote(f, s) for f in FORMS for s in ["", "a", "a b", "it's", 'q"q', "\\", "100%", "x\ny", "#", "]", "[", ","]]
    seps = [",", ", ", " ,\n ", ",\n", " "]
    for _ in range(1500 if ctx.quick else 20000):
        k = ctx.rng.randint(0, 4)
        body = ""
        for j in range(k):
            body += ctx.rng.choice(items_pool)
            if j < k - 1 or ctx.rng.random() < 0.3:
                body += ctx.rng.choice(seps)
        lists.append("[" + ctx.rng.choice(["", " ", "\n"]) + body + ctx.rng.choice(["", " ", "\n "]) + "]")
    lists = list(dict.fromkeys(lists))
    reqs, impl = [], []
    for v in lists:
        try:
            with warnings.catch_warnings():
                warnings.simplefilter("ignore")
                l = ast.literal_eval(v)
            assert isinstance(l, list)
            out = sect("ok", [enc(str(i)) for i in l])
        except Exception:
            out = "error"
        reqs.append("config evallist " + enc(v))
        impl.append(out)
    outs = model(ctx, reqs)
    for i, m in enumerate(outs):
        if m == "unmodelled":
            ctx.count("evallist:unmodelled")
            impl[i] = "unmodelled"
        else:
            ctx.count("evallist:" + impl[i].split()[0])
    compare(ctx, "literal_eval(list)~evalList", reqs, impl, lists)
    # BasicInterpolation alone: no longer on pydoctor's path (ConfigParser(interpolation=None) since commit d27392d); this
    # ties `basicInterp`, the function of the historical counterexamples (ini_*_old_*), to CPython
    vals = ["".join(ctx.rng.choice(["a", "%", "%%", "(", ")", "s", " "]) for _ in range(ctx.rng.randint(0, 6))) for _ in range(800)]
    vals = list(dict.fromkeys(vals))
    reqs, impl = [], []
    for v in vals:
        cp = configparser.ConfigParser()
        cp.read_dict({"s": {}})
        cp._sections["s"]["k"] = v   # the stored raw value (ConfigParser.set would validate the syntax first)
        try:
            out = "ok " + enc(cp["s"]["k"])
        except configparser.InterpolationSyntaxError:
            out = "error"
        except configparser.InterpolationError:
            out = "unmodelled"
        reqs.append("config interp " + enc(v))
        impl.append(out)
    outs = model(ctx, reqs)
    for i, m in enumerate(outs):
        if m == "unmodelled":
            impl[i] = "unmodelled"
    compare(ctx, "BasicInterpolation~basicInterp", reqs, impl, vals)


def stream_toml_and_sections(ctx: Ctx) -> None:
    import toml
    from pydoctor._configparser import TomlConfigParser, IniConfigParser
    from pydoctor.options import CONFIG_SECTIONS, PydoctorConfigParser
    # TOML stringification: value -> item
    scal = [("s:" + enc(s), toml_basic(s), s) for s in ["", "a", "a b", "it's", 'q"q', "\\", "100%", "x\ny", "True", "1", "[x]"]]
    scal += [(f"i:{i}", str(i), str(i)) for i in (0, 1, 7, -3, 12345)]
    scal += [("b:1", "true", "True"), ("b:0", "false", "False")]
    reqs, impl = [], []
    for tok, lit, want in scal:
        text = f"[tool.pydoctor]\nk = {lit}\n"
        got = TomlConfigParser(CONFIG_SECTIONS).parse(io.StringIO(text)).get("k")
        reqs.append("config tomlitem " + tok)
        impl.append(show_val(got))
    for _ in range(300 if ctx.quick else 3000):
        items = [ctx.rng.choice(scal) for _ in range(ctx.rng.randint(0, 4))]
        text = "[tool.pydoctor]\nk = [" + ", ".join(i[1] for i in items) + "]\n"
        try:
            got = TomlConfigParser(CONFIG_SECTIONS).parse(io.StringIO(text)).get("k")
        except Exception:   # toml refuses mixed-type arrays: not a value
            ctx.count("toml:array-refused(mixed types)")
            continue
        reqs.append(sect("config tomlitem L", [i[0] for i in items]))
        impl.append(show_val(got if got is not None else []))
    outs = model(ctx, reqs)
    for i, m in enumerate(outs):
        if m == "unmodelled":
            impl[i] = "unmodelled"
    compare(ctx, "TomlConfigParser~tomlItem", reqs, impl, None)
    # section lookup: TOML takes the first non-empty section in CONFIG_SECTIONS order; INI merges every named section in file order
    names = {"tool.pydoctor": "[tool.pydoctor]", "tool:pydoctor": '["tool:pydoctor"]', "pydoctor": "[pydoctor]", "other": "[other]"}
    reqs, impl = [], []
    for _ in range(200 if ctx.quick else 2000):
        present = ctx.rng.sample(list(names), ctx.rng.randint(0, 4))
        sizes = [ctx.rng.randint(0, 2) for _ in present]
        text = ""
        for idx, (sec, k) in enumerate(zip(present, sizes)):
            text += names[sec] + "\n" + "".join(f"k{j} = \"{idx}\"\n" for j in range(k))
        got = TomlConfigParser(CONFIG_SECTIONS).parse(io.StringIO(text))
        vals = set(got.values())
        reqs.append(f"config tomlpick {len(CONFIG_SECTIONS)} " + " ".join(enc(s) for s in CONFIG_SECTIONS) + f" {len(present)} " +
                    " ".join(f"{enc(s)} {k}" for s, k in zip(present, sizes)))
        impl.append(vals.pop() if len(vals) == 1 else ("-" if not vals else "MIXED"))
    compare(ctx, "TomlConfigParser sections~tomlPick", reqs, impl, None)
    ininames = ["tool.pydoctor", "tool:pydoctor", "pydoctor", "other"]
    reqs, impl = [], []
    vpool = ["x", "'q'", '"100%%"', "a\n    b", "[\"l\"]", "", "%"]
    for _ in range(300 if ctx.quick else 3000):
        present = ctx.rng.sample(ininames, ctx.rng.randint(0, 4))
        if ctx.rng.random() < 0.4:      # configparser hands the [DEFAULT] entries to every section (sectionItems)
            present.insert(ctx.rng.randint(0, len(present)), "DEFAULT")
            ctx.count("ini-sections:with-[DEFAULT]")
        text, secs = "", []
        for sec in present:
            kvs = [(ctx.rng.choice(["k0", "k1", "k2"]), ctx.rng.choice(vpool)) for _ in range(ctx.rng.randint(0, 3))]
            kvs = list(dict(kvs).items())
            text += f"[{sec}]\n" + "".join(f"{k} = {v}\n" for k, v in kvs)
            secs.append((sec, [(k, v.replace("\n    ", "\n")) for k, v in kvs]))
        kind, res = ini_parse_real(text, True)
        if kind == "ok":
            out = " ".join(f"{enc(k)} " + ("l:" + ",".join(enc(x) for x in v) if isinstance(v, list) else "s:" + enc(v))
                           for k, v in res.items()) or "-"
        else:
            out = "refused"
        reqs.append(f"config iniitems none {len(CONFIG_SECTIONS)} " + " ".join(enc(s) for s in CONFIG_SECTIONS) + f" {len(secs)} " +
                    " ".join(f"{enc(s)} {len(kvs)} " + " ".join(f"{enc(k)} {enc(v)}" for k, v in kvs) for s, kvs in secs))
        impl.append(out)
    compare(ctx, "IniConfigParser sections~iniItems", [" ".join(r.split()) for r in reqs], impl, None)
    # parse_toml_section_name on the three constants (the only inputs it gets)
    from pydoctor._configparser import parse_toml_section_name
    want = {"tool.pydoctor": ("tool", "pydoctor"), "tool:pydoctor": ("tool:pydoctor",), "pydoctor": ("pydoctor",)}
    for s in CONFIG_SECTIONS:
        if parse_toml_section_name(s) != want.get(s):
            ctx.broken.append(f"parse_toml_section_name({s!r}) = {parse_toml_section_name(s)!r}: section table of the model is stale")


# ------------------------------------------------------------------ stream (b): quoted strings through real files

def percent_cause(text: str, written: Sequence[str]) -> bool:
    """is configparser interpolation what spoils the value? (the INI parser alone raises an interpolation error, or
    hands back fewer '%' than were written)"""
    if not any("%" in w for w in written):
        return False
    kind, res = ini_parse_real(text, True)
    if kind == "error":
        return res == "interpolation"
    got = "".join(x if isinstance(x, str) else "".join(x) for x in res.values())
    return got.count("%") < sum(w.count("%") for w in written)


def classify_string_failure(fname: str, form: str, s: str, r: Dict[str, Any], got: Any, text: Optional[str] = None) -> str:
    if fname == "pyproject.toml":
        if s.startswith('"') and form == "basic":
            return SIG_TOML_LIB
        return "toml-quoted-value:" + form
    if fname == "pydoctor.ini" and text is not None:
        # the same text read by the INI parser alone: right there means the TOML-first composite parser is the cause
        kind, res = ini_parse_real(text, True)
        if kind == "ok" and (res.get("project-name") == s or res.get("intersphinx") == [s]):
            return SIG_INI_AS_TOML
    if text is not None and percent_cause(text, [s]):
        return SIG_PERCENT
    if "\x00" in s and form.startswith("r"):
        return SIG_NUL
    if s == "" and form in ("3d", "3s"):
        return SIG_EMPTY3
    if fname == "pydoctor.ini":
        return SIG_INI_AS_TOML
    return f"ini-quoted-value:{form}"


def string_file(fname: str, header: str, key: str, quoted: str) -> str:
    return f"{header}\n{key} = {ini_embed(quoted) if fname != 'pyproject.toml' else quoted}\n"


def writings(fname: str, s: str) -> List[Tuple[str, str]]:
    """(form, quoted text) a user/tool would write for s in that file"""
    if fname == "pyproject.toml":
        res = [("basic", toml_basic(s))]
        lit = toml_literal(s)
        if lit is not None:
            res.append(("literal", lit))
        return res
    res = [("1d", py_quote("1d", s)), ("1s", py_quote("1s", s))]
    if ini_multiline_safe(s):
        res += [("3d", py_quote("3d", s)), ("3s", py_quote("3s", s))]
    if "\x00" in s:      # the same forms with the NUL left raw
        res += [(f, py_quote(f, s)) for f in RAW_FORMS if f[1] == "1" or ini_multiline_safe(s)]
    return res


EXTRA_SINGLES = ["a\na", "k=v\n[x]\n'q'", 'say "hi"\nit\'s', "a # b ; c = [d] \\ e", "tab\there", "x" * 200, "é☃\U0001f600",
                 "'''", '"""', "\\\\", "ends with \\", "l1\nl2\nl3",
                 "a\x00b", "\x00", "\\\x00'\"\x00"]


def stream_string_files(ctx: Ctx, sc: Scratch) -> None:
    from pydoctor.options import PydoctorConfigParser
    n_single = 2 if ctx.quick else 3
    n_batch = 3 if ctx.quick else 4
    # plus a few longer ones: multi-line texts (triple-quoted forms keep the newline raw), every metacharacter at once
    singles = strings_upto(n_single) + EXTRA_SINGLES
    # (1) one string per file, option project-name (store)
    mreqs, mimpl, mpay = [], [], []
    for s in singles:
        for fname, header, _ in FILES:
            for form, qd in writings(fname, s):
                sc.clear()
                text = string_file(fname, header, "project-name", qd)
                sc.write(fname, text)
                r = sc.run([])
                got = r["options"].projectname if r["kind"] == "ok" else None
                ok = r["kind"] == "ok" and got == s
                ctx.case(f"file {fname} {form} {enc(s)}", nontrivial_str(s),
                         {"file": fname, "written": qd, "read_back": got} if nontrivial_str(s) and len(ctx.samples) < 4 and len(s) == 2 else None)
                ctx.count(f"string-file:{fname}:{form}")
                if not ok:
                    ctx.fail(classify_string_failure(fname, form, s, r, got, text), {"file": fname, "form": form, "s": s, "written": qd},
                             f"{fname}: project-name = {qd!r} read back as {got!r} ({short(r)}); written string {s!r}")
                if fname == "setup.cfg":
                    # the model's prediction for the INI path (TOML refuses `[tool:pydoctor]`, so INI it is)
                    mreqs.append(f"config inival none 1 {enc(qd)}")
                    mimpl.append("str " + enc(got) if r["kind"] == "ok" and got is not None else
                                 ("skip" if r["kind"] == "ok" else "error:" + ("interpolation" if "must be followed by" in r.get("msg", "") or "bad interpolation" in r.get("msg", "") else "unquote" if "Error trying to unquote" in r.get("msg", "") else "listEval" if "Error evaluating list" in r.get("msg", "") else "?")))
                    mpay.append({"s": s, "form": form})
    compare(ctx, "Options.from_args(setup.cfg)~iniValue∘quote", mreqs, mimpl, mpay)
    # (2) batches: the strings as items of the list option `intersphinx` (free text, append)
    allstr = strings_upto(n_batch)
    B = 40
    for fname, header, kind in FILES:
        forms = ["basic"] if kind == "toml" else ["1d", "1s", "3d", "3s"]
        for form in forms:
            if kind == "toml":
                cand = [(s, toml_basic(s)) for s in allstr]
            else:
                cand = [(s, py_quote(form, s)) for s in allstr if form[0] == "1" or ini_multiline_safe(s)]
            # strings with and without '%' go to different batches (one bad item refuses the whole INI file)
            groups: Dict[bool, List[Tuple[str, str]]] = {True: [], False: []}
            for c in cand:
                groups["%" in c[0] and kind == "ini"].append(c)
            for flag, items in groups.items():
                for i in range(0, len(items), B):
                    chunk = items[i:i + B]
                    body = "[" + ",\n ".join(q for _, q in chunk) + "]"
                    sc.clear()
                    sc.write(fname, f"{header}\nintersphinx = {ini_embed(body) if kind == 'ini' else body}\n")
                    r = sc.run([])
                    got = list(r["options"].intersphinx) if r["kind"] == "ok" else None
                    want = [s for s, _ in chunk]
                    ctx.count(f"string-batch:{fname}:{form}", len(chunk))
                    for s, _ in chunk:
                        ctx.case(f"batch {fname} {form} {enc(s)}", nontrivial_str(s), None)
                    if got == want:
                        continue
                    # attribute: each item alone through the real config-file parser
                    for s, q in chunk:
                        text = f"{header}\nintersphinx = [{ini_embed(q) if kind == 'ini' else q}]\n"
                        try:
                            one = PydoctorConfigParser.parse(_named(io.StringIO(text), fname)).get("intersphinx")
                            what = repr(one)
                        except Exception as e:
                            one, what = None, f"{type(e).__name__}: {str(e)[:120]}"
                        if one != [s]:
                            ctx.fail(classify_string_failure(fname, form, s, r, one, text), {"file": fname, "form": form, "s": s, "written": q, "as": "list item"},
                                     f"{fname}: intersphinx = [{q!r}] read back as {what}; written string {s!r}")
    # (3) raw NUL between quotes, hand-written
    for fname, header, kind in FILES[1:]:
        sc.clear()
        sc.write(fname, f"{header}\nproject-name = 'a\x00b'\nproject-version = 1\n# not toml: x\n")
        r = sc.run([])
        ctx.count("string-file:raw-nul")
        if not (r["kind"] == "ok" and r["options"].projectname == "a\x00b"):
            ctx.fail(SIG_NUL, {"file": fname, "form": "raw", "s": "a\x00b"}, f"{fname}: project-name = 'a<NUL>b' -> {short(r)}")
    # (4) the same INI texts given through --config under a name that is neither *.ini nor *.cfg: CompositeConfigParser
    #     picks the INI parser first only by extension (commit fd24ad4); elsewhere TOML is still tried first
    for s in strings_upto(1 if ctx.quick else 2) + EXTRA_SINGLES:
        for form, qd in writings("pydoctor.ini", s):
            text = string_file("pydoctor.conf", "[pydoctor]", "project-name", qd)
            sc.clear()
            sc.write("pydoctor.conf", text)
            r = sc.run(["--config=pydoctor.conf"])
            got = r["options"].projectname if r["kind"] == "ok" else None
            ctx.case(f"file --config=pydoctor.conf {form} {enc(s)}", nontrivial_str(s), None)
            ctx.count("string-file:--config=pydoctor.conf:" + form)
            if not (r["kind"] == "ok" and got == s):
                kind, res = ini_parse_real(text, True)
                sig = SIG_CONF_AS_TOML if (kind == "ok" and res.get("project-name") == s) else classify_string_failure("setup.cfg", form, s, r, got, text)
                ctx.fail(sig, {"file": "pydoctor.conf", "form": form, "s": s, "written": qd, "config_arg": True},
                         f"--config=pydoctor.conf: project-name = {qd!r} read back as {got!r} ({short(r)}); written string {s!r}")
    if os.path.exists("pydoctor.conf"):
        os.remove("pydoctor.conf")


def _named(stream: io.StringIO, name: str) -> io.StringIO:
    stream.name = name  # type: ignore[attr-defined]
    return stream


# ------------------------------------------------------------------ stream (c): every option

FREE_TEXT = ["x", "a b", "it's", 'say "hi"', "a\\b", "#x;y=z", "100%", "[x]", " lead", "trail ", "-dash", "é☃", "a,b", "true",
             "'q'", "k=v", "--x", "a:b", "${x}", "C:\\dir", "\ttab", "x" * 60, "a\x0cb", "x\u2028y", "n\x85l"]
INTS = ["0", "1", "5", "12", "-1", "x", "1.5", "007"]
PATHS = ["sub", "./sub/x", "/abs/p", "a b", "sub/../sub", "~/h", "é", ".", "sub/f\x0cf", "sub/l\u2029s"]
PRIV = ["PUBLIC:a.b", "hidden:x*", "PRIVATE:m.[ab]", "HIDDEN:a:b", "bad", "PUBLIC:", "Private:pkg.**", "PUBLIC:v\x0bt", "HIDDEN:g\x1ds"]
CLASSES = {"--system-class": ["pydoctor.model.System", "no.such.Class", "pydoctor.model.Class"],
           "--html-writer": ["pydoctor.templatewriter.TemplateWriter", "no.such.Writer", "pydoctor.model.System"]}
FLAGVALS = ["true", "false", "yes", "no", "on", "off", "1", "0", "True", "FALSE", "maybe", "2"]
COUNTVALS = ["0", "1", "2", "3", "abc", "1.5", "true", "no", "-1", "+2", " 2"]
TRUE_WORDS = ("true", "yes", "on", "1")
FALSE_WORDS = ("false", "no", "off", "0")


UNCOVERED: List[str] = []     # what of the live option table the model cannot carry: a broken correspondence, reported by run()


def _uncovered(msg: str) -> None:
    if msg not in UNCOVERED:
        UNCOVERED.append(msg)


def live_table(special: bool = False) -> List[Dict[str, Any]]:
    """the live option table in the model's terms.  An action the model has no kind for is NOT an infrastructure problem: it
    is recorded as a broken correspondence (run() puts it into ctx.broken) and carried as the nearest kind, so that every
    stream still runs and the direct oracles (stream_every_option_string first of all) look for a failing input."""
    from pydoctor.options import get_parser
    p = get_parser()
    table = []
    for a in p._actions:
        keys = p.get_possible_config_keys(a)
        if getattr(a, "is_config_file_arg", False):
            continue        # since commit 6190835 ValidatorParser does not count the config-file option's keys as known: not in the table
        is_special = isinstance(a, (argparse._HelpAction, argparse._VersionAction))
        if not keys or (is_special and not special):
            continue
        if is_special:
            # --help / --version: outside the value streams, but ValidatorParser counts their keys as known and
            # configargparse turns them into `--key=value` arguments: carried as `store` so that the model's table is the code's
            table.append({"flags": list(a.option_strings), "kind": "store", "dest": a.dest, "default": a.default, "type": None, "choices": None,
                          "key": keys[0], "keys": list(keys), "const": None, "action": a, "special": True})
            continue
        if a.nargs not in (None, 0):
            _uncovered(f"option table: {a.option_strings} has nargs={a.nargs!r}, outside the model's assumptions")
        if isinstance(a, argparse._AppendAction):
            kind = "append"
        elif isinstance(a, argparse._CountAction):
            kind = "count"
        elif isinstance(a, (argparse._StoreTrueAction, argparse._StoreFalseAction, argparse._StoreConstAction, argparse._AppendConstAction)):
            kind = "flag"
        elif isinstance(a, argparse._StoreAction):
            kind = "store"
        else:
            _uncovered(f"option table: {a.option_strings}: action {type(a).__name__} is not covered by the model")
            kind = "flag" if a.nargs == 0 else "store"
        table.append({"flags": list(a.option_strings), "kind": kind, "dest": a.dest, "default": a.default, "type": a.type,
                      "choices": list(a.choices) if a.choices else None, "key": keys[0], "keys": list(keys), "const": getattr(a, "const", None),
                      "action": a})
    flags = [f for o in table for f in o["flags"]]
    keys = [k for o in table for k in p.get_possible_config_keys(o["action"])]
    if len(set(flags)) != len(flags) or len(set(keys)) != len(keys) or "--" in flags:
        _uncovered("option table: the live table violates FlagsDisjoint/KeysDisjoint/NoSepFlag")
    return table


def values_for(o: Dict[str, Any], ctx: Ctx) -> List[str]:
    long = o["flags"][0]
    if o["kind"] == "flag":
        vals = FLAGVALS
    elif o["kind"] == "count":
        vals = COUNTVALS
    elif o["choices"]:
        vals = list(o["choices"]) + ["nonsense", ""]
    elif o["type"] is int:
        vals = INTS
    elif long in CLASSES:
        vals = CLASSES[long]
    elif long == "--intersphinx-cache-max-age":      # converter `_max_age` (commit 41f9bad): checked when the options are parsed
        vals = MAXAGE_GOOD[:3] + MAXAGE_BAD[:3] + MAXAGE_GOOD[3:] + MAXAGE_BAD[3:]
    elif long == "--privacy":
        vals = PRIV
    elif long in ("--project-base-dir", "--template-dir", "--add-package", "--html-output", "--intersphinx-cache-path"):
        vals = PATHS + FREE_TEXT[:4]
    else:
        vals = FREE_TEXT
    k = 6 if ctx.quick else 20
    if len(vals) <= k:
        return list(vals)
    head = list(vals[:3])
    rest = [v for v in vals[3:]]
    ctx.rng.shuffle(rest)
    return head + rest[:k - 3]


def file_value(kind: str, fmt_file: str, v: str, native: bool) -> str:
    """how the value is written in that file"""
    if fmt_file == "pyproject.toml":
        import re
        if native and kind == "flag" and v in ("true", "false"):
            return v                                   # TOML boolean
        if native and re.fullmatch(r"-?(0|[1-9][0-9]*)", v):
            return v                                   # TOML integer
        lit = toml_literal(v)
        if not native and lit is not None and len(v) % 2 == 1:
            return lit + "   # a TOML literal string and an end-of-line comment"
        return toml_basic(v) + ("  # comment" if not native else "")
    plain_ok = (v != "" and v == v.strip() and "\n" not in v and v[0] not in "[\"'"
                and not (v.startswith("#") or v.startswith(";")))
    return v if plain_ok and native else py_quote("1d", v)


def file_list(fmt_file: str, vs: List[str], style: int) -> str:
    if fmt_file == "pyproject.toml":
        return "[" + ", ".join(toml_basic(v) for v in vs) + "]"
    if style == 0 or not all(v and v == v.strip() and "\n" not in v and v[0] not in "[\"'#;" for v in vs) or len(vs) < 2:
        return "[" + ", ".join(py_quote("1d" if i % 2 else "1s", v) for i, v in enumerate(vs)) + "]"
    if style == 2:
        return "\n    " + "\n    ".join(py_quote("1d", v) for v in vs)     # one item per line, each line quoted
    return "\n    " + "\n    ".join(vs)     # one item per line (split_ml_text_to_list)


def cli_for(o: Dict[str, Any], v: str, style: int) -> Optional[List[str]]:
    """the command line that says the same as the file value v; None = no command-line equivalent"""
    flag = o["flags"][style % len(o["flags"])]
    if o["kind"] == "flag":
        if v.lower() in TRUE_WORDS:
            return [flag]
        if v.lower() in FALSE_WORDS:
            return []
        return None
    if o["kind"] == "count":
        if v.lower() in TRUE_WORDS:
            return [flag]
        if v.lower() in FALSE_WORDS:
            return []
        try:
            return [flag] * max(int(v), 0)
        except ValueError:
            return None
    if style % 2 == 1 and not v.startswith("-") and flag.startswith("--"):
        return [flag, v]
    if not flag.startswith("--"):
        return [flag, v] if not v.startswith("-") else [o["flags"][0] + "=" + v]
    return [flag + "=" + v]


def canon_args(table: List[Dict[str, Any]], args: Sequence[str]) -> List[str]:
    """`--opt v` -> `--opt=v` for valued options (what argparse does with the pair); the model's vector is in that form"""
    valued = {f for o in table if o["kind"] in ("store", "append") for f in o["flags"]}
    out: List[str] = []
    i = 0
    args = list(args)
    while i < len(args):
        if args[i] == "--":
            out += args[i:]
            break
        if args[i] in valued and i + 1 < len(args):
            out.append(args[i] + "=" + args[i + 1])
            i += 2
        else:
            out.append(args[i])
            i += 1
    return out


def merge_request(table: List[Dict[str, Any]], files: List[List[Tuple[str, Any]]], cli: List[str]) -> str:
    cli = canon_args(table, cli)
    parts = [f"config merge {len(table)}"]
    for o in table:
        parts.append(f"{o['kind']} {len(o['flags'])} " + " ".join(enc(f) for f in o["flags"]))
    parts.append(f"F {len(files)}")
    for items in files:
        parts.append(str(len(items)))
        for k, v in items:
            parts.append(enc(k) + " " + ("l:" + ",".join(enc(x) for x in v) if isinstance(v, list) else "s:" + enc(v)))
    parts.append(f"C {len(cli)} " + " ".join(enc(a) for a in cli))
    return " ".join(" ".join(parts).split())


def parse_files_real(present: List[str]) -> Optional[List[List[Tuple[str, Any]]]]:
    """what the real PydoctorConfigParser returns for each file present (in DEFAULT_CONFIG_FILES order)"""
    from pydoctor.options import PydoctorConfigParser
    res = []
    for f in present:
        try:
            with open(f, encoding="utf-8") as fh:
                res.append(list(PydoctorConfigParser.parse(fh).items()))
        except Exception:
            return None
    return res


def eff_check(tok: str, o: Dict[str, Any], ns_val: Any) -> bool:
    """does the model's per-option effect describe what argparse stored?"""
    kind, _, body = tok.partition(":")
    dec = lambda t: "".join(chr(int(x)) for x in t[2:].split(".")) if t != "u:" else ""
    if kind == "one":
        if body == "-":
            return ns_val is o["default"] or ns_val == o["default"]
        v = dec(body)
        return ns_val == (o["type"](v) if o["type"] else v)
    if kind == "many":
        vs = [dec(t) for t in body.split(",")] if body else []
        return list(ns_val or []) == list(o["default"] or []) + vs
    if kind == "flag":
        return ns_val == (o["const"] if body == "1" else o["default"]) or (ns_val is o["default"] and body == "0")
    if kind == "count":
        return ns_val == (o["default"] or 0) + int(body)
    return False


def stream_options(ctx: Ctx, sc: Scratch) -> None:
    table = live_table()
    mtable = live_table(special=True)       # the table ValidatorParser works with (help and version included; not --config)
    ctx.extra["options_in_live_table"] = len(table)
    ctx.extra["options_in_merge_table"] = len(mtable)
    # the hypotheses of the merge theorems (FlagsDisjoint, KeysDisjoint, NoSepFlag) evaluated by the model on the live
    # table, and the model's config keys of every option against configargparse's
    treq = f"config table {len(mtable)} " + " ".join(f"{o['kind']} {len(o['flags'])} " + " ".join(enc(f) for f in o["flags"]) for o in mtable)
    timpl = "flags:1 keys:1 nosep:1 | " + " | ".join(
        " ".join(enc(k) for k in o["keys"]) for o in mtable)
    compare(ctx, "get_possible_config_keys~possibleKeys + table hypotheses", [treq], [timpl], [{"table": [o["flags"] for o in table]}])
    by_flag = {o["flags"][0]: o for o in table}
    reqs: List[str] = []
    impl_parts: List[Dict[str, Any]] = []
    pay: List[Any] = []

    def record(files_present: List[str], cli: List[str], r: Dict[str, Any], label: Dict[str, Any]) -> None:
        items = parse_files_real(files_present)
        if items is None:
            ctx.count("merge:file-refused-by-parser(not a merge case)")
            return
        for its in items:
            for k, v in its:
                if not (isinstance(v, str) or (isinstance(v, list) and all(isinstance(x, str) for x in v))):
                    ctx.disagree("config parser output type", label, "str or list of str", f"{k} = {v!r}")
                    return
        reqs.append(merge_request(mtable, items, cli))
        impl_parts.append(r)
        pay.append(label)

    run_ns = sc.run

    for o in table:
        long = o["flags"][0]
        vals = values_for(o, ctx)
        for vi, v in enumerate(vals):
            for fi, (fname, header, fmt) in enumerate(FILES):
                native = (vi + fi) % 2 == 0
                label = {"option": long, "value": v, "file": fname}
                # -- file alone vs command line alone
                sc.clear()
                if o["kind"] == "append":
                    text = f"{header}\n{o['key']} = {file_list(fname, [v], 0)}\n"
                else:
                    text = f"{header}\n{o['key']} = {file_value(o['kind'], fname, v, native)}\n"
                sc.write(fname, text)
                rf = run_ns([])
                record([fname], [], rf, {**label, "case": "file"})
                cli = cli_for(o, v, vi + fi)
                ctx.count(f"option-kind:{o['kind']}")
                ctx.count(f"option-file:{fname}")
                sample = {"file": fname, "text": text, "cli": cli, "outcome": short(rf)} if len(ctx.samples) < 6 and vi == 1 and fi == 1 else None
                if cli is None:
                    ctx.case(f"opt {long} {enc(v)} {fname} no-cli", False, sample)
                    ctx.count("option:no-command-line-equivalent:" + rf["kind"])
                    if rf["kind"] == "raise":
                        ctx.count(f"observed:bad-{o['kind']}-value-escapes-as-{rf['cls']}")
                    continue
                sc.clear()
                rc = run_ns(cli)
                ctx.case(f"opt {long} {enc(v)} {fname} eq", False, sample)
                if outcome_key(rf) != outcome_key(rc):
                    sig = classify_option_failure(fname, fmt, text, [v], f"file-ne-cli:{o['kind']}:{fmt}")
                    ctx.fail(sig, {**label, "mode": "eq", "text": text, "cli": cli},
                             f"{long}: {fname} {text!r} -> {short(rf)}{diff_opts(rf, rc)}; command line {cli} -> {short(rc)}")
                # -- both: the command line (another value) must win
                others = [w for w in vals if w != v and cli_for(o, w, 0)]
                if others and rc["kind"] == "ok":
                    w = others[(vi + fi) % len(others)]
                    cli2 = cli_for(o, w, vi)
                    assert cli2 is not None
                    sc.write(fname, text)
                    rb = run_ns(cli2)
                    record([fname], cli2, rb, {**label, "case": "both", "cli": cli2})
                    sc.clear()
                    rc2 = run_ns(cli2)
                    ctx.case(f"opt {long} {enc(v)} {fname} over {enc(w)}", True, None)
                    ctx.count("option:file+cli")
                    if rf["kind"] == "ok" and outcome_key(rb) != outcome_key(rc2):
                        ctx.fail(classify_option_failure(fname, fmt, text, [v], f"cli-does-not-override:{o['kind']}"), {**label, "mode": "override", "text": text, "cli": cli2},
                                 f"{long}: file {text!r} + command line {cli2} -> {short(rb)}{diff_opts(rb, rc2)}; command line alone -> {short(rc2)}")
        # -- append: several values, order; unknown key
        if o["kind"] == "append":
            good = [v for v in vals if run_quiet(sc, cli_for(o, v, 0))]
            for fi, (fname, header, fmt) in enumerate(FILES):
                for rep in range(2 if ctx.quick else 6):
                    k = ctx.rng.randint(2, 4)
                    vs = [ctx.rng.choice(good) for _ in range(k)] if good else []
                    if len(vs) < 2:
                        continue
                    sc.clear()
                    style = rep % 3 if rep >= 2 else rep % 2
                    text = f"{header}\n{o['key']} = {file_list(fname, vs, style)}\n"
                    sc.write(fname, text)
                    rf = run_ns([])
                    record([fname], [], rf, {"option": long, "values": vs, "file": fname, "case": "append-file"})
                    cli = [a for i, v in enumerate(vs) for a in (cli_for(o, v, i) or [])]
                    sc.clear()
                    rc = run_ns(cli)
                    record([], cli, rc, {"option": long, "values": vs, "case": "append-cli"})
                    ctx.case(f"append {long} {fname} {enc('|'.join(vs))}", True, None)
                    ctx.count("option:append>=2")
                    if outcome_key(rf) != outcome_key(rc):
                        sig = classify_option_failure(fname, fmt, text, vs, SIG_ML_QUOTES if (style == 2 and fmt == "ini" and "\n    \"" in text) else f"append-order:{fmt}")
                        ctx.fail(sig, {"option": long, "values": vs, "file": fname, "mode": "eq", "text": text, "cli": cli},
                                 f"{long}: {fname} {text!r} -> {short(rf)}{diff_opts(rf, rc)}; command line {cli} -> {short(rc)}")
                    elif rf["kind"] == "ok":
                        got = getattr(rf["options"], o["dest"] if o["dest"] != "packages" else "sourcepath")
                        if len(got) != len(vs):
                            ctx.fail("append-lost-items", {"option": long, "values": vs, "file": fname}, f"{long}: {len(vs)} values written, {len(got)} read")
                    # file + command line: the command line's list replaces the file's (no accumulation across sources)
                    sc.write(fname, text)
                    extra = cli_for(o, ctx.rng.choice(good), 0) or []
                    rb = run_ns(extra)
                    record([fname], extra, rb, {"option": long, "values": vs, "file": fname, "cli": extra, "case": "append-both"})
                    sc.clear()
                    rc2 = run_ns(extra)
                    if outcome_key(rb) != outcome_key(rc2):
                        ctx.fail(classify_option_failure(fname, fmt, text, vs, "cli-does-not-override:append"), {"option": long, "values": vs, "file": fname, "mode": "override", "text": text, "cli": extra},
                                 f"{long}: file list {vs} + command line {extra} -> differs from the command line alone{diff_opts(rb, rc2)}")
    # -- unknown keys: warned once each, not applied, no abort
    free = [t for t in table if t["kind"] == "store" and not t["choices"] and t["type"] is None and t["flags"][0] not in CLASSES]
    for fname, header, fmt in FILES:
        # deterministic near misses of real options: `_` for `-` and another case, in every file format; then random other keys
        near: List[Tuple[str, str]] = []
        for o in table:
            if "-" in o["key"] and o["flags"][0] in ("--project-name", "--html-output", "--make-html", "--project-base-dir",
                                                     "--intersphinx-cache-path", "--warnings-as-errors", "--html-viewsource-base"):
                near.append((o["key"].replace("-", "_"), "true" if o["kind"] == "flag" else "zzz"))
                near.append((o["key"].replace("-", "_", 1) if o["key"].count("-") > 1 else o["key"].replace("-", "__"), "true" if o["kind"] == "flag" else "zzz"))
                # another case: unknown in every format since commit c9fb39f (configparser no longer lower-cases INI keys)
                near.append((o["key"].title(), "true" if o["kind"] == "flag" else "zzz"))
                near.append((o["key"].upper(), "true" if o["kind"] == "flag" else "zzz"))
        near = [(k, v) for k, v in dict(near).items() if k not in {kk for t in table for kk in t["keys"]}]
        cases: List[Tuple[str, str]] = near + [("", "zzz")] * (6 if ctx.quick else 40)
        for rep, (uk, ukval) in enumerate(cases):
            if not uk:
                uk = ctx.rng.choice(["nosuch", "project_name", "projectname", "Project-Name", "no-such-opt", "verbos", "html-outputs", "-project-name", "x.y"]
                                    + ([] if fmt == "toml" else ["a.b", "a b", "'q", "k[0]", ".", "{k}", "1", "a..b"]))
            else:
                ctx.count("option:unknown-key:near-miss(_ or case)")
            o = free[rep % len(free)] if rep < len(near) else ctx.rng.choice(free)
            if o["key"].replace("-", "_") == uk.lower().replace("-", "_"):
                o = free[(rep + 1) % len(free)]
            v = ctx.rng.choice(["x", "val ue", "7"])
            before = ctx.rng.random() < 0.5 if rep >= len(near) else rep % 2 == 0
            ukv = (ukval if ukval == "true" else toml_basic(ukval)) if fmt == "toml" else ukval
            ukline = f"{toml_key(uk) if fmt == 'toml' else uk} = {ukv}\n"
            okline = f"{o['key']} = {toml_basic(v) if fmt == 'toml' else v}\n"
            sc.clear()
            uktext = header + "\n" + (ukline + okline if before else okline + ukline)
            ukin = {"mode": "unknown", "file": fname, "key": uk, "text": uktext, "text_without": header + "\n" + okline}
            sc.write(fname, uktext)
            r1 = run_ns([])
            record([fname], [], r1, {"unknown": uk, "file": fname, "case": "unknown-key"})
            sc.clear()
            sc.write(fname, header + "\n" + okline)
            r0 = run_ns([])
            ctx.case(f"unknown {fname} {uk} {o['key']}", False, None)
            ctx.count("option:unknown-key")
            want_warn = [f"No such config option: {uk!r}"]
            if r1["kind"] != "ok":
                ctx.fail("unknown-key:aborts", ukin, f"{fname}: unknown key {uk!r} -> {short(r1)}")
            elif r1["warnings"] != want_warn:
                ctx.fail("unknown-key:not-warned-once", ukin, f"{fname}: unknown key {uk!r}: warnings {r1['warnings']}")
            elif outcome_key(r1) != outcome_key(r0):
                ctx.fail("unknown-key:applied", ukin, f"{fname}: unknown key {uk!r} changed the options{diff_opts(r1, r0)}")
    # -- the key of the config-file option: an unknown key since commit 6190835 (warned about, dropped) (hunt/C20/1)
    for fname, header, fmt in FILES:
        sc.clear()
        sc.write(fname, f"{header}\nconfig = {toml_basic('extra.ini') if fmt == 'toml' else 'extra.ini'}\nproject-name = {toml_basic('x') if fmt == 'toml' else 'x'}\n")
        r = run_ns([])
        record([fname], [], r, {"file": fname, "case": "config-key"})
        ctx.case(f"merge config key {fname}", True, None)
    # -- several files at once and a command line (model: reversed(config_streams), insertion before the first option)
    stores = [t for t in table if t["kind"] == "store" and not t["choices"] and t["type"] is None and t["flags"][0] not in CLASSES]
    appends = [t for t in table if t["kind"] == "append" and t["flags"][0] in ("--intersphinx", "--html-subject")]
    for rep in range(40 if ctx.quick else 600):
        sc.clear()
        present = []
        for fname, header, fmt in FILES:
            if ctx.rng.random() < 0.65:
                lines = []
                for o in ctx.rng.sample(stores, 2) + ctx.rng.sample(appends, 1) + [by_flag["--verbose"], by_flag["--warnings-as-errors"]]:
                    if ctx.rng.random() < 0.6:
                        if o["kind"] == "append":
                            lines.append(f"{o['key']} = {file_list(fname, [fname[:3] + str(i) for i in range(ctx.rng.randint(1, 3))], 0)}")
                        elif o["kind"] == "count":
                            lines.append(f"{o['key']} = {ctx.rng.choice(['0', '1', '2'])}")
                        elif o["kind"] == "flag":
                            lines.append(f"{o['key']} = {ctx.rng.choice(['true', 'false'])}")
                        else:
                            lines.append(f"{o['key']} = {toml_basic(fname[:3]) if fmt == 'toml' else fname[:3]}")
                if ctx.rng.random() < 0.3:
                    lines.append(f"nosuch{rep % 3} = {toml_basic('u') if fmt == 'toml' else 'u'}")
                sc.write(fname, header + "\n" + "\n".join(lines) + "\n")
                present.append(fname)
        cli: List[str] = []
        if ctx.rng.random() < 0.5:
            cli.append("sub")
        # an explicit --config file: opened after the default ones, so read FIRST in reversed(config_streams): it wins
        explicit = rep % 3 == 0
        if explicit:
            lines = [f"{o['key']} = extra" for o in ctx.rng.sample(stores, 2)] + ["verbose = 1"] * (rep % 2) + ["intersphinx = [\"extra\"]"] * (rep % 4 == 0)
            sc.write("extra.conf", "[pydoctor]\n" + "\n".join(lines) + "\n")
            cli.append("--config=extra.conf")
            present.append("extra.conf")
        for o in ctx.rng.sample(stores, 1) + ctx.rng.sample(appends, 1) + [by_flag["--verbose"], by_flag["--warnings-as-errors"]]:
            if ctx.rng.random() < 0.5:
                c = cli_for(o, "2" if o["kind"] == "count" else "true" if o["kind"] == "flag" else "cli", rep)
                cli += c or []
        if ctx.rng.random() < 0.2:
            cli += ["--", "sub/x"]
        r = run_ns(cli)
        record(present, cli, r, {"files": present, "cli": cli, "case": "multi"})
        if explicit:
            os.remove("extra.conf")
            ctx.count("option:multi-file:with---config")
        ctx.case("multi " + " ".join(present) + " | " + " ".join(cli), bool(present) and bool(cli), None)
        ctx.count(f"option:multi-file:{len(present)}")
    # -- model comparison of everything recorded
    outs = model(ctx, reqs)
    impls = []
    for m, r in zip(outs, impl_parts):
        impls.append(impl_line(m, r, mtable, ctx))
    compare(ctx, "configargparse merge~mergeFiles/effective", reqs, impls, pay)
    # -- abbreviations / `--` (direct oracle only; outside the model)
    for fname, header, fmt in FILES:
        name_text = f"{header}\nproject-name = {toml_basic('F') if fmt == 'toml' else 'F'}\n"
        priv_text = f"{header}\nprivacy = [\"PUBLIC:f\"]\n"
        for abtext, cli in ((name_text, ["--project-n=C"]), (name_text, ["--project-n=C", "--", "sub"]), (priv_text, ["--priv=HIDDEN:c"])):
            sc.clear()
            sc.write(fname, abtext)
            rb = sc.run(cli)
            sc.clear()
            rc = sc.run(cli)
            ctx.count("probe:cli-abbreviation")
            ctx.case(f"abbrev {fname} {' '.join(cli)}", True, None)
            # (a parser that refuses abbreviations leaves nothing to override: not a failure)
            if rb["kind"] == "ok" and outcome_key(rb) != outcome_key(rc):
                ctx.fail(SIG_ABBREV, {"mode": "override", "file": fname, "text": abtext, "cli": cli},
                         f"{fname} {abtext!r} + command line {cli} differs from the command line alone{diff_opts(rb, rc)}")


# ------------------------------------------------------------------ stream (c'): unquoted INI values of every shape
#
# An INI file is first handed to the `toml` package (CompositeConfigParser tries TOML, then INI).  That package is
# sloppy: on many texts that are not TOML it raises something else than TomlDecodeError (IndexError in its inline
# table / array / key code, UnboundLocalError …).  pydoctor must still fall back to the INI parser.  The corpus of
# such texts is found at run time by scanning a grammar of unquoted value shapes with the installed package.

SHAPE_STARTS = ["{", "{a}", "{a}=", "{a}?b=1", "{=", "{a=", "{a=1", "{a=1}", "{}", "[", "[[", "[a", "[[a]", "[1,", '["a",', "['\\',",
                "1a", "1-", "1:", "1.2.3", "2024-01-01T", "2024-01-01 x", "2024-01-01T10:00", "+", "-", "+1x", "-x", "0x", "0xZZ",
                "0o9", "0b2", "inf", "infx", "+inf", "nan", "nanx", "true", "truex", "falsey", "'", '"', "'a", '"a', "a\\", "\\",
                "9" * 40, "1e", "1e+", "1_", "_1", ".5", "5.", "1..2", "a.b", "a b", 'a"b', "a'b", "@", "*", "&", "!", "|", ">",
                "=", "==", ",", "a,b", "()", "<x>", "$x", "~", "`", "'" * 3, '"' * 3, '"a" b', "'a' b", "1 2", "1=2", "x=y", "a # b"]
SHAPE_SUFFIXES = ["", "x", "=1", "?plain=1#L{lineno}", " b", "}", "]", '"', "'", "\\", ".", ":", "-", "T", ",", " = "]
SHAPE_EXTRA = ["{mod_source_href}?plain=1#L{lineno}", "{mod_source_href}#n{lineno}", "{mod_source_href}#L{lineno}",
               "https://h/p?a=1&b={x}", "{a}={b}", "v1.2.3-rc1", "2024-01-01T10:00:00Z", "1979-05-27", "0x10", "1_000", "+inf", "true",
               "True", "3.14", "C:\\dir\\", "a = b", "k: v", "~/x", "*.py", "$HOME", "a;b", "#frag", "[x", "x]", "(x)"]
# several lines (one item per line): append options
SHAPE_MULTILINE = ['[' + '"' * 3 + ']\n\'=' + '"' * 3, "['\\', \"z\"]\nx", "{a}=1\n{b}=2", "a\n{b}=", "{\n}", "[[\n]]x"]
SECTION_SPELLINGS = ["[pydoctor]", "[tool.pydoctor]", "[tool:pydoctor]"]


def toml_outcome(text: str) -> str:
    """what the installed toml package makes of a file text: ok | TomlDecodeError | <other exception class>"""
    import toml
    try:
        toml.loads(text)
        return "ok"
    except toml.TomlDecodeError:
        return "TomlDecodeError"
    except Exception as e:   # noqa: BLE001 - the class is the datum
        return type(e).__name__


def ini_plain_ok(v: str, multiline: bool = False) -> bool:
    """an unquoted INI value that means itself (so that `--opt=v` is its command-line equivalent)"""
    if not v or v != v.strip() or (v[0] == "[" and v[-1] == "]") or (v[0] in "\"'" and v[-1] == v[0] and len(v) >= 2):
        return False
    if "\n" in v:
        return multiline and all(l and l == l.strip() and l[0] not in "#;" for l in v.split("\n"))
    return True


def scan_shapes() -> Tuple[List[str], List[str], Dict[str, int]]:
    """(values on which toml raises something else than TomlDecodeError, the other values, exception class -> count)"""
    vals = list(dict.fromkeys([a + b for a in SHAPE_STARTS for b in SHAPE_SUFFIXES] + SHAPE_EXTRA))
    vals = [v for v in vals if ini_plain_ok(v)] + [v for v in SHAPE_MULTILINE if ini_plain_ok(v, True)]
    bad: List[str] = []
    rest: List[str] = []
    classes: Dict[str, int] = {}
    for v in vals:
        outs = {toml_outcome(f"{h}\nproject-name = {ini_embed(v)}\n") for h in SECTION_SPELLINGS[:2]}
        odd = sorted(o for o in outs if o not in ("ok", "TomlDecodeError"))
        if odd:
            bad.append(v)
            for o in odd:
                classes[o] = classes.get(o, 0) + 1
        else:
            rest.append(v)
    return bad, rest, classes


def stream_unquoted_ini(ctx: Ctx, sc: Scratch) -> None:
    table = live_table()
    bad, rest, classes = scan_shapes()
    strs = [o for o in table if o["kind"] == "store" and not o["choices"] and o["type"] is None and o["flags"][0] not in CLASSES]
    apps = [o for o in table if o["kind"] == "append" and o["flags"][0] in ("--intersphinx", "--html-subject")]
    ctx.rng.shuffle(rest)
    singles = [v for v in bad if "\n" not in v]
    multis = [v for v in bad + rest if "\n" in v]
    if ctx.quick:
        singles = singles[::max(1, len(singles) // 30)]
        others = [v for v in rest if "\n" not in v][:15]
    else:
        others = [v for v in rest if "\n" not in v][:150]
    must = [v for v in SHAPE_EXTRA[:3] if v not in singles]
    # pydoctor.conf is given through --config: no *.ini / *.cfg extension, so CompositeConfigParser still tries TOML first
    combos = [(f, h, pos) for f in ("setup.cfg", "pydoctor.ini", "pydoctor.conf") for h in SECTION_SPELLINGS for pos in ("first", "later")]
    info: Dict[str, Any] = {
        "shapes_scanned": len(bad) + len(rest), "values_where_toml_raises_non_TomlDecodeError": len(bad),
        "distinct_exception_types": len(classes), "exception_types": classes, "used_single_line": len(singles) + len(must) + len(others),
        "used_multi_line": len(multis), "string_options": len(strs), "append_options": len(apps)}
    ctx.extra["unquoted_ini_corpus"] = info
    n_odd_files = 0
    k = 0
    cli_cache: Dict[Tuple[str, str], Dict[str, Any]] = {}
    for o in strs + apps:
        long = o["flags"][0]
        vals = [(v, False) for v in must + singles + others] + ([(v, True) for v in multis] if o["kind"] == "append" else [])
        for v, ml in vals:
            everywhere = (v in must and long in ("--html-viewsource-template", "--project-name")) or (not ctx.quick and v in bad)
            mine = combos if everywhere else [combos[k % len(combos)]]
            k += 1
            for fname, header, pos in mine:
                # (several lines: the first item on the key's line or on its own line — the same value for configparser)
                body = f"{o['key']} = " + ((("\n    " if k % 2 else "") + ini_embed(v)) if ml else v) + "\n"
                text = header + "\n" + (body + "verbose = 1\n" if pos == "first" else "verbose = 1\nquiet = 0\n" + body)
                cli = ["--verbose"] + ([f"{long}={l}" for l in v.split("\n")] if ml else [f"{long}={v}"])
                tout = toml_outcome(text)
                odd = tout not in ("ok", "TomlDecodeError")
                n_odd_files += odd
                sc.clear()
                sc.write(fname, text)
                rf = sc.run([] if fname != "pydoctor.conf" else ["--config=pydoctor.conf"])
                key = (long, v)
                if key not in cli_cache:
                    sc.clear()
                    cli_cache[key] = sc.run(cli)
                rc = cli_cache[key]
                ctx.case(f"unquoted {fname} {header} {pos} {long} {enc(v)}", nontrivial_str(v),
                         {"file": fname, "text": text, "cli": cli, "toml.loads": tout, "outcome": short(rf)}
                         if odd and len(ctx.samples) < 6 and k % 7 == 0 else None)
                ctx.count("unquoted-ini:toml-" + ("raises-" + tout if odd else tout))
                ctx.count(f"unquoted-ini:{fname}:{header}:{pos}")
                if outcome_key(rf) == outcome_key(rc):
                    continue
                inp = {"option": long, "value": v, "file": fname, "mode": "eq", "text": text, "cli": cli}
                if rf["kind"] == "raise" and rc["kind"] == "ok":
                    ctx.fail(SIG_CRASH, inp, f"{fname} {text!r}: Options.from_args raised {rf['cls']}: {rf['msg']} (toml.loads: {tout}); "
                                             f"the command line {cli} is accepted")
                else:
                    ctx.fail(classify_option_failure(fname, "ini", text, v.split("\n"), "unquoted-ini:file-ne-cli"), inp,
                             f"{long}: {fname} {text!r} -> {short(rf)}{diff_opts(rf, rc)}; command line {cli} -> {short(rc)}")
    info["files_on_which_toml_raised_non_TomlDecodeError"] = n_odd_files
    if not bad:
        ctx.notes.append("the installed toml package raised nothing but TomlDecodeError on the shape grammar: the unquoted-INI stream "
                         "exercises the fall-back to the INI parser only through TomlDecodeError")


def classify_option_failure(fname: str, fmt: str, text: str, values: Sequence[str], default: str) -> str:
    """coarse cause of a file/command-line divergence in the option streams"""
    from pydoctor.options import PydoctorConfigParser
    if fmt == "ini" and percent_cause(text, values):
        return SIG_PERCENT
    if fmt == "ini":
        try:
            composite: Any = dict(PydoctorConfigParser.parse(_named(io.StringIO(text), fname)))
        except Exception as e:
            composite = type(e).__name__
        kind, res = ini_parse_real(text, True)
        if kind == "ok" and dict(res) != composite:
            # the INI parser alone reads something else than the composite (TOML first unless the name ends in .ini/.cfg)
            return SIG_INI_AS_TOML if fname.endswith((".ini", ".cfg")) else SIG_CONF_AS_TOML
    if fname == "pyproject.toml" and any(v.startswith('"') for v in values):
        return SIG_TOML_LIB
    return default


def toml_key(k: str) -> str:
    return k if all(c.isalnum() or c in "-_" for c in k) else toml_basic(k)


def run_quiet(sc: Scratch, cli: Optional[List[str]]) -> bool:
    if cli is None:
        return False
    sc.clear()
    return sc.run(cli)["kind"] == "ok"


def diff_opts(a: Dict[str, Any], b: Dict[str, Any]) -> str:
    if a["kind"] != "ok" or b["kind"] != "ok":
        return ""
    da, db = opt_dict(a["options"]), opt_dict(b["options"])
    d = [f"{k}: {da[k]!r} vs {db[k]!r}" for k in da if repr(da[k]) != repr(db[k])]
    return " [" + "; ".join(d)[:300] + "]"


def impl_line(model_out: str, r: Dict[str, Any], table: List[Dict[str, Any]], ctx: Ctx) -> str:
    """the real run in the model's output format; the per-option effect is checked token by token against the namespace"""
    warn = sect("warn", [enc(ast.literal_eval(w[len("No such config option: "):])) for w in r["warnings"]])
    if r["argv"] is None:
        # configargparse stopped before handing over to argparse
        msg = r.get("msg", "")
        kind = ("badValue" if "Invalid value for config option" in msg else "badBool" if "Unexpected value for" in msg else "listToStore" if "can't be set to a list" in msg else
                "assertion" if r.get("cls") == "AssertionError" else "intValueError" if r.get("cls") == "ValueError" else "?" + short(r)[:60])
        return f"error:{kind} | {warn}"
    head = sect("ok argv", [enc(a) for a in canon_args(table, r["argv"])]) + " | " + warn
    m_eff = model_out.split(" | eff ")[1].split() if " | eff " in model_out else []
    if "ns" not in r:
        ctx.count("merge:effect-unchecked(argparse refused the values)")
        return head + " | " + sect("eff", m_eff)
    toks = []
    for tok, o in zip(m_eff, table):
        if o.get("special"):
            toks.append(tok)        # help / version / config: no namespace value to compare
            continue
        toks.append(tok if eff_check(tok, o, r["ns"].get(o["dest"])) else f"MISMATCH({o['flags'][0]}={r['ns'].get(o['dest'])!r})")
    return head + " | " + sect("eff", toks)


# ------------------------------------------------------------------ round 3: section names, TOML lookup, composite, from_namespace

def stream_sections_and_toml_lookup(ctx: Ctx) -> None:
    import toml
    from pydoctor._configparser import parse_toml_section_name, TomlConfigParser
    from pydoctor.options import CONFIG_SECTIONS
    # parse_toml_section_name ~ parseSectionName
    names = list(CONFIG_SECTIONS) + ["a.b.c", " d.e.f ", " g .  h  . i ", ' j . "k" . \'l\' ', '"a.b".c', "", ".", "a.", ".a", '"', '""', '"a"b.c',
                                      '"a""b".c', "'a.b'.c", "a:b", '"a', "a\\.b", "'''x'''.y"]
    pool = ["a", "b", ".", '"', "'", " ", ":", "\\", "\t"]
    for _ in range(1500 if ctx.quick else 15000):
        names.append("".join(ctx.rng.choice(pool) for _ in range(ctx.rng.randint(0, 7))))
    names = list(dict.fromkeys(names))
    reqs, impl = [], []
    for n in names:
        try:
            out = sect("ok", [enc(p) for p in parse_toml_section_name(n)])
        except ValueError:
            out = "unmodelled"       # unquote_str refused a part (the model has one outcome for "no list of parts")
        reqs.append("config section " + enc(n))
        impl.append(out)
        ctx.case("section " + enc(n), any(c in n for c in "\"'. "), None)
        ctx.count("section-name:" + out.split()[0])
    compare(ctx, "parse_toml_section_name~parseSectionName", reqs, impl, names)
    # TomlConfigParser.parse (get_toml_section, first non-empty section, str()) ~ tomlParse, on the document toml.loads returns
    paths = [parse_toml_section_name(s) for s in CONFIG_SECTIONS]

    def node(v: Any) -> str:
        if isinstance(v, dict):
            return f"T {len(v)} " + " ".join(enc(k) + " " + node(x) for k, x in v.items()) if v else "T 0"
        if isinstance(v, bool):
            return "B 1" if v else "B 0"
        if isinstance(v, int):
            return f"I {v}"
        if isinstance(v, str):
            return "S " + enc(v)
        if isinstance(v, list):
            if all(isinstance(x, (str, int)) for x in v):
                return sect(f"L {len(v)}", [("b:1" if x is True else "b:0" if x is False else f"i:{x}" if isinstance(x, int) else "s:" + enc(x)) for x in v])
            return f"LX {len(v)}"
        return "O"

    def rand_val(depth: int = 0) -> Any:
        r = ctx.rng.random()
        if r < 0.3:
            return ctx.rng.choice(["", "x", "a b", "True", "0"])
        if r < 0.45:
            return ctx.rng.choice([0, 1, -3, 42])
        if r < 0.6:
            return ctx.rng.choice([True, False])
        if r < 0.75:
            return ctx.rng.choice([[], ["a"], ["a", "b c"], [1, 2], [True], [["n"]], [{"t": 1}]])
        if r < 0.78:
            return 1.5
        if r < 0.93:
            return ctx.rng.choice(["HIDDEN:a.b", "é", "#x", "a=b", "[x]", "'q'"])
        return {ctx.rng.choice(["k", "project-name", "verbose"]): rand_val(depth + 1) for _ in range(ctx.rng.randint(0, 2))} if depth < 2 else "deep"

    def rand_section() -> Any:
        r = ctx.rng.random()
        if r < 0.15:
            return {}
        if r < 0.3:
            return ctx.rng.choice(["x", 0, 1, True, False, [], ["l"], ""])
        return {k: rand_val() for k in ctx.rng.sample(["project-name", "verbose", "privacy", "warnings-as-errors", "k", "pyval-repr-maxlines"], ctx.rng.randint(1, 4))}

    docs: List[Dict[str, Any]] = [
        {"tool": {"pydoctor": {"project-name": "P", "verbose": 0, "warnings-as-errors": True, "privacy": ["HIDDEN:a"]}}},
        {"tool": "x"}, {"tool": {"pydoctor": "x"}}, {"tool": {"pydoctor": {}}, "pydoctor": {"project-name": "second"}},
        {"tool": {}, "tool:pydoctor": {"k": "v"}}, {"pydoctor": {"pyval-repr-maxlines": 0, "sidebar-toc-depth": 0}}, {},
        {"tool": {"poetry": {"name": "x"}}, "pydoctor": 0}, {"tool": 0, "pydoctor": {"k": "v"}}, {"tool": ["l"], "pydoctor": {"k": "v"}},
    ]
    for _ in range(400 if ctx.quick else 5000):
        d: Dict[str, Any] = {}
        if ctx.rng.random() < 0.3:
            d["build-system"] = {"requires": ["setuptools"]}
        if ctx.rng.random() < 0.7:
            t = ctx.rng.random()
            d["tool"] = ({"pydoctor": rand_section(), **({"other": {"x": 1}} if ctx.rng.random() < 0.4 else {})} if t < 0.75 else
                         {"other": {"x": 1}} if t < 0.85 else ctx.rng.choice(["x", 0, 1, [], ["a"], {}]))
        if ctx.rng.random() < 0.4:
            d["tool:pydoctor"] = rand_section()
        if ctx.rng.random() < 0.5:
            d["pydoctor"] = rand_section()
        docs.append(d)
    reqs, impl, pay = [], [], []
    for d in docs:
        try:
            text = toml.dumps(d)
            doc = toml.loads(text)
        except Exception:
            ctx.count("toml-doc:not-dumpable")
            continue
        try:
            res = TomlConfigParser(CONFIG_SECTIONS).parse(io.StringIO(text))
            out = sect("ok", [enc(k) + " " + ("l:" + ",".join(enc(x) for x in v) if isinstance(v, list) else "s:" + enc(v)) for k, v in res.items()])
        except AttributeError:
            out = "AttributeError"
        except Exception as e:  # noqa: BLE001
            out = "RAISE:" + type(e).__name__
        reqs.append(f"config tomlparse {len(paths)} " + " ".join(f"{len(p)} " + " ".join(enc(x) for x in p) for p in paths) + " " + node(doc))
        impl.append(out)
        pay.append({"toml": text})
        ctx.case("tomlparse " + text, len(doc) > 1, None)
    outs = model(ctx, reqs)
    for i, m in enumerate(outs):
        if m == "unmodelled":
            ctx.count("toml-doc:unmodelled(str() of float/nested value)")
            impl[i] = "unmodelled"
        else:
            ctx.count("toml-doc:" + impl[i].split()[0])
    compare(ctx, "TomlConfigParser.parse(document)~tomlParse", [" ".join(r.split()) for r in reqs], impl, pay)


def stream_composite(ctx: Ctx) -> None:
    """the real CompositeConfigParser class over stub parsers (subclasses of the real ones, so that isinstance decides as
    in production) ~ compositeParse; then the real PydoctorConfigParser on files that both parsers accept differently"""
    from pydoctor._configparser import CompositeConfigParser, TomlConfigParser, IniConfigParser
    from pydoctor.options import PydoctorConfigParser
    from configargparse import ConfigFileParserException
    log: List[str] = []
    refusal: List[Any] = [ValueError]

    def stub(base: Any, tag: str, ok: bool) -> Any:
        class S(base):   # type: ignore[misc,valid-type]
            def __init__(self) -> None:
                pass

            def parse(self, stream: Any) -> Any:
                log.append(tag)
                if not ok:
                    # real parsers refuse with ConfigFileParserException, the libraries under them with anything
                    raise refusal[0]("stub refuses")
                return {"who": "toml" if tag == "t" else "ini"}
        return S()

    names: List[Any] = [None, 3, "x.ini", "setup.cfg", "./pydoctor.ini", "pyproject.toml", "a.toml", "ini", ".ini", ".cfg", "X.INI", "setup.cfg.bak",
                        "pydoctor.conf", "", "cfg", "a.inix", "dir.ini/file", "<stdin>"]
    reqs, impl = [], []
    for kinds in ("ti", "it", "t", "i", "tit", "iti", ""):
        for tok in (True, False):
            for iok in (True, False):
                for nm in names:
                    log.clear()
                    refusal[0] = [ValueError, ConfigFileParserException, IndexError, KeyError][len(reqs) % 4]
                    comp = CompositeConfigParser([(lambda p=stub(TomlConfigParser if k == "t" else IniConfigParser, k, tok if k == "t" else iok): p) for k in kinds])
                    st = io.StringIO("x")
                    if nm is not None:
                        st.name = nm   # type: ignore[attr-defined]
                    try:
                        who = comp.parse(st)["who"]
                    except ConfigFileParserException:
                        who = "error"
                    except Exception as e:   # noqa: BLE001 - a refusal that escapes the composite parser
                        who = "raise:" + type(e).__name__
                    reqs.append(f"config composite {'-' if not isinstance(nm, str) else enc(nm)} {int(tok)} {int(iok)} {kinds or '-'}")
                    impl.append(f"{who} | tried {''.join(log)}")
                    ctx.case(reqs[-1], isinstance(nm, str) and tok and iok and len(kinds) > 1, None)
                    ctx.count("composite:" + who)
    compare(ctx, "CompositeConfigParser.parse~compositeParse", [" ".join(r.split()) for r in reqs], [" ".join(x.split()) for x in impl], None)
    # direct oracle: the production parser on a text both syntaxes accept with different meanings
    text = "[pydoctor]\nproject-name = 'a\\\\b'\n"
    for nm, want in (("pydoctor.ini", "a\\b"), ("setup.cfg", "a\\b"), ("pyproject.toml", "a\\\\b")):
        got = PydoctorConfigParser.parse(_named(io.StringIO(text), nm)).get("project-name")
        ctx.count("composite:production-parser")
        if got != want:
            ctx.fail(SIG_INI_AS_TOML if nm != "pyproject.toml" else "toml-file-read-as-ini", {"file": nm, "form": "1s", "s": "a\\b", "written": "'a\\\\b'"},
                     f"{nm}: {text!r} read as {got!r}, the {'INI' if nm != 'pyproject.toml' else 'TOML'} rules say {want!r}")


def stream_from_namespace(ctx: Ctx, sc: Scratch) -> None:
    from pydoctor import options as O
    reqs, impl = [], []
    sc.clear()
    # --make-html default
    for g in (0, 1):
        for t in (0, 1):
            for m in (0, 1):
                cli = (["--make-html"] if g else []) + (["--testing"] if t else []) + (["--make-intersphinx"] if m else [])
                r = sc.run(cli)
                reqs.append(f"config makehtml {g} {t} {m}")
                impl.append(str(r["options"].makehtml) if r["kind"] == "ok" else short(r))
                # the same from a file
                sc.write("setup.cfg", "[tool:pydoctor]\n" + ("make-html = true\n" if g else "") + ("testing = yes\n" if t else "") + ("make-intersphinx = 1\n" if m else ""))
                rf = sc.run([])
                sc.clear()
                ctx.case(reqs[-1], bool(g or t or m), None)
                if outcome_key(rf) != outcome_key(r):
                    ctx.fail("file-ne-cli:flag:ini", {"mode": "eq", "file": "setup.cfg", "text": "make-html/testing/make-intersphinx", "cli": cli},
                             f"make-html={g} testing={t} make-intersphinx={m}: file and command line differ{diff_opts(rf, r)}")
    # view-source template detection
    bases = [None, "", "https://github.com/twisted/pydoctor/tree/master", "https://sourceforge.net/p/x/code/HEAD/tree", "http://sourceforge.net/x",
             "https://bitbucket.org/u/r/src/master", "http://bitbucket.org/", "https://sourceforge.net", "https://sourceforge.netx/", " https://bitbucket.org/x",
             "HTTPS://BITBUCKET.ORG/x", "httpss://bitbucket.org/", "ftp://sourceforge.net/", "https://gitlab.com/a/b", "x", "https://bitbucket.org", "http://sourceforge.net/\nx"]
    for b in bases:
        reqs.append(f"config template - {'-' if b is None else enc(b)}")
        impl.append(enc(O._get_viewsource_template(b)))
        for ex in (None, "{mod_source_href}#n{lineno}", ""):
            cli = ([f"--html-viewsource-base={b}"] if b is not None else []) + ([f"--html-viewsource-template={ex}"] if ex is not None else [])
            r = sc.run(cli)
            reqs.append(f"config template {'-' if ex is None else enc(ex)} {'-' if b is None else enc(b)}")
            impl.append(enc(r["options"].htmlsourcetemplate) if r["kind"] == "ok" else short(r))
            ctx.case(reqs[-1], b is not None, None)
    # verbosity
    for a in range(4):
        for q in range(4):
            r = sc.run(["-v"] * a + ["--quiet"] * q)
            reqs.append(f"config verbosity {a} {q}")
            impl.append(str(r["options"].verbosity) if r["kind"] == "ok" else short(r))
            sc.write("pydoctor.ini", f"[pydoctor]\nverbose = {a}\nquiet = {q}\n")
            rf = sc.run([])
            sc.clear()
            ctx.case(reqs[-1], a > 0 and q > 0, None)
            if outcome_key(rf) != outcome_key(r):
                ctx.fail("file-ne-cli:count:ini", {"mode": "eq", "file": "pydoctor.ini", "text": f"[pydoctor]\nverbose = {a}\nquiet = {q}\n", "cli": ["-v"] * a + ["--quiet"] * q},
                         f"verbose={a} quiet={q}: file and command line differ{diff_opts(rf, r)}")
    # sidebar depth checks
    for e in (-1, 0, 1, 2, 5):
        for t in (-2, -1, 0, 1, 6):
            r = sc.run([f"--sidebar-expand-depth={e}", f"--sidebar-toc-depth={t}"])
            reqs.append(f"config sidebar {e} {t}")
            impl.append("ok" if r["kind"] == "ok" else "error" if r["kind"] == "exit" else short(r))
            ctx.case(reqs[-1], e < 1 or t < 0, None)
    compare(ctx, "Options.from_namespace/__attrs_post_init__~makeHtml/sourceTemplate/verbosity/sidebarOk", reqs, impl, None)
    # sourcepath: positionals, then --add-package entries, in order (finalSourcepath)
    for pos, pkgs in ((["sub"], ["sub/x"]), ([], ["sub/x", "sub"]), (["sub/x", "sub"], []), (["sub"], ["sub", "sub/x"])):
        r = sc.run(pos + [f"--add-package={p}" for p in pkgs])
        sc.write("pyproject.toml", "[tool.pydoctor]\nadd-package = [" + ", ".join(toml_basic(p) for p in pkgs) + "]\n")
        rf = sc.run(pos)
        sc.clear()
        want = [os.path.realpath(p) for p in pos + pkgs]
        ctx.count("from_namespace:sourcepath")
        ctx.case("sourcepath " + " ".join(pos) + " | " + " ".join(pkgs), bool(pos and pkgs), None)
        for rr, how in ((r, "command line"), (rf, "pyproject.toml")):
            got = [str(p) for p in rr["options"].sourcepath] if rr["kind"] == "ok" else None
            if got != want:
                ctx.fail("sourcepath-order", {"pos": pos, "pkgs": pkgs}, f"sourcepath from {how}: {got} != positionals then packages {want}")


def stream_corpus(ctx: Ctx, sc: Scratch) -> None:
    """runs FIRST: the input of every recorded finding (open ones must still fail with their signature, fixed ones must pass)
    and the shape every seeded change needs — detection of these never depends on the seed"""
    from ..core import load_known
    headers = dict((f, h) for f, h, _ in FILES)
    for k in load_known().get("C20", []):
        inp, sig, status = k.get("input") or {}, k["signature"], k.get("status", "open")
        bad = None
        if "s" in inp and "file" in inp:
            fname = inp["file"]
            qd = inp.get("written") or py_quote(inp.get("form", "1d"), inp["s"])
            sc.clear()
            sc.write(fname, f"{headers.get(fname, '[pydoctor]')}\nproject-name = {ini_embed(qd) if fname != 'pyproject.toml' else qd}\n")
            r = sc.run([f"--config={fname}"] if inp.get("config_arg") else [])
            got = r["options"].projectname if r["kind"] == "ok" else None
            bad = None if got == inp["s"] else f"{fname}: project-name = {qd!r} read back as {got!r} ({short(r)})"
        elif inp.get("mode") == "override":
            sc.clear()
            sc.write(inp["file"], inp["text"])
            rb = sc.run(inp["cli"])
            sc.clear()
            rc = sc.run(inp["cli"])
            bad = None if outcome_key(rb) == outcome_key(rc) else f"{inp['file']} {inp['text']!r} + {inp['cli']} differs from the command line alone{diff_opts(rb, rc)}"
        else:
            continue
        ctx.case(f"corpus finding {sig}", True, None)
        ctx.count(f"corpus:finding:{status}:{'fails' if bad else 'passes'}")
        if bad:
            ctx.fail(sig, inp, "recorded finding: " + bad)
        elif status == "open":
            ctx.notes.append(f"open finding {sig}: its recorded input no longer fails")
    sc.clear()
    # --intersphinx-cache-max-age (fixed by 41f9bad): an unparsable value is an option error (exit 2) when the options are
    # parsed, from the command line and from every file alike; a parsable one passes through unchanged
    from pydoctor.sphinx import parseMaxAge, InvalidMaxAge

    def parsable(v: str) -> bool:      # the reference: what the cache set-up (sphinx.parseMaxAge) accepts
        try:
            parseMaxAge(v)
            return True
        except InvalidMaxAge:
            return False
    for v in MAXAGE_BAD + MAXAGE_GOOD:
        good = parsable(v)
        runs = [("command line", sc.run([f"--intersphinx-cache-max-age={v}"]))]
        for fname, header, fmt in FILES:
            sc.write(fname, f"{header}\nintersphinx-cache-max-age = {toml_basic(v) if fmt == 'toml' else py_quote('1d', v)}\n")
            runs.append((fname, sc.run([])))
            sc.clear()
        ctx.case("corpus max-age " + enc(v), True, None)
        ctx.count("corpus:max-age:" + ("parsable" if good else "unparsable"))
        for how, r in runs:
            ok = (r["kind"] == "exit" and r["code"] == 2) if not good else (r["kind"] == "ok" and r["options"].intersphinx_cache_max_age == v)
            if not ok:
                ctx.fail(SIG_MAXAGE, {"mode": "maxage", "value": v, "from": how},
                         f"--intersphinx-cache-max-age {v!r} from {how}: {short(r)}" + (f", value {r['options'].intersphinx_cache_max_age!r}" if r["kind"] == "ok" else "")
                         + (" (expected: option error, exit 2)" if not good else " (expected: accepted unchanged)"))
    # ---- one item per line with a str.splitlines() boundary character in the MIDDLE of an item (seeded C20-r3-3): only the
    #      newline separates items.  (A raw CR cannot be carried by a file: text-mode reading turns it into a newline; it is
    #      in the value-level stream, which feeds IniConfigParser a StringIO.)
    table = {o["flags"][0]: o for o in live_table()}
    for long, mk in (("--html-subject", lambda b: f"pkg{b}mod"), ("--intersphinx", lambda b: f"https://h/a{b}b/objects.inv"),
                     ("--privacy", lambda b: f"PUBLIC:a{b}b"), ("--template-dir", lambda b: f"sub/t{b}d"), ("--add-package", lambda b: f"sub/p{b}k")):
        o = table[long]
        for b in LINE_BOUNDARIES:
            items = [mk(""), mk(b), mk(b) + "x"]
            for fname, header in (("setup.cfg", "[tool:pydoctor]"), ("pydoctor.ini", "[pydoctor]")):
                text = f"{header}\n{o['key']} =\n" + "".join(f"    {i}\n" for i in items)
                sc.clear()
                sc.write(fname, text)
                rf = sc.run([])
                sc.clear()
                cli = [f"{long}={i}" for i in items]
                rc = sc.run(cli)
                ctx.case(f"corpus boundary {long} U+{ord(b):04X} {fname}", True, None)
                ctx.count("corpus:line-boundary-in-item")
                if outcome_key(rf) != outcome_key(rc):
                    ctx.fail("append-order:ini", {"mode": "eq", "file": fname, "text": text, "cli": cli, "option": long},
                             f"{long}: {fname} {text!r} -> {short(rf)}{diff_opts(rf, rc)}; command line {cli} -> {short(rc)}")
    sc.clear()

    # ---- the reviewer's list: findings (open, with signature) and pinned behaviours
    def read(fname: str, text: str, args: Sequence[str] = ()) -> Dict[str, Any]:
        sc.clear()
        sc.write(fname, text)
        r = sc.run(list(args))
        sc.clear()
        return r

    def pin(name: str, got: Any, want: Any, why: str) -> None:
        ctx.case("corpus pin " + name, True, None)
        ctx.count("corpus:pinned-behaviour")
        if got != want:
            ctx.fail("pinned-behaviour-changed:" + name, {"pin": name}, f"{name}: now {got!r}, pinned {want!r} ({why})")

    def field(r: Dict[str, Any], attr: str) -> Any:
        return getattr(r["options"], attr) if r["kind"] == "ok" else short(r)[:60]

    # (1) clustered short count flags are not seen as "on the command line": the file's count is added
    ini1 = "[pydoctor]\nverbose = 1\n"
    pin("file verbose=1 + `-v -v`", field(read("pydoctor.ini", ini1, ["-v", "-v"]), "verbosity"), 2, "exact option strings replace the file's count")
    for cli in (["-vv"], ["-vq"]):
        rb, rc = read("pydoctor.ini", ini1, cli), sc.run(cli)
        ctx.case("corpus cluster " + " ".join(cli), True, None)
        if outcome_key(rb) != outcome_key(rc):
            ctx.fail(SIG_CLUSTER, {"mode": "override", "file": "pydoctor.ini", "text": ini1, "cli": cli},
                     f"pydoctor.ini {ini1!r} + {cli}: verbosity {field(rb, 'verbosity')}, the command line alone gives {field(rc, 'verbosity')} "
                     f"(with the flags written apart the file's count is dropped)")
    # (2) the value `--`
    for fname, header, fmt in FILES:
        r = read(fname, f"{header}\nproject-name = {toml_basic('--') if fmt == 'toml' else py_quote('1s', '--')}\n")
        ctx.case("corpus double dash " + fname, True, None)
        if field(r, "projectname") != "--":
            ctx.fail(SIG_DDASH, {"file": fname, "form": "1s", "s": "--"}, f"{fname}: project-name = '--' read back as {field(r, 'projectname')!r} (argparse drops a lone '--' value; --project-name=-- does the same)")
    # (3) raw newlines inside a triple-quoted INI value are continuation lines first
    pin("triple-quoted INI value over several lines", field(read("setup.cfg", "[tool:pydoctor]\nproject-name = '''a\n    #b\n      c'''\n"), "projectname"), "a\nc",
        "configparser drops comment lines and the indentation of continuation lines before pydoctor sees the value")
    # (4) a value a count/flag action cannot take
    for fname, text in (("setup.cfg", "[tool:pydoctor]\nverbose = x\n"), ("setup.cfg", "[tool:pydoctor]\nverbose = 2.0\n"), ("pyproject.toml", "[tool.pydoctor]\nverbose = [1]\n"),
                        ("pyproject.toml", "[tool.pydoctor]\nwarnings-as-errors = [true]\n")):
        r = read(fname, text)
        ctx.case("corpus bad count/flag value " + text, True, None)
        if r["kind"] == "raise":
            ctx.fail(SIG_BADCOUNT, {"mode": "badvalue", "file": fname, "text": text}, f"{fname} {text!r}: Options.from_args raised {r['cls']}: {r['msg']} instead of an option error")
        elif r["kind"] != "exit":
            ctx.fail("bad-count-or-flag-value:accepted", {"mode": "badvalue", "file": fname, "text": text}, f"{fname} {text!r}: {short(r)}")
    pin("verbose = -1", field(read("setup.cfg", "[tool:pydoctor]\nverbose = -1\n"), "verbosity"), 0, "a negative count repeats the flag zero times; `quiet` is the way down")
    # (5) key case
    ra, rb = read("setup.cfg", "[tool:pydoctor]\nProject-Name = x\n"), read("pyproject.toml", "[tool.pydoctor]\nProject-Name = \"x\"\n")
    ctx.case("corpus key case", True, None)
    if (field(ra, "projectname"), ra["warnings"]) != (field(rb, "projectname"), rb["warnings"]):
        ctx.fail(SIG_KEYCASE, {"mode": "keycase", "key": "Project-Name"},
                 f"key 'Project-Name': setup.cfg -> project-name={field(ra, 'projectname')!r} warnings={ra['warnings']}; pyproject.toml -> {field(rb, 'projectname')!r} warnings={rb['warnings']}")
    # (6) `config = …` inside a config file: judged by the wording "for every option" it is a finding (stream_hunter_shapes, H1)
    # (7) help / version in a file (options that terminate the process are outside the property)
    for k in ("help", "version"):
        r = read("setup.cfg", f"[tool:pydoctor]\n{k} = false\n")
        pin(f"{k} = false in a file", (r["kind"], r.get("code")), ("exit", 2), "argparse: ignored explicit argument")
    # (8) a TOML boolean for a string option
    ra, rb = read("pyproject.toml", "[tool.pydoctor]\nproject-name = true\n"), read("setup.cfg", "[tool:pydoctor]\nproject-name = true\n")
    ctx.case("corpus toml bool on string option", True, None)
    if field(ra, "projectname") != field(rb, "projectname"):
        ctx.fail(SIG_TOMLBOOL, {"mode": "tomlbool"}, f"project-name = true: pyproject.toml -> {field(ra, 'projectname')!r}, setup.cfg -> {field(rb, 'projectname')!r}")
    # (9) [DEFAULT]
    r = read("setup.cfg", "[DEFAULT]\nproject-name = leaked\nfoo = 1\n[tool:pydoctor]\nverbose = 1\n")
    pin("[DEFAULT] entries reach the pydoctor section", (field(r, "projectname"), field(r, "verbosity"), r["warnings"]), ("leaked", 1, ["No such config option: 'foo'"]),
        "configparser semantics, modelled by sectionItems")
    # (10) a one-line quoted value written over two lines; (11) an unquoted value that starts with [ and ends with ]
    for name, text in (("one-line quotes over two lines", "[tool:pydoctor]\nproject-name = 'a\n    b'\n"), ("unquoted [draft] x [v2]", "[tool:pydoctor]\nproject-name = [draft] x [v2]\n")):
        r = read("setup.cfg", text)
        pin(name, (r["kind"], r.get("code"), "unquote" in r.get("msg", "") or "Put quotes around" in r.get("msg", "")), ("exit", 2, True), "refused with a message that says what to write")
    # seeded shapes (seeded/C20*/meta.json "needs")
    shapes: List[Tuple[str, str, List[str], List[str], str]] = [
        # (file, text, args when the file is read, equivalent command line, signature when they differ)
        ("setup.cfg", "[tool:pydoctor]\nproject-name = '''My Project\n    API reference'''\n", [], ["--project-name=My Project\nAPI reference"], "ini-quoted-value:3s"),
        ("pydoctor.ini", "[pydoctor]\nintersphinx = \n    a\n    '''b\n    c'''\n", [], ["--intersphinx=a", "--intersphinx='''b", "--intersphinx=c'''"], "append-order:ini"),
        ("docs.conf", "[pydoctor]\nverbose = 1\nhtml-viewsource-template = {mod_source_href}?plain=1#L{lineno}\nhtml-viewsource-base = https://github.com/t/p/tree/m\n",
         ["--config=docs.conf"], ["--verbose", "--html-viewsource-template={mod_source_href}?plain=1#L{lineno}", "--html-viewsource-base=https://github.com/t/p/tree/m", "--config=docs.conf"], SIG_CRASH),
        ("setup.cfg", "[tool.pydoctor]\nhtml-viewsource-template = {mod_source_href}?plain=1#L{lineno}\n", [], ["--html-viewsource-template={mod_source_href}?plain=1#L{lineno}"], SIG_CRASH),
        ("pyproject.toml", "[tool.pydoctor]\npyval-repr-maxlines = 0\npyval-repr-linelen = 0\nsidebar-toc-depth = 0\n", [],
         ["--pyval-repr-maxlines=0", "--pyval-repr-linelen=0", "--sidebar-toc-depth=0"], "file-ne-cli:store:toml"),
        ("pyproject.toml", "[tool.pydoctor]\nsidebar-expand-depth = 0\n", [], ["--sidebar-expand-depth=0"], "file-ne-cli:store:toml"),
        ("pyproject.toml", "[tool.pydoctor]\nverbose = 0\nwarnings-as-errors = false\n", [], [], "file-ne-cli:count:toml"),
    ]
    for uk, val in (("project_name", '"x"'), ("html_output", '"x"'), ("make_html", "true")):
        for fname, header, fmt in FILES:
            v = val if fmt == "toml" else val.strip('"')
            sc.clear()
            sc.write(fname, f"{header}\n{uk} = {v}\nproject-version = {toml_basic('1') if fmt == 'toml' else '1'}\n")
            r = sc.run([])
            ctx.case(f"corpus unknown {fname} {uk}", True, None)
            ctx.count("corpus:seeded-shape:unknown-key")
            inp = {"mode": "unknown", "file": fname, "key": uk, "text": f"{header}\n{uk} = {v}\nproject-version = {toml_basic('1') if fmt == 'toml' else '1'}\n",
                   "text_without": f"{header}\nproject-version = {toml_basic('1') if fmt == 'toml' else '1'}\n"}
            if r["kind"] != "ok":
                ctx.fail("unknown-key:aborts", inp, f"{fname}: unknown key {uk!r} -> {short(r)}")
            elif r["warnings"] != [f"No such config option: {uk!r}"]:
                ctx.fail("unknown-key:not-warned-once", inp, f"{fname}: unknown key {uk!r}: warnings {r['warnings']}")
            elif r["options"].projectname is not None or r["options"].htmloutput != "apidocs":
                ctx.fail("unknown-key:applied", inp, f"{fname}: unknown key {uk!r} was applied")
    for fname, text, fargs, cli, sig in shapes:
        sc.clear()
        sc.write(fname, text)
        rf = sc.run(fargs)
        if os.path.exists(fname) and fname not in headers:
            os.remove(fname)
        sc.clear()
        rc = sc.run([a for a in cli if not a.startswith("--config=")])
        ctx.case(f"corpus shape {fname} {text}", True, None)
        ctx.count("corpus:seeded-shape:file-vs-cli")
        if outcome_key(rf) != outcome_key(rc):
            real = SIG_CRASH if rf["kind"] == "raise" else sig
            ctx.fail(real, {"mode": "eq", "file": fname, "text": text, "cli": cli}, f"{fname} {text!r} -> {short(rf)}{diff_opts(rf, rc)}; command line {cli} -> {short(rc)}")
    # an INI-only file given through --config, then a pyproject.toml that uses TOML-only syntax (comment, literal string)
    sc.clear()
    sc.write("project.conf", "[tool:pydoctor]\nquiet = 1\n")
    sc.write("pyproject.toml", "[tool.pydoctor]\nproject-name = \"Demo\"          # shown at the top of each page\nhtml-output = 'build\\new-docs'\n")
    rf = sc.run(["--config=project.conf"])
    os.remove("project.conf")
    rf2 = sc.run([])
    sc.clear()
    rc = sc.run(["--quiet", "--project-name=Demo", "--html-output=build\\new-docs"])
    rc2 = sc.run(["--project-name=Demo", "--html-output=build\\new-docs"])
    ctx.case("corpus shape --config INI-only file + pyproject.toml with a comment and a literal string", True, None)
    ctx.count("corpus:seeded-shape:file-vs-cli", 2)
    for a, b, what in ((rf, rc, "--config=project.conf + pyproject.toml"), (rf2, rc2, "pyproject.toml alone, afterwards")):
        if outcome_key(a) != outcome_key(b):
            ctx.fail("file-ne-cli:store:toml", {"mode": "eq", "file": "pyproject.toml", "text": "project-name = \"Demo\"  # comment / html-output = 'build\\new-docs'", "cli": ["--project-name=Demo"]},
                     f"{what}: differs from the command line{diff_opts(a, b)}")


def stream_hunter_shapes(ctx: Ctx, sc: Scratch) -> None:
    """shapes a hunter found the unchanged tree violating the property on (hunt/C20/1..4 and its side remarks): generated here,
    judged by the direct oracle; each has its own signature"""
    # (H1) the key of the config-file option inside a config file: must load the named file (as --config does) or be warned about
    from pydoctor.options import get_parser
    p = get_parser()
    for a in p._actions:
        if not getattr(a, "is_config_file_arg", False):
            continue
        for key in p.get_possible_config_keys(a):
            for fname, header, fmt in FILES:
                for target, exists in (("extra.ini", True), ("does-not-exist.ini", False)):
                    sc.clear()
                    if exists:
                        sc.write("extra.ini", "[pydoctor]\nproject-name = FromExtra\n")
                    text = f"{header}\n{toml_key(key) if fmt == 'toml' else key} = {toml_basic(target) if fmt == 'toml' else target}\n"
                    sc.write(fname, text)
                    rf = sc.run([])
                    sc.clear()
                    rc = sc.run([f"--config={target}"]) if exists else None
                    if os.path.exists("extra.ini"):
                        os.remove("extra.ini")
                    ctx.case(f"hunt config key {fname} {key} {target}", True, None)
                    ctx.count("hunter:config-key-in-file")
                    warned = [f"No such config option: {key!r}"] == rf["warnings"]
                    same = rc is not None and outcome_key(rf) == outcome_key(rc)
                    refused = rf["kind"] == "exit"
                    if not (warned or same or refused):
                        ctx.fail(SIG_CONFIG_KEY, {"mode": "configkey", "file": fname, "text": text, "target": target},
                                 f"{fname} {text!r}: the key is not warned about and {target} is not loaded (project-name {getattr(rf.get('options'), 'projectname', None)!r}"
                                 + (f", --config={target} gives {getattr(rc.get('options'), 'projectname', None)!r})" if rc else ", the file does not even exist)"))
    # (H2) an unknown key whose value is bracketed / quoted text that does not evaluate (INI files): warned about, not an abort
    for fname, header, fmt in FILES[1:]:
        for val in ("[a, b]", "'C:\\x'", "[1, 2", "[draft] x [v2]", "\"a\n    b\"", "['x'"):
            for before in (True, False):
                ok_line = "project-name = Demo\n"
                uk_line = f"future-option = {val}\n"
                text = header + "\n" + (uk_line + ok_line if before else ok_line + uk_line)
                sc.clear()
                sc.write(fname, text)
                r = sc.run([])
                ctx.case(f"hunt unknown key unevaluable {fname} {val} {before}", True, None)
                ctx.count("hunter:unknown-key-unevaluable-value")
                if r["kind"] != "ok" or r["warnings"] != ["No such config option: 'future-option'"] or r["options"].projectname != "Demo":
                    ctx.fail(SIG_UNKNOWN_BADVALUE, {"mode": "unknown", "file": fname, "key": "future-option", "text": text, "text_without": header + "\n" + ok_line},
                             f"{fname} {text!r}: unknown key with a value that does not evaluate -> {short(r)}, warnings {r['warnings']}")
    # (H3) a pyproject.toml the toml package refuses (valid TOML 1.0: a mixed array in another table) is re-read as INI
    prefix = "[tool.other]\nmixed = [1, \"a\"]\n"
    for s in strings_upto(1 if ctx.quick else 2) + EXTRA_SINGLES + ["C:\\temp\\new", "https://example.org"]:
        for form, qd in writings("pyproject.toml", s):
            for comment in ("", "   # home"):
                text = f"{prefix}[tool.pydoctor]\nproject-name = {qd}{comment}\n"
                sc.clear()
                sc.write("pyproject.toml", text)
                r = sc.run([])
                got = r["options"].projectname if r["kind"] == "ok" else None
                ctx.case(f"hunt toml1.0 {form} {enc(s)} {bool(comment)}", nontrivial_str(s), None)
                ctx.count("hunter:pyproject-refused-by-toml-package")
                if got != s and r["kind"] != "exit":       # (a reported error would be fine: the file is not silently misread)
                    ctx.fail(SIG_TOML_AS_INI, {"mode": "tomlasini", "file": "pyproject.toml", "text": text, "s": s},
                             f"pyproject.toml {text!r}: project-name read back as {got!r}, written {s!r} (the toml package refuses the file, the INI parser reads it)")
    # (H4) one item per line, each line quoted
    table = {o["flags"][0]: o for o in live_table()}
    for long in ("--intersphinx", "--html-subject"):
        o = table[long]
        for items in (["https://a.example/objects.inv", "https://b.example/objects.inv"], ["pkg.mod ", "#pkg.other"], ["it's", "x"], ["a", "b\tc"]):
            for q in ("1d", "1s"):
                for fname, header in (("setup.cfg", "[tool:pydoctor]"), ("pydoctor.ini", "[pydoctor]")):
                    text = f"{header}\n{o['key']} =\n" + "".join(f"    {py_quote(q, i)}\n" for i in items)
                    cli = [f"{long}={i}" for i in items]
                    sc.clear()
                    sc.write(fname, text)
                    rf = sc.run([])
                    sc.clear()
                    rc = sc.run(cli)
                    ctx.case(f"hunt quoted lines {fname} {long} {q} {enc('|'.join(items))}", True, None)
                    ctx.count("hunter:one-per-line-quoted-items")
                    if outcome_key(rf) != outcome_key(rc):
                        ctx.fail(SIG_ML_QUOTES, {"mode": "eq", "file": fname, "text": text, "cli": cli},
                                 f"{fname} {text!r} -> {short(rf)}{diff_opts(rf, rc)}; command line {cli}")
    # side remarks: commas inside TOML array strings (toml package), a source path equal to an option string
    for items in ([","], ["a", ","], [", "], ["a,b"], ["],["]):
        text = "[tool.pydoctor]\nintersphinx = [" + ", ".join(toml_basic(i) for i in items) + "]\n"
        sc.clear()
        sc.write("pyproject.toml", text)
        r = sc.run([])
        got = list(r["options"].intersphinx) if r["kind"] == "ok" else None
        ctx.case("hunt toml array " + text, True, None)
        ctx.count("hunter:toml-array-comma")
        if got != items:
            ctx.fail(SIG_TOML_ARRAY, {"mode": "tomlarray", "file": "pyproject.toml", "text": text, "items": items}, f"pyproject.toml {text!r}: intersphinx read back as {got!r}")
    os.makedirs("--verbose", exist_ok=True)
    sc.clear()
    sc.write("pydoctor.ini", "[pydoctor]\nverbose = 1\n")
    rb = sc.run(["--", "--verbose"])
    sc.clear()
    rc = sc.run(["-v", "--", "--verbose"])
    ctx.case("hunt positional equal to an option string", True, None)
    ctx.count("hunter:positional-equal-to-option-string")
    if outcome_key(rb) != outcome_key(rc):
        ctx.fail(SIG_POSITIONAL, {"mode": "positional", "file": "pydoctor.ini", "text": "[pydoctor]\nverbose = 1\n", "cli": ["--", "--verbose"]},
                 f"verbose = 1 in pydoctor.ini + source path `--verbose` after `--`: the file's value is dropped{diff_opts(rb, rc)}")
    sc.clear()


def stream_every_option_string(ctx: Ctx, sc: Scratch) -> None:
    """direct oracle that does not depend on the model's option table: for EVERY config key the real parser accepts (every
    long option string of every action, with and without its `--`: negative spellings that BooleanOptionalAction-like
    actions generate included) in the three file formats, Options from `<key> = true / false / <value>` must equal Options
    from the command line that spells the same option string; every option string (short ones too) must mean the same as
    what its action's other strings mean when they are documented as aliases of the same switch."""
    from pydoctor.options import get_parser
    p = get_parser()
    n_keys = n_cases = 0
    for a in p._actions:
        if isinstance(a, (argparse._HelpAction, argparse._VersionAction)) or getattr(a, "is_config_file_arg", False) or not a.option_strings:
            continue
        keys = list(p.get_possible_config_keys(a))
        valueless = a.nargs == 0
        if valueless:
            cases: List[Tuple[str, Optional[str]]] = [("true", None), ("false", None)]
            if isinstance(a, argparse._CountAction):
                cases.append(("2", None))
        else:
            if a.choices:
                vals = [str(c) for c in list(a.choices)[:2]]
            elif a.type is int:
                vals = ["3"]
            elif a.option_strings[0] in CLASSES:
                vals = [CLASSES[a.option_strings[0]][0]]
            elif a.option_strings[0] == "--privacy":
                vals = ["PUBLIC:a.b"]
            elif a.option_strings[0] == "--intersphinx-cache-max-age":
                vals = ["2d"]
            else:
                vals = ["sub/x"]
            cases = [(v, v) for v in vals]
        for key in keys:
            # the option string this key stands for (`xxx` and `--xxx` both stand for `--xxx`)
            opt = key if key.startswith("--") else "--" + key
            if opt not in a.option_strings:
                ctx.fail("config-key:no-such-option-string", {"key": key, "option_strings": a.option_strings},
                         f"config key {key!r} is accepted for {a.option_strings} but {opt!r} is not one of its option strings")
                continue
            n_keys += 1
            for text_val, cli_val in cases:
                if valueless:
                    low = text_val.lower()
                    cli = [opt] if low == "true" else [] if low == "false" else [opt] * int(text_val)
                else:
                    cli = [f"{opt}={cli_val}"]
                sc.clear()
                rc = sc.run(cli)
                for fname, header, fmt in FILES:
                    if valueless:
                        fv = text_val if (fmt != "toml" or text_val in ("true", "false") or text_val.isdigit()) else toml_basic(text_val)
                    elif isinstance(a, argparse._AppendAction):
                        fv = "[" + (toml_basic(text_val) if fmt == "toml" else py_quote("1d", text_val)) + "]"
                    else:
                        fv = text_val if (fmt == "toml" and a.type is int) else toml_basic(text_val) if fmt == "toml" else text_val
                    text = f"{header}\n{toml_key(key) if fmt == 'toml' else key} = {fv}\n"
                    sc.clear()
                    sc.write(fname, text)
                    rf = sc.run([])
                    n_cases += 1
                    ctx.case(f"every-option-string {fname} {key} = {text_val}", True,
                             {"file": fname, "text": text, "cli": cli, "outcome": short(rf)} if len(ctx.samples) < 6 and key.startswith("no-") else None)
                    ctx.count("every-option-string:" + type(a).__name__)
                    if outcome_key(rf) != outcome_key(rc):
                        ctx.fail(f"option-string:file-ne-cli:{'flag' if valueless else 'valued'}",
                                 {"mode": "eq", "file": fname, "text": text, "cli": cli, "key": key, "action": type(a).__name__},
                                 f"{fname} {text!r} -> {short(rf)}{diff_opts(rf, rc)}; the command line {cli} -> {short(rc)} "
                                 f"(config key {key!r} of {type(a).__name__} {a.option_strings})")
        sc.clear()
        # every option string of a value-less action against the first one, unless it is a generated negative spelling
        # (those must mean the opposite: checked against the empty command line's default being restored)
        if valueless and not isinstance(a, argparse._CountAction):
            base = sc.run([a.option_strings[0]])
            for s_ in a.option_strings[1:]:
                r = sc.run([s_])
                ctx.count("every-option-string:alias")
                neg = s_.startswith("--no-") and ("--" + s_[5:]) in a.option_strings
                if not neg and outcome_key(r) != outcome_key(base):
                    ctx.fail("option-string:alias-differs", {"mode": "eq", "file": "setup.cfg", "text": "[tool:pydoctor]\n", "cli": [s_]},
                             f"{s_} and {a.option_strings[0]} are option strings of one action but give different Options{diff_opts(r, base)}")
    ctx.extra["every_option_string"] = {"config_keys": n_keys, "file_vs_command_line_cases": n_cases}


# ------------------------------------------------------------------ run / replay

def run(ctx: Ctx) -> None:
    with warnings.catch_warnings():
        warnings.simplefilter("ignore", SyntaxWarning)
        warnings.simplefilter("ignore", DeprecationWarning)
        del UNCOVERED[:]
        sc = Scratch()
        try:
            stream_every_option_string(ctx, sc)   # needs nothing from the model: every key the real parser accepts
            stream_hunter_shapes(ctx, sc)
            stream_corpus(ctx, sc)            # recorded findings and seeded shapes first, whatever the seed
        finally:
            sc.close()
        stream_quoting(ctx)
        stream_ini_values(ctx)
        stream_toml_and_sections(ctx)
        stream_sections_and_toml_lookup(ctx)
        stream_composite(ctx)
        sc = Scratch()
        try:
            stream_from_namespace(ctx, sc)
            stream_string_files(ctx, sc)
            stream_options(ctx, sc)
            stream_unquoted_ini(ctx, sc)
        finally:
            sc.close()
    for msg in UNCOVERED:                     # the translator could not carry the live table: broken correspondence
        if msg not in ctx.broken:
            ctx.broken.append(msg)
    ctx.exhaustive = True
    ctx.extra["partial_theorems"] = PARTIAL


def replay(ctx: Ctx, obj) -> int:
    """re-run one recorded case on the real code (and the model where it has a say); exit 1 when the oracle fails"""
    inp = obj.get("input") or obj.get("request") or obj
    if isinstance(inp, str):
        print("request:", inp)
        print("model  :", ctx.driver.run([inp])[0])
        return 0
    headers = dict((f, h) for f, h, _ in FILES)
    if "text" in inp and "triple" in inp:
        from pydoctor._configparser import is_quoted
        t = "t" if inp["triple"] else "s"
        isq = is_quoted(inp["text"], triple=inp["triple"])
        un = impl_unq(inp["text"], inp["triple"])
        print("is_quoted :", isq, "| model:", ctx.driver.run([f"config isq {t} {enc(inp['text'])}"])[0])
        print("unquote   :", un, "| model:", ctx.driver.run([f"config unq {t} {enc(inp['text'])}"])[0])
        bad = int(un.startswith("RAISE") or (not isq and un != "ok " + enc(inp["text"])))
        print("oracle    :", "fails" if bad else "holds (an unquoted text is returned unchanged; only ValueError escapes)")
        return bad
    if "form" in inp and "s" in inp and "file" not in inp:
        from pydoctor._configparser import is_quoted
        qd = py_quote(inp["form"], inp["s"])
        un = impl_unq(qd, True)
        print("written   :", repr(qd))
        print("impl      :", is_quoted(qd), un)
        print("model     :", ctx.driver.run([f"config quote {inp['form']} {enc(inp['s'])}"])[0])
        bad = int(not is_quoted(qd) or un != "ok " + enc(inp["s"]))
        print("oracle    :", "read back != written" if bad else "read back == written")
        return bad
    sc = Scratch()
    bad = 0
    try:
        if "s" in inp and "file" in inp:
            fname = inp["file"]
            qd = inp.get("written") or py_quote(inp.get("form", "1d"), inp["s"])
            key = "intersphinx" if inp.get("as") == "list item" else "project-name"
            body = f"[{qd}]" if key == "intersphinx" else qd
            sc.clear()
            sc.write(fname, f"{headers.get(fname, '[pydoctor]')}\n{key} = {ini_embed(body) if fname != 'pyproject.toml' else body}\n")
            r = sc.run([f"--config={fname}"] if inp.get("config_arg") else [])
            got = (list(r["options"].intersphinx) if key == "intersphinx" else r["options"].projectname) if r["kind"] == "ok" else None
            print(f"file   : {fname}: {key} = {body!r}")
            print(f"impl   : {short(r)}; read back {got!r}")
            if fname == "setup.cfg" and key == "project-name":
                print("model  :", ctx.driver.run([f"config inival none 1 {enc(qd)}"])[0], "(INI value pipeline on the written text)")
            want = [inp["s"]] if key == "intersphinx" else inp["s"]
            bad = 0 if got == want else 1
            print("oracle :", "read back == written" if not bad else f"written {inp['s']!r}, read back {got!r}: the string did not survive")
        elif inp.get("mode") in ("eq", "override"):
            fname, text, cli = inp["file"], inp["text"], list(inp["cli"])
            sc.clear()
            sc.write(fname, text)
            ra = sc.run([] if inp["mode"] == "eq" else cli)
            sc.clear()
            rb = sc.run(cli)
            print(f"file   : {fname}: {text!r}")
            print(f"{'file alone       ' if inp['mode'] == 'eq' else 'file + ' + repr(cli)}: {short(ra)}")
            print(f"command line {cli} alone: {short(rb)}")
            bad = 0 if outcome_key(ra) == outcome_key(rb) else 1
            print("oracle :", ("same effective configuration" if not bad else "effective configuration differs" + diff_opts(ra, rb)))
        elif inp.get("mode") == "badvalue":
            sc.clear()
            sc.write(inp["file"], inp["text"])
            r = sc.run([])
            print(f"file   : {inp['file']}: {inp['text']!r}")
            print(f"impl   : {short(r)}")
            bad = int(r["kind"] == "raise")
            print("oracle :", "an exception escapes Options.from_args (traceback)" if bad else "clean outcome (option error or accepted)")
        elif inp.get("mode") == "unknown":
            fname = inp["file"]
            sc.clear()
            sc.write(fname, inp["text"])
            r1 = sc.run([])
            sc.clear()
            sc.write(fname, inp["text_without"])
            r0 = sc.run([])
            print(f"file   : {fname}: {inp['text']!r}")
            print(f"impl   : {short(r1)}; warnings {r1['warnings']}")
            bad = int(r1["kind"] != "ok" or r1["warnings"] != [f"No such config option: {inp['key']!r}"] or outcome_key(r1) != outcome_key(r0))
            print("oracle :", "unknown key aborts, is not warned about once, or is applied" if bad else "warned once, not applied, no abort")
        else:
            print(obj)
    finally:
        sc.close()
    return bad
