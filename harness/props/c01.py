"""C01 — a run never aborts: any Python source tree is analysed and rendered to the end."""
from __future__ import annotations

import contextlib
import io
import os
import random
import shutil
import signal
import sys
import tempfile
import traceback
from pathlib import Path
from typing import Any, Dict, List, Optional, Tuple

from ..core import Ctx, REPO

THEOREMS = ["Schedule.c01_process_total", "Schedule.c01_one_bad_file", "Schedule.c01_exit_status",
            "Docstring.c01_render_run_total", "Docstring.c01_errors_kept", "Docstring.c01_failure_sets_exit_status"]
RULE = ("source trees: (i) modules assembled from a catalogue of unusual but valid constructs (star bases, odd __all__, nested "
        "scopes in control flow, match, PEP 695 generics, decorators with calls, walrus, f-strings, lambda defaults ...) "
        "nested at random; (ii) line / token mutations of pydoctor's own sources, its test packages and stdlib modules "
        "(mostly unparsable or half-parsable files next to good ones); (iii) hostile string and docstring contents (NUL, "
        "control characters, very long lines, odd escapes, twisted template directives smuggled in through markup, one token "
        "repeated some hundred times); (iv) legal code nested a few hundred levels deep at one place (sizes drawn around the depth "
        "at which the recursive walks give up) and chains of 20 - 170 modules importing one another; (v) tree shapes: a module "
        "assigning the __doc__ of a module not analysed yet, a class moved by a re-export while its body is visited, module / "
        "package FILE NAMES that are not UTF-8, hold control characters or URL / HTML syntax, or are at the file system's length "
        "limit, names that make a page file name too long, directories / broken links / unreadable files where a source file is "
        "expected; (vi) growth: one token repeated 200 / 400 / 800 times at one place of a docstring, the parser's CPU time "
        "measured. Each tree is run through the real pydoctor.driver.main "
        "in-process (worker pool, per-run alarm on CPU time) under a random docformat; the oracle is the property itself: returns 0/2/3, "
        "writes index/search/inventory, names every unparsable file, still documents the others. The module scheduler of the "
        "same runs is covered by the Schedule theorems and the C06 log correspondence. Non-trivial = tree contains a file that "
        "does not parse, a hostile string, or at least three catalogue constructs.")
ASSUMPTIONS = ["'never hangs' is decided by a per-run alarm (60 s of CPU time, 300 s on the clock; every generated tree is below 200 KB and "
               "ordinary runs take well under 5 s) and, for one token repeated at one place of a docstring, by the measured growth of the "
               "parser's CPU time over two doublings (exponent >= 2.5 and >= 1 s at 800 repeats = cubic or worse)",
               "lone surrogates in source strings are exercised in a separate stream (Lean's Char cannot represent them)"]
PARTIAL = {"C01 totality of all of pydoctor": "the theorems carry the scheduler, the exit status and (C08) the docstring "
           "fallback wrappers; that no construct makes any other code path raise is decided by the end-to-end oracle only"}

DOCFORMATS = ["epytext", "restructuredtext", "google", "numpy", "plaintext"]

CONSTRUCTS = [
    "class {N}(*bases, **kw):\n    pass\n",
    "class {N}(Base, metaclass=Meta):\n    x: int\n",
    "class {N}[T]:\n    def m[U](self, a: T, b: U) -> T: ...\n",
    "type {N} = list[int] | None\n",
    "def {n}[T: (int, str)](a: T, /, b: T = 1, *args: T, c: T, **kw: T) -> T:\n    '''doc'''\n",
    "__all__ = ['{N}', 1, *others]\n",
    "__all__ += other.__all__\n",
    "__all__ = 3\n",
    "__all__: list = []\n__all__.append('{n}')\n__all__.extend(['{N}'])\n",
    "__docformat__ = 'restructuredtext en'\n",
    "__docformat__ = 42\n",
    "if (y := 10) > 5:\n    class {N}: pass\nelif y:\n    def {n}(): pass\nelse:\n    {n} = lambda x=(lambda: 1): x\n",
    "match command:\n    case [{N}() as c, *rest] if rest:\n        def {n}(): pass\n    case {{'k': v, **kw}}:\n        pass\n    case _:\n        class {N}: pass\n",
    "try:\n    from x import {n}\nexcept* (A, B) as eg:\n    {n} = None\nfinally:\n    def {n}2(): pass\n",
    "for {n}, ({n}2, *{n}3) in pairs:\n    class {N}: pass\nelse:\n    pass\n",
    "with open(a) as ({n}, {n}2), ctx() as {n}3.attr:\n    def {n}4(): pass\n",
    "async def {n}():\n    async with a as b:\n        async for x in y:\n            z = [i async for i in x if await i]\n    return (yield)\n",
    "@decorator(arg, key=lambda: 0)\n@a.b.c\n@d[0](1)(2)\ndef {n}(self, *, k=f'{{x!r:>{{w}}}} {{{{}}}}'): pass\n",
    "@property\ndef {n}(self): return 1\n@{n}.setter\ndef {n}(self, v): pass\n@{n}.deleter\ndef {n}(self): pass\n",
    "@overload\ndef {n}(a: int) -> int: ...\n@overload\ndef {n}(a: str) -> str: ...\ndef {n}(a): return a\n",
    "@staticmethod\n@classmethod\ndef {n}(): pass\n",
    "{n} = staticmethod({n})\n{n}2 = classmethod(nosuch)\n",
    "{n}: 'ForwardRef[unclosed' = 1\n",
    "{n}: 'a b c' = 2\n'''attr doc'''\n",
    "{n}: Final[int] = 3\n{N}: Final = 4\n{N}2: 'Final[str]' = ''\n",
    "{N} = TypeVar('{N}', bound='X')\n{N}2 = NewType('{N}2', int)\n",
    "{n} = {n}2 = {n}3.attr = {n}4[0] = 1\n",
    "({n}, {n}2), [{n}3, *{n}4] = (1, 2), [3, 4, 5]\n",
    "{n} += 1\n{N} |= {{1}}\n{n} @= m\n",
    "del {n}, {N}.attr, x[0]\n",
    "global {n}\nnonlocal_like = 1\n",
    "lambda: (yield)\n",
    "{n} = 1 if a else 2 if b else (3, )\n{n}2 = a-(b-c)*-d**-e//f%g@h\n{n}3 = not a and b or c in d is not e\n",
    "{n} = {{**a, 'k': [*b, *c], (1,): {{x for x in y}}}}\n{n}2 = x[1:2, ..., ::3]\n{n}3 = f(*a, k=1, **kw)(b)[c].d\n",
    "{n} = 1e999\n{n}2 = -1j\n{n}3 = 0xFFFF_FFFF_FFFF_FFFF_FFFF\n{n}4 = b'\\x00\\xff'\n{n}5 = ...\n",
    "{n} = re.compile(r'(?P<a>[^\\]]+)(?=b)(?<!c)\\1(?#comment)*?{{2,3}}|\\Z', re.X | re.S)\n",
    "{n} = re.compile('[unclosed')\n{n}2 = re.compile(b'\\xff(?i)x')\n",
    "class {N}(Exception, Generic[T], metaclass=ABCMeta):\n    '''doc\n\n    @ivar a: x\n    @type a: L{{int}}\n    @cvar b: y\n    '''\n    __slots__ = ('a',)\n    a = attr.ib(type=int, default=attr.Factory(list))\n",
    "@attr.s(auto_attribs=True, kw_only=1)\nclass {N}:\n    a: int\n    b: str = attr.ib(validator=None)\n    c = attr.ib(factory=lambda: 1, init=False)\n",
    "from zope.interface import Interface, implementer, Attribute\nclass I{N}(Interface):\n    a = Attribute('doc')\n    def m(x): 'doc'\n@implementer(I{N}, nosuch.I)\nclass {N}: pass\n{N}2 = Interface('{N}2')\n",
    "from twisted.python.deprecate import deprecated, deprecatedProperty\nfrom incremental import Version\n@deprecated(Version('pkg', 1, 2, 3), replacement='a.b')\ndef {n}(): pass\n@deprecated(Version(name, 1), 2)\nclass {N}: pass\n",
    "if __name__ == '__main__':\n    def {n}(): pass\nif not TYPE_CHECKING:\n    import x\nif sys.version_info >= (3, 8):\n    class {N}: pass\n",
    "from . import *\nfrom .. import x\nfrom ...far import y as z\nfrom .{n} import *\nimport a.b.c as d, e\n",
    "from {n} import (\n    a as b,\n    c,\n)\nfrom __future__ import annotations\n",
    "class {N}:\n    class {N}:\n        class {N}:\n            def {N}(self):\n                class {N}: pass\n                def {N}(): pass\n",
    "def {n}(a, b=[], c={{}}, *, d=(1,), e=lambda: None, f=f'{{1+1}}', g=...):\n    def inner(): pass\n    self.x = 1\n",
    "class {N}:\n    def __init__(self, a: 'int', *args: 'str', **kw: \"dict\") -> 'None':\n        self.{n}: int = a\n        '''inst doc'''\n        self.{n}2 = self.{n}3 = args\n        a.b = 1\n    def __new__(cls): ...\n    @classmethod\n    def create(cls) -> 'Self': ...\n",
    "'''module doc\n\n@var {n}: x\n@type {n}: C{{int}}\n@note: n\n@author: a\n@see: L{{nosuch}}\n@bogus: field\n'''\n",
    "{n} = 1\n'''doc1'''\n'''doc2'''\n",
    "'just a string'\n1\n...\n",
    "pass\n;\n" if False else "pass\n",
    "{n} = lambda *a, **k: (a, k)\n{n}.__doc__ = 'x'\n",
    "class {N}(namedtuple('{N}', 'a b')):\n    pass\n{N}2 = Enum('{N}2', 'A B')\nclass {N}3(enum.IntFlag):\n    A = auto()\n    B = A | 2\n",
    "class {N}(TypedDict, total=False):\n    a: Required[int]\n    'doc of a'\nclass {N}2(Protocol[T]):\n    def m(self) -> T: ...\n",
    "{n} = lambda text: int(text)  # type: (str) -> int\n{n}2 = {{}}  # type: Dict[str,\n{n}3 = []  # type: List[int]\n{n}4 = 1  # type: ignore\n",
    "{n} = None  # type: 'Optional[int'\n{n}2 = 0  # type: int # trailing\nclass {N}:\n    a = []  # type: )(\n    def m(self):\n        self.b = 1  # type: a b c\n",
    "def {n}(a,  # type: int\n       b   # type: str\n       ):\n    # type: (...) -> bool\n    pass\n",
    # shapes that used to abort the run (fixed; kept so that a regression is seen)
    "__docformat__ = '_types'\n",
    "__docformat__ = 'nosuchformat'\n",
    "class {N}:\n    class bar: pass\n    @foo.setter\n    def bar(self): ...\n    @deprecated(Version('p', 1, 0, 0))\n    def baz(self): ...\n",
    "from zope.interface import implementer, Interface\nclass I{N}(Interface):\n    def m(): 'doc'\ndef some_function(): pass\n@implementer(some_function, I{N})\nclass {N}:\n    def m(self): pass\n",
    "{n} = re.compile('a{{99999999999999}}')\n{n}2 = re.compile('b{{1,99999999999999999999}}')\n",
    "class {N}:\n    @staticmethod\n    def f(): ...\n    f = staticmethod(f)\n    @classmethod\n    def g(cls): ...\n    g = classmethod(g)\n    def h(self): ...\n    h = staticmethod(h)\n    h = classmethod(h)\n    @property\n    def p(self): ...\n    p = staticmethod(p)\n",
    "__all__ = [{{[]: 1}}, '{n}']\n",
    "__docformat__ = {{[]: 1}}\n",
    "def {n}(): pass\n{n}.__doc__ = {{[]: 1}}\n",
    "import attr\n@attr.s(auto_attribs={{[]: 1}})\nclass {N}:\n    x: int = 1\n",
    "{n} = {{{{1}}: 2}}\n{n}2 = {{[1, 2]}}\n{n}3: Literal[{{[]: 1}}] = None\n",
    "{n} = " + "+".join(["1"] * 6000) + "\n",
    "{n} = " + "(" * 300 + "1" + ")" * 300 + "\n",
    "{n} = " + "[" * 120 + "]" * 120 + "\n",
    "@dataclass(frozen=True)\nclass {N}:\n    a: int = field(default=1)\n    b: ClassVar[int] = 2\n    c: InitVar[str] = ''\n",
    # a type field for a name that is never assigned (kind-less hidden attribute, first in the contents) ahead of other members
    "class {N}:\n    \'\'\'doc\n\n    @type dyn{n}: C{{int}}\n    \'\'\'\n    def first(self): pass\n    class Inner:\n        def deep(self): pass\n    x = 1\n",
    "class {N}:\n    \'\'\'doc\n\n    :type dyn{n}: int\n    :ivar other: x\n    \'\'\'\n    def first(self): pass\n    @property\n    def p(self): return 1\n",
    # string annotations / type comments that ast.parse refuses with something other than SyntaxError (1297c95)
    "def {n}(a: \"\\ud800\", b: '\\x00' = 1) -> '\\udfff': pass\n",
    "{n}: '" + "-" * 10000 + "1' = 1\n",
    "{n} = 1  # type: " + "-" * 10000 + "1\n",
    "{N}: \"" + " | ".join(["int"] * 5000) + "\" = 1\n",
    "class {N}:\n    @property\n    def p(self) -> \"\\ud800\": ...\n    @property\n    def q(self) -> '" + "-" * 10000 + "1': ...\n",
    "from typing import TypeAlias\n{N}: TypeAlias = \"\\ud800\"\n{N}2: TypeAlias = '" + "(" * 300 + "'\n",
    "import attr\n@attr.s\nclass {N}:\n    a = attr.ib(type=\"\\ud800\")\n    b = attr.ib(type='" + "-" * 10000 + "1')\n",
    # integer literals beyond the int -> str conversion limit (4300 digits), wherever an expression is turned into text
    "class {N}(f(0x" + "f" * 4000 + ")): pass\n",
    "class {N}(Generic[0x" + "f" * 4000 + "], metaclass=M(0x" + "f" * 4000 + ")): pass\n",
    "@d(0x" + "f" * 4000 + ")\ndef {n}(a=0x" + "f" * 4000 + ", *, b: Literal[0x" + "f" * 4000 + "] = 0o" + "7" * 5000 + "): pass\n",
    "{N} = 0x" + "f" * 4000 + "\n{n}: Literal[0b" + "1" * 16000 + "] = " + "9" * 4300 + "\n__all__ = [0x" + "f" * 4000 + "]\n",
]


def deep_source(rng: random.Random, n: Optional[int] = None) -> str:
    """legal code that is nested a few hundred levels deep at ONE place: the analysis walks and the colouriser are
    recursive, about three Python frames per level, so everything interesting happens around 300 - 340 operands
    (the exact number depends on where the expression sits); sizes are drawn mostly from that band"""
    if n is None:
        n = rng.choice([rng.randint(290, 345)] * 6 + [rng.randint(100, 290), rng.randint(345, 990), rng.randint(1000, 3000)])
    plus = " + ".join(["1"] * n)
    bor = " | ".join(["int"] * n)
    attr = "a" + ".b" * n
    cat = " + ".join(["'a'"] * n)
    shapes = [
        "TOTAL = %s\n'doc'\n" % plus,
        "X = %s\n" % attr,
        "X = %s\n" % cat,
        "x: %s = 1\n" % bor,
        "def f(a: %s): pass\n" % bor,
        "def f(a) -> %s:\n    '''doc\n\n    @param a: x\n    '''\n" % bor,
        "def f(a=%s, *, b=%s): pass\n" % (plus, attr),
        "@%s\ndef f(): pass\n" % attr,
        "@d(%s)\ndef f(): pass\n@d(%s)\nclass C: pass\n" % (plus, plus),
        "class C(%s): pass\n" % attr,
        "class C(d(%s)): pass\n" % plus,
        "class C:\n    X = %s\n    def f(self, a=%s) -> %s: pass\n" % (plus, plus, bor),
        "class C:\n    def __init__(self):\n        self.x = %s\n        self.y: %s = 1\n" % (plus, bor),
        "def f(x):\n    if x == 0:\n        return 0\n" + "".join("    elif x == %d:\n        return %d\n" % (i, i) for i in range(1, n)),
        "import sys\nif sys.a == 0:\n    x0 = 0\n" + "".join("elif sys.a == %d:\n    x%d = %d\n" % (i, i, i) for i in range(1, n)),
        "import re\nR = re.compile('%s')\n" % ("(" * n + ")" * n),
        "import re\nR = re.compile('%s')\n" % ("(a|" * n + "b" + ")" * n),
        "X = %s1%s\nY = %s%s\n" % ("(" * (n // 4), ")" * (n // 4), "[" * (n // 4), "]" * (n // 4)),
        "X = %s1%s\n" % ("f(" * (n // 4), ")" * (n // 4)),
        "x: %sint%s = 1\n" % ("List[" * (n // 4), "]" * (n // 4)),
        "X = %s\n" % " if a else ".join(["1"] * (n // 2)),
        "X = not %s1\nY = %s1\n" % ("not " * (n // 2), "-" * (n // 2)),
        "X = %s\n" % " and ".join("(a%d or b)" % i for i in range(n)),
        "X = f'%s'\n" % ("{a!r:>{w}}" * (n // 2)),
        "X = " + "lambda: " * (n // 4) + "1\n",
        "X = [" + "".join("[x for x in " for _ in range(n // 8)) + "y" + "]" * (n // 8) + "]\n",
    ]
    return rng.choice(shapes)


def import_chain(rng: random.Random, root: str, n: Optional[int] = None) -> Dict[str, str]:
    """modules that import one another in a chain: each is analysed on demand INSIDE the analysis of the previous one"""
    if n is None:
        n = rng.choice([rng.randint(95, 130)] * 3 + [rng.randint(20, 95), rng.randint(130, 170)])    # (a run costs ~ n^2: the sidebar)
    form = rng.randrange(3)
    body = rng.choice(["", "def g(a: int = 1, *b: str, **c) -> 'List[int]':\n    '''doc'''\n",
                       "class K(Base):\n    '''doc'''\n    x: int = 1\n    def m(self, a=(1, 2)) -> None: pass\n"])
    files = {}
    for i in range(n):
        imp = ["from {r}.ch{i:03d} import f\n", "from .ch{i:03d} import *\n", "from {r}.ch{i:03d} import f as f\n__all__ = ['f']\n"][form]
        files["%s/ch%03d.py" % (root, i)] = imp.format(r=root, i=i + 1) + body
    files["%s/ch%03d.py" % (root, n)] = "def f(a: int = 1, *b: str, **c) -> 'List[int]':\n    '''doc'''\n" + body
    return files


# module / package NAMES are part of a tree: bytes that are not UTF-8 (surrogate-escaped here), control characters,
# characters that mean something in a URL or in HTML, names of generated pages, names at the file system's length limit
ODD_NAMES = ["caf\udce9", "\udcff\udcfe", "a\nb", "a\rb", "a b", "a'b", 'a"b', "a<b>", "a&b", "a%41", "a#b", "a?b", "-x", "a.b", "a..b", ".hidden",
             "\u00e9", "a\tb", "a\\b", "a:b", "a*b", "class", "None", "1", " ", "a\x01b", "a\x7fb", "\u202e", "a;b", "a`b", "a{b}", "__init__.x",
             "index", "a\u2028b", "a\x0cb", "a\x85b", "m" * 249, "\u00e9" * 120, "A" * 128 + "b" * 121, "\U0001f600"]
# names that make a page file name longer than the 255 bytes a file system allows
LONG_NAMES = [
    "class " + "K" * 250 + ":\n    'doc'\n    def m(self): pass\n",
    "".join("    " * i + "class Level%02dOfTheNesting:\n" % i for i in range(14)) + "    " * 14 + "'doc'\n",
    "def " + "f" * 300 + "(" + "a" * 300 + "): pass\n" + "V" * 300 + " = 1\n'doc'\n",
    "class " + "\u00e9" * 126 + ":\n    'doc: 252 bytes in UTF-8, 126 characters'\n",
]
ODD_BODY = "class K:\n    'doc'\n    def m(self): pass\nX = 1\n'''doc'''\ndef f(): pass\n"

_T_NS = 'xmlns:t=\\"http://twistedmatrix.com/ns/twisted.web.template/0.1\\"'
_T_RENDER = '<span ' + _T_NS + ' t:render=\\"nosuch\\">x</span>'
_T_SLOT = '<t:slot ' + _T_NS + ' name=\\"nosuch\\"/>'
HOSTILE = [
    "\\x00", "\\x01\\x02\\x1f", "\\x7f\\x80\\x9f", "\\ufffe\\uffff", "\\U0010ffff", "<script>&amp;]]>-->", "%s%(x)s{}{0}",
    "\\N{ZERO WIDTH JOINER}\\u202e", "L{", "}}}{{{", "`unclosed", "*emph", "|sub", ".. bogus::", "::", ">>> x\\n... ", "\\r\\n\\r",
    "@param:", ":param", "Args:\\n  x", "-----\\n", "\\t\\t\\x0b\\x0c", "a" * 3000, "\\\\", "'''", "\\'\\\"",
    # markup that smuggles a twisted.web.template directive into the page (an unknown renderer / slot aborts the flattening)
    "M{\\\\text{" + _T_RENDER + "}}", "M{\\\\text{" + _T_SLOT + "}}", ":math:`\\\\text{" + _T_RENDER + "}`", _T_RENDER, _T_SLOT,
    "\\n.. math::\\n\\n   \\\\text{" + _T_SLOT + "}\\n", "\\n.. raw:: html\\n\\n   " + _T_RENDER + "\\n", "C{" + _T_RENDER + "}", "`" + _T_SLOT + "`",
    "<t:transparent " + _T_NS + " t:render=\\\"x\\\"/>", "<t:attr name=\\\"x\\\">y</t:attr>",
    # one token many times (type specifications of numpy / google docstrings are tokenised by regular expressions)
    "\\nParameters\\n----------\\nx : " + "`a <" * 250 + "\\n    d\\n", "\\nArgs:\\n    x (" + "`a <" * 250 + "): d\\n", "\\nArgs:\\n    x " + "(" * 300 + ": d\\n",
    "\\nReturns\\n-------\\n" + "`a <" * 250 + "\\n    d\\n", "L{" * 300, "`a`_ " * 200, "(" * 400, "[" * 400 + "]" * 400, "C{" * 150 + "}" * 150, "*a " * 300, "|a" * 300,
]


HOSTILE_T = ["M{\\\\text{" + _T_RENDER + "}}", "M{\\\\text{" + _T_SLOT + "}}", ":math:`\\\\text{" + _T_RENDER + "}`",
             "\\n.. math::\\n\\n   \\\\text{" + _T_SLOT + "}\\n", "\\n.. raw:: html\\n\\n   " + _T_RENDER + "\\n"]


def hostile_module(rng: random.Random) -> str:
    parts = []
    for _ in range(rng.randint(1, 5)):
        h = rng.choice(HOSTILE)
        form = rng.randrange(6)
        if form == 0:
            parts.append('"""doc %s"""\n' % h.replace('"""', "'''") if '"""' not in h else "'doc'\n")
        elif form == 1:
            parts.append("def f%d():\n    '''%s'''\n" % (rng.randrange(9), h.replace("'''", '"')))
        elif form == 2:
            parts.append("V%d = '%s'\n" % (rng.randrange(9), h.replace("'", "")))
        elif form == 3:
            parts.append("class C%d:\n    '''%s\n\n    @ivar a: %s\n    '''\n" % (rng.randrange(9), h.replace("'''", '"'), h.replace("'''", '"')))
        elif form == 4:
            parts.append("def g%d(a='%s', b=b'%s'): pass\n" % (rng.randrange(9), h.replace("'", ""), "x"))
        else:
            parts.append("A%d: '%s' = 1\n" % (rng.randrange(9), h.replace("'", "")))
    return "".join(parts)


def encoded_module(rng: random.Random) -> bytes:
    head = rng.choice([b"", b"", b"# -*- coding: latin-1 -*-\n", b"# coding: ascii\n", b"#!/usr/bin/python\n# vim: set fileencoding=utf-8 :\n",
                       b"# coding: nosuchcodec\n", b"\xef\xbb\xbf", b"\xef\xbb\xbf# coding: latin-1\n", b"# coding: utf-16\n",
                       b"\n\n# coding: latin-1\n", b"# coding: cp1252\n", b"# coding: utf-8-sig\n"])
    lines = [b'"""module doc"""', b"import os", b"def enc_f(a, b=1):", b'    """doc of f"""', b"    return a",
             b"class EncK:", b'    """doc of K"""', b"    attr = 'value'  # comment", b"X = 'text'"]
    payloads = [b"\xe9", b"caf\xe9", "café".encode("utf-8"), "naïve — ☃".encode("utf-8"), b"\xff\xfe", b"\x00", b"\xc3", b"\xc3\x28",
                b"\xed\xa0\x80", b"\xf0\x9f\x98\x80", b"\x80abc", b"\x0c", b"\x1a", b"\xa0"]
    for _ in range(rng.randint(0, 3)):
        i = rng.randrange(len(lines))
        pay = rng.choice(payloads)
        where = rng.randrange(4)
        if where == 0:
            lines[i] = lines[i] + b"  # " + pay
        elif where == 1:
            lines.insert(i, b"S%d = '" % rng.randrange(9) + pay + b"'")
        elif where == 2:
            lines.insert(i, b"# " + pay)
        else:
            lines[i] = lines[i].replace(b"doc", b"d" + pay + b"c")
    eol = rng.choice([b"\n", b"\n", b"\r\n", b"\r"])
    body = eol.join(lines) + rng.choice([eol, b"", b"\\"])
    if rng.random() < 0.08:
        return ("\ufeff" + body.decode("latin-1")).encode(rng.choice(["utf-16", "utf-16-le", "utf-32"]))
    return head + body


Q3 = "'" * 3


def good_source(docformat: str) -> str:
    """the planted well-formed module: `ok`, `Fine`, `Fine.m` — and, ahead of them, a type field for a name that is never
    assigned (set dynamically), in the module docstring and in the class docstring: pydoctor keeps such a name as a
    kind-less hidden attribute that is the FIRST entry of the contents (seeded C01-r5-2: an inventory writer that stops at
    the first hidden object loses every later sibling)"""
    field = {"epytext": "@type dyn: C{int}", "plaintext": "dyn is set dynamically"}.get(docformat, ":type dyn: int")
    return ("%sgood\n\n%s\n%s\nglobals().update(dyn=3)\ndef ok():\n    %sfine%s\nclass Fine:\n    %sFine.\n\n    %s\n    %s\n"
            "    def m(self): pass\n" % (Q3, field, Q3, Q3, Q3, Q3, field.replace("dyn", "dynattr"), Q3))


def catalogue_module(rng: random.Random, depth: int = 0) -> Tuple[str, int]:
    out = []
    used = 0
    if depth == 0 and rng.random() < 0.25:
        # a module docstring that types names the module never assigns, ahead of everything else
        out.append(rng.choice(["%sdoc\n\n@type dynmod: C{int}\n@type dynmod2: L{str}\n%s\n", "%sdoc\n\n:type dynmod: int\n%s\n"]) % (Q3, Q3))
    for _ in range(rng.randint(1, 6)):
        c = rng.choice(CONSTRUCTS)
        used += 1
        txt = c.format(n=rng.choice(["f", "g", "x", "y", "_p", "run"]) + str(rng.randrange(3)),
                       N=rng.choice(["C", "K", "Base", "_Q"]) + str(rng.randrange(3)))
        if depth < 2 and rng.random() < 0.3:
            hdr = rng.choice(["class W%d:\n", "if True:\n", "try:\n", "def w%d():\n", "for _ in ():\n", "with a:\n", "while 0:\n"])
            hdr = hdr % rng.randrange(5) if "%d" in hdr else hdr
            body = "".join("    " + l + "\n" for l in txt.splitlines())
            txt = hdr + body + ("except Exception:\n    pass\n" if hdr == "try:\n" else "")
        out.append(txt)
    return "".join(out), used


_SEEDS: List[Path] = []


def seed_files() -> List[Path]:
    global _SEEDS
    if not _SEEDS:
        fs = sorted((REPO / "pydoctor").glob("*.py")) + sorted((REPO / "pydoctor" / "test" / "testpackages").rglob("*.py"))
        import sysconfig
        std = Path(sysconfig.get_paths()["stdlib"])
        fs += [std / n for n in ("textwrap.py", "glob.py", "bisect.py", "colorsys.py", "contextlib.py", "abc.py", "enum.py", "dataclasses.py") if (std / n).exists()]
        _SEEDS = [f for f in fs if f.stat().st_size < 60000]
    return _SEEDS


def mutate(src: str, rng: random.Random) -> str:
    lines = src.split("\n")
    for _ in range(rng.randint(1, 4)):
        k = rng.randrange(8)
        i = rng.randrange(len(lines)) if lines else 0
        if k == 0 and lines:
            del lines[i]
        elif k == 1 and lines:
            lines.insert(i, lines[rng.randrange(len(lines))])
        elif k == 2 and lines:
            l = lines[i]
            j = rng.randrange(len(l) + 1)
            lines[i] = l[:j] + rng.choice(["(", ")", ":", "'", '"""', "\\", "\t", " ", "@", "*", "=", "\x00", "lambda", "class ", "def "]) + l[j:]
        elif k == 3 and lines:
            lines[i] = lines[i][rng.randrange(len(lines[i]) + 1):]
        elif k == 4 and lines:
            lines[i] = "    " + lines[i]
        elif k == 5 and lines:
            a, b = sorted((rng.randrange(len(lines)), rng.randrange(len(lines))))
            lines[a:b] = lines[a:b][::-1][:40] + lines[a:b][40:]
        elif k == 6 and lines:
            toks = lines[i].split(" ")
            rng.shuffle(toks)
            lines[i] = " ".join(toks)
        else:
            lines = lines[:rng.randrange(len(lines) + 1)]
    return "\n".join(lines)


def make_tree(rng: random.Random) -> Dict[str, Any]:
    """{files: {rel: bytes/str}, roots: [...], kind, bad: [rel paths that do not parse]}"""
    kind = rng.choice(["catalogue", "catalogue", "mutation", "mutation", "hostile", "mixed", "deep"])
    files: Dict[str, str] = {"pkg/__init__.py": "'''pkg'''\n"}
    nconstructs = 0
    if kind in ("catalogue", "mixed"):
        for i in range(rng.randint(1, 3)):
            src, n = catalogue_module(rng)
            nconstructs += n
            files["pkg/c%d.py" % i] = src
    if kind in ("mutation", "mixed"):
        seeds = seed_files()
        for i in range(rng.randint(1, 2)):
            f = rng.choice(seeds)
            files["pkg/m%d.py" % i] = mutate(f.read_text(encoding="utf-8", errors="replace"), rng)
    if kind in ("hostile", "mixed"):
        files["pkg/h.py"] = hostile_module(rng)
    if kind == "deep":
        # deeply nested legal code (recursive walks), or a long chain of modules that import one another
        if rng.random() < 0.8:
            for i in range(rng.randint(1, 3)):
                files["pkg/d%d.py" % i] = deep_source(rng)
        else:
            files.update(import_chain(rng, "pkg"))
    docformat = rng.choice(DOCFORMATS)
    files["pkg/good.py"] = good_source(docformat)      # in every tree
    if rng.random() < 0.2:
        files["pkg/sub/__init__.py"] = "from .. import *\nfrom ..good import ok\n__all__ = ['ok']\n"
        files["pkg/sub/deep.py"] = catalogue_module(rng)[0]
    if rng.random() < 0.15:
        files["pkg/__init__.py"] = mutate("'''pkg'''\nfrom .good import *\nfrom . import c0\n__all__ = ['ok', 'nosuch']\n", rng)
    # now and then the root is called like a summary page ("index": used to end in a self-referencing symlink)
    root = "pkg" if rng.random() < 0.93 else rng.choice(["index", "index", "classIndex", "nameIndex"])
    if root != "pkg":
        files = {root + k[3:]: v for k, v in files.items()}
    prepend = root == "pkg" and rng.random() < 0.12
    if prepend:
        files["pkg/pp.py"] = "from fake.pack import pkg\nfrom fake.pack.pkg import good as g2\nimport fake\nfrom fake import pack as pk\n"
    if root == "pkg" and rng.random() < 0.06:
        # a sub-package that re-exports one of its own ancestors (used to end in a RecursionError)
        files["pkg/anc/__init__.py"] = "x = 1\n"
        files["pkg/anc/deep/__init__.py"] = rng.choice(["from pkg import anc\n__all__ = ['anc']\n", "import pkg\nfrom pkg import anc as up\n__all__ = ['up']\n",
                                                           "from pkg.anc import deep\n__all__ = ['deep']\n"])
    if root == "pkg" and rng.random() < 0.06:
        # the package re-exports a whole SUB-PACKAGE from deeper in the tree while the modules of that sub-package
        # are still waiting to be analysed (they are renamed in the queue)
        files["pkg/impl/__init__.py"] = "x = 1\n"
        files["pkg/impl/tools/__init__.py"] = "from . import hammer\n"
        files["pkg/impl/tools/hammer.py"] = "def hit():\n    pass\n"
        files["pkg/impl/tools/saw.py"] = "from .hammer import hit\nclass Saw:\n    def cut(self):\n        pass\n"
        files["pkg/impl/tools/zz/__init__.py"] = "from ..saw import Saw\nclass Fine(Saw):\n    pass\n"
        files["pkg/__init__.py"] = rng.choice(["from pkg.impl import tools\n__all__ = ['tools']\n",
                                               "from .impl import tools as kit\n__all__ = ['kit']\n"])
    if root == "pkg" and rng.random() < 0.05:
        # a module assigns the __doc__ of a module of the tree that has not been analysed yet (81bb177)
        tgt = rng.choice(["zdoc", "adoc", "sub.zdoc"])
        files["pkg/" + tgt.replace(".", "/") + ".py"] = rng.choice(["def helper(): ...\n", "'own docstring'\nX = 1\n", "import pkg.massign\n"])
        if tgt.startswith("sub.") and "pkg/sub/__init__.py" not in files:
            files["pkg/sub/__init__.py"] = ""
        files["pkg/massign.py"] = rng.choice(["import pkg.%s\npkg.%s.__doc__ = 'Documentation provided from outside.'\n" % (tgt, tgt),
                                              "from pkg import %s as t\nt.__doc__ = 'x'\nt.__doc__ = 'y'\n" % tgt.split(".")[0],
                                              "import pkg.%s as t\nt.__doc__ = 'x'\nimport pkg\npkg.__doc__ = 'z'\n" % tgt])
    if root == "pkg" and rng.random() < 0.05:
        # a class that a re-export moves WHILE its body is visited (the body imports the module that re-exports it),
        # with definitions of the same name before and after the import (747aa07)
        deco = rng.choice(["@overload\n    ", "@overload\n    ", "", "@property\n    "])
        files["pkg/_shapes.py"] = ("from typing import overload\nclass Shape:\n    %sdef scale(self, factor: int) -> 'Shape': ...\n    "
                                   "%s\n    %sdef scale(self, factor: float) -> 'Shape': ...\n    def scale(self, factor): return self\n"
                                   "    class Inner:\n        def m(self): pass\n    x: int = 1\n"
                                   % (deco, rng.choice(["from pkg.api import describe", "import pkg.api", "from .api import *"]), deco))
        files["pkg/api.py"] = "from pkg._shapes import Shape\n__all__ = ['Shape', 'describe']\ndef describe(obj): ...\n"
    if rng.random() < 0.03:
        files[root + "/longname.py"] = rng.choice(LONG_NAMES)
    if rng.random() < 0.06:
        # module / package names that are unusual as file names
        nm = rng.choice(ODD_NAMES[:4] * 4 + ODD_NAMES)      # (the names that did abort a run: more often)
        if rng.random() < 0.7:
            files["%s/%s.py" % (root, nm)] = ODD_BODY
        else:
            files["%s/%s/__init__.py" % (root, nm)] = ODD_BODY
            files["%s/%s/inner.py" % (root, nm)] = "def f(): pass\n"
    if rng.random() < 0.05:
        # something that is not a readable regular file where a source file is expected
        what = rng.randrange(6)
        if what == 5:
            # an extension module that cannot be loaded: ignored unless --introspect-c-modules is given (an option, outside
            # the property's quantifier; with it an empty .so aborts the run with ImportError — reported to C18 / coordinator)
            files[root + "/native.so"] = ""
        elif what == 0:
            files[root + "/dsub/__init__.py"] = "#DIR"
            files[root + "/dsub/m.py"] = "x = 1\n"
        elif what == 1:
            files[root + "/loop.py"] = "#SYMLINK:loop.py"
        elif what == 2:
            files[root + "/dangling.py"] = "#SYMLINK:nosuch.py"
        elif what == 3:
            files[root + "/unreadable.py"] = "#MODE000:x = 1\n"
        else:
            files[root + "/lsub/__init__.py"] = "#SYMLINK:__init__.py"
            files[root + "/lsub/m.py"] = "x = 1\n"
    extra_roots: List[str] = []
    if root == "pkg" and not prepend and rng.random() < 0.08:
        # a second root: a top-level module that the package re-exports (used to abort the run)
        files["six.py"] = "def u():\n    pass\nclass SixK:\n    pass\n"
        files["pkg/compat.py"] = "import six\nfrom six import SixK\n"
        files["pkg/__init__.py"] = "from pkg.compat import six, SixK\nfrom . import compat\n__all__ = ['six', 'SixK', 'compat']\n"
        extra_roots.append("six.py")
    # now and then only some objects are written (--html-subject): their pages, their members' pages and the
    # inventory are still due
    subject = (root + "/good.py") in files and rng.random() < 0.25
    return {"files": files, "kind": kind, "docformat": docformat, "constructs": nconstructs,
            "werror": rng.random() < 0.3, "prepend": prepend, "root": root, "extra_roots": extra_roots, "subject": subject}


class _Timeout(Exception):
    pass


def _alarm(signum, frame):
    # where the run was when the alarm went off: the innermost pydoctor frame (a hang is reported with its place)
    at = ""
    f = frame
    while f is not None:
        fn = f.f_code.co_filename
        if "/pydoctor/" in fn and "/verif/" not in fn:
            at = "%s.%s" % (Path(fn).stem, f.f_code.co_name)
            break
        f = f.f_back
    raise _Timeout(at)


# ---- growth stream ("never ... a hang"): one token repeated k, 2k, 4k times at one place of a docstring ------------------
# A run that the 60 s alarm interrupts is a hang by decision.  A place whose cost grows with the CUBE of the input
# length is a hang too (a docstring of a few KB takes minutes) although small instances return: it is decided by the
# measured CPU time (process_time, so that a loaded machine does not matter) of the same tree at three sizes.
GROWTH_TOKENS = ["`a <", "(", "`", "a <", ":", "*", "[", "L{", "`a`_ ", "|a", "\\\\", " ,", "a, ", ":class:`", "<", "{", "  ", "- ",
                 "a", "::", ">>> ", "_", "__", "@", ".. ", "``", "a or ", "of ", "[a, ", "{a: ", "'", "\"", " : ", "(a, ", "~", "`a` "]
GROWTH_PLACES = [
    ("numpy", "param-type", "S.\n\nParameters\n----------\nx : %s\n    d\n"),
    ("numpy", "param-name", "S.\n\nParameters\n----------\n%s : int\n    d\n"),
    ("numpy", "returns", "S.\n\nReturns\n-------\n%s\n    d\n"),
    ("numpy", "see-also", "S.\n\nSee Also\n--------\n%s\n"),
    ("google", "arg-type", "S.\n\nArgs:\n    x (%s): d\n"),
    ("google", "arg-name", "S.\n\nArgs:\n    x %s: d\n"),
    ("google", "returns", "S.\n\nReturns:\n    %s: d\n"),
    ("google", "raises", "S.\n\nRaises:\n    %s: d\n"),
    ("epytext", "body", "%s"),
    ("epytext", "type-field", "S.\n\n@type x: %s\n@param x: d\n"),
    ("restructuredtext", "body", "%s"),
    ("restructuredtext", "type-field", "S.\n\n:type x: %s\n:param x: d\n"),
    ("restructuredtext", "param-field", "S.\n\n:param %s x: d\n"),
    ("plaintext", "body", "%s"),
    ("epytext", "constant", None),        # X = re.compile('<token>*k') / X = '<token>*k' : the colouriser
    ("epytext", "annotation-string", None),
]
GROWTH_SIZES = (200, 400, 800)
GROWTH_KNOWN = [("numpy", "param-type", "`a <"), ("google", "arg-type", "`a <"), ("google", "arg-name", "("), ("numpy", "returns", "`a <"),
                ("google", "raises", "`a <")]


def growth_tree(fmt: str, place: str, token: str, k: int) -> Dict[str, Any]:
    rep = token * k
    tpl = next(t for f, p, t in GROWTH_PLACES if f == fmt and p == place)
    if place == "constant":
        src = "import re\nX = %r\nY = re.compile(%r)\n" % (rep, rep)
    elif place == "annotation-string":
        src = "X: %r = 1\ndef f(a: %r): pass\n" % (rep, rep)
    else:
        src = "def f(x):\n    %r\n" % (tpl % rep)
    return {"files": {"pkg/__init__.py": "'pkg'\n", "pkg/g.py": src}, "kind": "growth", "docformat": fmt, "constructs": 0,
            "werror": False, "prepend": False, "root": "pkg", "extra_roots": []}


def run_growth(case: Tuple[str, str, str]) -> Dict[str, Any]:
    """worker: CPU seconds (process_time: a loaded machine does not matter) at sizes 0, 0 (warm-up, base line), k, 2k, 4k
    in ONE process.  Docstring places: the real docstring parser of the docformat on the docstring alone — the run costs
    at least that (the rest of a run adds a large LINEAR term, one docutils call per token, which would hide the cubic one
    at sizes that are affordable here) — plus one real driver.main run at size k for crashes; code places: driver.main."""
    import time as _time
    fmt, place, token = case
    cpu: List[float] = []
    outs: List[str] = []
    r: Dict[str, Any] = {}
    direct = place not in ("constant", "annotation-string")
    if direct:
        r = run_tree(growth_tree(fmt, place, token, GROWTH_SIZES[0]))
        if not str(r["outcome"]).startswith("exit"):
            return {"cpu": [], "outcomes": [str(r["outcome"])], "detail": r.get("detail", ""), "tail": r.get("tail", ""), "at": GROWTH_SIZES[0]}
        from pydoctor.epydoc.markup import get_parser_by_name
        tpl = next(t for f, p, t in GROWTH_PLACES if f == fmt and p == place)
        parser = get_parser_by_name(fmt, None)
    for k in (0, 0) + GROWTH_SIZES:
        if direct:
            doc = tpl % (token * k)
            signal.signal(signal.SIGALRM, _alarm)
            signal.alarm(120)
            t0 = _time.process_time()
            try:
                parser(doc, [])
                outs.append("exit:parsed")
            except _Timeout as e:
                outs.append("hang:" + str(e))
            except Exception as e:     # a parser may refuse a docstring (parse_docstring falls back to plain text)
                outs.append("exit:raised:" + type(e).__name__)
            finally:
                signal.alarm(0)
            cpu.append(_time.process_time() - t0)
        else:
            r = run_tree(growth_tree(fmt, place, token, k))
            cpu.append(float(r.get("cpu") or 0.0))
            outs.append(str(r["outcome"]))
        if not outs[-1].startswith("exit"):
            return {"cpu": cpu, "outcomes": outs, "detail": r.get("detail", ""), "tail": r.get("tail", ""), "at": k}
        if cpu[-1] > 25.0:
            break
    return {"cpu": cpu, "outcomes": outs, "detail": r.get("detail", ""), "tail": r.get("tail", ""), "at": k}


def judge_growth(ctx: Ctx, case: Tuple[str, str, str], r: Dict[str, Any]) -> None:
    import math
    fmt, place, token = case
    inp = {"growth": list(case), "sizes": list(GROWTH_SIZES), "files": growth_tree(fmt, place, token, GROWTH_SIZES[0])["files"], "docformat": fmt}
    last = r["outcomes"][-1]
    ctx.count("growth-cases")
    if not last.startswith("exit"):
        if last.startswith("hang"):
            ctx.fail("hang:%s:token=%s" % (fmt, token), inp, f"{place}: token {token!r} x {r.get('at')}: the alarm went off ({last})")
        elif last.startswith("harness"):
            ctx.count("harness-trouble")
        else:
            inp["files"] = growth_tree(fmt, place, token, int(r.get("at") or GROWTH_SIZES[0]))["files"]
            ctx.fail(last if not last.startswith("SystemExit") else "aborts:" + last, inp, f"driver.main: {last} {r.get('detail', '')} | {r.get('tail', '')[-200:]}")
        return
    if len(r["cpu"]) < 4:
        return
    base = r["cpu"][1]
    net = [max(t - base, 0.002) for t in r["cpu"][2:]]
    expo = math.log2(net[-1] / net[-2])
    if net[-1] >= 1.0 and expo >= 2.5:
        k = GROWTH_SIZES[len(net) - 1]
        ctx.count("growth-superlinear")
        ctx.fail("hang:superlinear:%s:token=%s" % (fmt, token), inp,
                 f"{fmt} docstring, {place}: token {token!r} repeated {GROWTH_SIZES[:len(net)]} times costs " + " / ".join("%.2f" % x for x in net) +
                 f" CPU s in the docstring parser alone (exponent {expo:.1f} over the last doubling): cubic or worse — {k * 4} repeats "
                 f"(a docstring of {len(token) * k * 4} characters) take about {net[-1] * 64:.0f} s")


def run_tree(tree: Dict[str, Any]) -> Dict[str, Any]:
    """worker: run the real driver.main on the tree; never raises"""
    import ast as _ast
    import warnings
    warnings.simplefilter("ignore")
    tmp = tempfile.mkdtemp(prefix="c01-")
    res: Dict[str, Any] = {"outcome": None}
    try:
        bad = []
        for rel, src in tree["files"].items():
            # file NAMES are part of a tree: `rel` may hold surrogate-escaped bytes (a name that is not UTF-8),
            # newlines, very long components ...; a name the file system refuses is harness trouble, not a verdict
            p = Path(tmp, "src", rel)
            p.parent.mkdir(parents=True, exist_ok=True)
            if src == "#DIR":
                # a DIRECTORY where a source file is expected (pkg/sub/__init__.py/): reading it raises
                # IsADirectoryError — "a file that does not parse", it has to be reported by name
                p.mkdir()
                bad.append(rel)
                continue
            if src.startswith("#SYMLINK:"):
                os.symlink(src[9:], p)
                if not p.is_file() and p.name != "__init__.py":
                    bad.append(rel)      # (a directory whose __init__.py does not exist is not a package: nothing to report)
                continue
            mode = None
            if src.startswith("#MODE000:"):
                mode, src = 0, src[9:]
            data = bytes.fromhex(src[5:]) if src.startswith("#HEX:") else src.encode("utf-8", errors="surrogatepass")
            p.write_bytes(data)
            if mode is not None:
                os.chmod(p, mode)
                if os.geteuid() != 0:
                    bad.append(rel)      # unreadable: has to be reported by name (root reads it anyway)
                    continue
            # "does not parse" as a FILE: a source file is read with a final newline (the interpreter's file
            # reader and pydoctor's parseFile both supply one), so 'backslash newline' alone is an empty module
            def parses(b):
                try:
                    _ast.parse(b)
                    return True
                except Exception:
                    return False
            if not parses(data) and not parses(data + b"\n"):
                bad.append(rel)
        res["bad"] = bad
        out = Path(tmp, "out")
        args = ["--html-output", str(out), "--docformat", tree["docformat"], "--project-name", "p", "--quiet",
                "--make-html", "--make-intersphinx", str(Path(tmp, "src", tree.get("root", "pkg")))]
        args += [str(Path(tmp, "src", x)) for x in tree.get("extra_roots") or []]
        pre0 = "fake.pack." if tree.get("prepend") else ""
        rt0 = tree.get("root", "pkg")
        subject_on = bool(tree.get("subject")) and (rt0 + "/good.py") not in bad and (rt0 + "/__init__.py") not in bad
        if subject_on:
            args[0:0] = ["--html-subject", pre0 + rt0 + ".good"]
        if tree.get("werror"):
            args.insert(0, "-W")
        if tree.get("prepend"):
            args[0:0] = ["--prepend-package", "fake.pack"]
        buf = io.StringIO()
        # a hang: 60 s of CPU time of this process (a loaded machine does not turn a slow run into a "hang"), or 300 s on
        # the clock (a run that waits for something)
        signal.signal(signal.SIGALRM, _alarm)
        signal.signal(signal.SIGVTALRM, _alarm)
        signal.alarm(300)
        signal.setitimer(signal.ITIMER_VIRTUAL, 60)
        import time as _time
        t0 = None
        try:
            from pydoctor import driver
            t0 = _time.process_time()
            with contextlib.redirect_stdout(buf), contextlib.redirect_stderr(buf):
                code = driver.main(args)
            res["outcome"] = "exit:%s" % code
        except _Timeout as e:
            res["outcome"] = "hang" + (":" + str(e) if str(e) else "")
        except SystemExit as e:
            res["outcome"] = "SystemExit:%s" % e.code
        except RecursionError as e:
            res["outcome"] = "crash:RecursionError:" + where(e)
        except BaseException as e:
            root = e
            # twisted wraps what went wrong while flattening: classify by the underlying exception
            if type(e).__name__ == "FlattenerError" and e.args and isinstance(e.args[0], BaseException):
                root = e.args[0]
            if isinstance(root, _Timeout):      # the alarm went off inside the flattener
                res["outcome"] = "hang" + (":" + str(root) if str(root) else "")
            else:
                import errno as _errno
                cls = type(root).__name__
                if cls == "OSError" and getattr(root, "errno", None):
                    cls += "[%s]" % _errno.errorcode.get(root.errno, root.errno)     # ENAMETOOLONG, ELOOP ...
                res["outcome"] = "crash:%s:%s%s" % (cls, where(e), where_root(root) if root is not e else "")
                res["detail"] = (str(root) or "")[:300]
        finally:
            signal.alarm(0)
            signal.setitimer(signal.ITIMER_VIRTUAL, 0)
            if t0 is not None:
                res["cpu"] = _time.process_time() - t0
        text = buf.getvalue()
        res["mentions"] = {rel: (Path(rel).name in text or rel in text) for rel in bad}
        pre = "fake.pack." if tree.get("prepend") else ""
        res["written"] = {n: (out / n).exists() for n in ("index.html", "objects.inv", "all-documents.html", "searchindex.json", "pkg.html")}
        rt = tree.get("root", "pkg")
        if subject_on:
            # only the subject is written: its page, the pages of its members, and an inventory that lists them
            res["written"] = {"objects.inv": (out / "objects.inv").exists()}
            res["subject"] = {n: (out / n).exists() for n in (pre + rt + ".good.html", pre + rt + ".good.Fine.html")}
            try:
                import zlib
                raw = (out / "objects.inv").read_bytes()
                body = zlib.decompress(raw.split(b"\n", 4)[4]).decode("utf-8", "replace")
                res["subject_inv"] = all((pre + rt + ".good" + x + " ") in body for x in ("", ".Fine", ".Fine.m"))   # `ok` may have been moved by a re-export
            except Exception as e:
                res["subject_inv"] = "unreadable:" + type(e).__name__
        if not subject_on and str(res["outcome"]).startswith("exit"):
            res.update(output_content(tree, bad, out, pre))
        res["good_page"] = (out / (pre + rt + ".good.html")).exists() if rt + "/good.py" in tree["files"] and rt + "/good.py" not in bad else None
        res["pkg_ok"] = rt + "/__init__.py" not in bad
        res["tail"] = text[-400:]
    except BaseException as e:     # harness trouble
        res["outcome"] = "harness:%s:%s" % (type(e).__name__, e)
    finally:
        shutil.rmtree(tmp, ignore_errors=True)
    return res


def expected_modules(tree: Dict[str, Any], bad: List[str]) -> List[str]:
    """dotted names (below the roots, without --prepend-package) of the modules of the tree that parse and that pydoctor
    documents under a predictable name: every path component an identifier, every directory above it a package"""
    import re
    files = tree["files"]
    out = []
    # a package that re-exports a module under ANOTHER name (`from .impl import tools as kit; __all__ = ['kit']`) renames it
    renamed = set()
    for rel, src in files.items():
        if rel.endswith("__init__.py") and "__all__" in src:
            for orig, alias in re.findall(r"import\s+(\w+)\s+as\s+(\w+)", src):
                if orig != alias and re.search(r"__all__.*['\"]%s['\"]" % re.escape(alias), src):
                    renamed.add(orig)
    for rel, src in files.items():
        if not rel.endswith(".py") or rel in bad or (src.startswith("#") and not src.startswith("#HEX:")):
            continue
        if rel[:-3].split("/")[-1] in renamed or (rel.endswith("/__init__.py") and rel.split("/")[-2] in renamed):
            continue
        parts = rel[:-3].split("/")
        dirs = parts[:-1]
        if parts[-1] == "__init__":
            parts = dirs
        if not parts or not all(x.isidentifier() and x.isascii() for x in parts):
            continue
        ok = True
        for i in range(1, len(dirs) + 1):
            init = "/".join(dirs[:i]) + "/__init__.py"
            if init not in files or files[init].startswith("#SYMLINK:"):
                ok = False
        if ok:
            out.append(".".join(parts))
    return out


def output_content(tree: Dict[str, Any], bad: List[str], out: Path, pre: str) -> Dict[str, Any]:
    """C01 promises that the inventory and the search index are WRITTEN: at the level this property can speak about (C17
    owns the format), every module of the tree that parses and the members of the planted good.py have an entry in
    objects.inv and a document in searchindex.json.  A re-export may move an object: a module / member is looked up by its
    own name first, then by its last component among the entries of its kind."""
    import re
    import zlib
    res: Dict[str, Any] = {}
    try:
        raw = (out / "objects.inv").read_bytes()
        inv = {}
        for line in zlib.decompress(raw.split(b"\n", 4)[4]).decode("utf-8", "replace").splitlines():
            m = re.match(r"(.+?) (py:\w+) -?\d+ (\S+) (.*)$", line)
            if m:
                inv[m.group(1)] = m.group(2)
        search = set(re.findall(r'"name/([^"]*)"', (out / "searchindex.json").read_text(encoding="utf-8", errors="replace")))
    except Exception as e:
        return {"content_unreadable": type(e).__name__}

    def has_inv(full: str, kinds: Tuple[str, ...]) -> bool:
        last = "." + full.rsplit(".", 1)[-1]
        return inv.get(full) in kinds or any(k.endswith(last) and v in kinds for k, v in inv.items())

    def has_doc(full: str) -> bool:
        last = "." + full.rsplit(".", 1)[-1]
        return full in search or any(k.endswith(last) for k in search)
    inv_missing, doc_missing = [], []
    for name in expected_modules(tree, bad):
        full = pre + name
        if not has_inv(full, ("py:module",)):
            inv_missing.append("module:" + full)
        if not has_doc(full):
            doc_missing.append("module:" + full)
    rt = tree.get("root", "pkg")
    if rt + "/good.py" in tree["files"] and rt + "/good.py" not in bad and rt + "/__init__.py" not in bad:
        for member, kinds in ((".good.ok", ("py:function",)), (".good.Fine", ("py:class",)), (".good.Fine.m", ("py:method", "py:function"))):
            full = pre + rt + member
            if not has_inv(full, kinds):
                inv_missing.append("member:" + full)
            if not has_doc(full):
                doc_missing.append("member:" + full)
    res["inv_missing"], res["doc_missing"] = inv_missing, doc_missing
    return res


def real_corpus(quick: bool) -> List[Tuple[str, List[str]]]:
    """real-world packages, as they are on disk: pydoctor's test packages, standard-library packages, pydoctor itself"""
    import sysconfig
    std = Path(sysconfig.get_paths()["stdlib"])
    tp = REPO / "pydoctor" / "test" / "testpackages"
    out: List[Tuple[str, List[str]]] = []
    for d in sorted(tp.iterdir()):
        if d.is_dir() and (d / "__init__.py").exists():
            out.append(("testpackage:" + d.name, [str(d)]))
    names = ["json", "wsgiref", "tomllib"] if quick else [
        "json", "wsgiref", "tomllib", "logging", "email", "unittest", "xml", "importlib", "concurrent", "urllib", "http", "html",
        "collections", "sqlite3", "zoneinfo", "dbm", "curses", "ctypes", "multiprocessing", "asyncio", "re", "pathlib", "tkinter"]
    for n in names:
        if (std / n).is_dir() and (std / n / "__init__.py").exists():
            out.append(("stdlib:" + n, [str(std / n)]))
    for n in (["textwrap.py"] if quick else ["textwrap.py", "typing.py", "enum.py", "dataclasses.py", "argparse.py", "inspect.py"]):
        if (std / n).exists():
            out.append(("stdlib:" + n, [str(std / n)]))
    if not quick:
        out.append(("stdlib:json+logging", [str(std / "json"), str(std / "logging")]))
        out.append(("pydoctor", [str(REPO / "pydoctor")]))
    return out


def run_real(job: Tuple[str, List[str], str]) -> Dict[str, Any]:
    """worker: the real driver.main on real packages; never raises"""
    import warnings
    warnings.simplefilter("ignore")
    label, paths, docformat = job
    tmp = tempfile.mkdtemp(prefix="c01r-")
    res: Dict[str, Any] = {"outcome": None, "label": label, "docformat": docformat}
    try:
        out = Path(tmp, "out")
        args = ["--html-output", str(out), "--docformat", docformat, "--project-name", "p", "--quiet", "--quiet",
                "--make-html", "--make-intersphinx"] + paths
        buf = io.StringIO()
        signal.signal(signal.SIGALRM, _alarm)
        signal.alarm(600)
        try:
            from pydoctor import driver
            cwd = os.getcwd()
            os.chdir(tmp)            # no stray setup.cfg / pyproject.toml is picked up
            try:
                with contextlib.redirect_stdout(buf), contextlib.redirect_stderr(buf):
                    code = driver.main(args)
            finally:
                os.chdir(cwd)
            res["outcome"] = "exit:%s" % code
        except _Timeout:
            res["outcome"] = "hang"
        except SystemExit as e:
            res["outcome"] = "SystemExit:%s" % e.code
        except RecursionError as e:
            res["outcome"] = "crash:RecursionError:" + where(e)
        except BaseException as e:
            root = e
            if type(e).__name__ == "FlattenerError" and e.args and isinstance(e.args[0], BaseException):
                root = e.args[0]
            res["outcome"] = "crash:%s:%s" % (type(root).__name__, where(e))
            res["detail"] = (str(root) or "")[:300]
        finally:
            signal.alarm(0)
        res["written"] = {n: (out / n).exists() for n in ("index.html", "objects.inv", "all-documents.html", "searchindex.json")}
        res["pages"] = len(list(out.glob("*.html"))) if out.exists() else 0
        res["tail"] = buf.getvalue()[-300:]
    except BaseException as e:
        res["outcome"] = "harness:%s:%s" % (type(e).__name__, e)
    finally:
        shutil.rmtree(tmp, ignore_errors=True)
    return res


def where(e: BaseException) -> str:
    tb = traceback.extract_tb(e.__traceback__)
    frames = [f for f in tb if "/pydoctor/" in f.filename and "/verif/" not in f.filename]
    f = frames[-1] if frames else (tb[-1] if tb else None)
    if f is None:
        return "?"
    return "%s.%s" % (Path(f.filename).stem, f.name)


def where_root(root: BaseException) -> str:
    """for an exception that twisted's flattener wrapped: which pydoctor code it came from — ':file.function' of the
    innermost pydoctor frame of the ROOT traceback; for a RecursionError ':file' of the pydoctor module that recurses (the
    module most of the frames are in: which function meets the limit is an accident); '' when no pydoctor frame is in it"""
    tb = traceback.extract_tb(root.__traceback__)
    frames = [f for f in tb if "/pydoctor/" in f.filename and "/verif/" not in f.filename]
    if not frames:
        return ""
    if isinstance(root, RecursionError):
        from collections import Counter
        return ":" + Counter(Path(f.filename).stem for f in frames).most_common(1)[0][0]
    return ":%s.%s" % (Path(frames[-1].filename).stem, frames[-1].name)


def judge(ctx: Ctx, tree: Dict[str, Any], r: Dict[str, Any]) -> None:
    o = r["outcome"]
    inp = {"files": tree["files"], "docformat": tree["docformat"], "werror": tree.get("werror"), "prepend": tree.get("prepend"),
           "root": tree.get("root", "pkg"), "extra_roots": tree.get("extra_roots"), "subject": tree.get("subject")}
    if o is None or o.startswith("harness"):
        ctx.count("harness-trouble")
        ctx.notes.append("harness: " + str(o)[:200]) if len(ctx.notes) < 3 else None
        return
    if o.startswith("crash") or o.startswith("hang") or o.startswith("SystemExit"):
        sig = o if not o.startswith("SystemExit") else "aborts:" + o
        if (tree["kind"] == "surrogate" and "UnicodeEncodeError" in o and "surrogates not allowed" in r.get("detail", "")
                and not any(0xdc80 <= ord(c) <= 0xdcff for k in tree["files"] for c in k)):
            # (a tree of this stream may also hold a file NAME that is not UTF-8: that is the other, known, defect)
            sig = "lone-surrogate:" + sig
        ctx.fail(sig, inp, f"driver.main: {o} {r.get('detail', '')} | {r.get('tail', '')[-200:]}")
        return
    code = o.split(":")[1]
    if code not in ("0", "2", "3"):
        ctx.fail("exit-status:" + code, inp, "undocumented exit status " + code)
    for n, ok in r["written"].items():
        if not ok and n != "pkg.html":
            ctx.fail("not-written:" + n, inp, f"{n} missing after a run that returned {code}")
    for rel, ok in r["mentions"].items():
        if not ok:
            ctx.fail("unparsable-file-not-named", inp, f"{rel} does not parse but no message names it")
    for n, ok in (r.get("subject") or {}).items():
        if not ok:
            ctx.fail("subject-page-not-written", inp, f"--html-subject {inp['root']}.good: {n} missing after a run that returned {code}")
    if r.get("subject_inv") not in (None, True):
        ctx.fail("subject-missing-from-inventory", inp, f"--html-subject {inp['root']}.good: objects.inv does not list the subject and its members ({r.get('subject_inv')})")
    if "subject" in r:
        ctx.count("runs:--html-subject")
    if r.get("content_unreadable"):
        ctx.fail("inventory-or-search-index-unreadable", inp, f"objects.inv / searchindex.json cannot be read back ({r['content_unreadable']})")
    for what in r.get("inv_missing") or []:
        ctx.fail("inventory-entry-missing:" + what.split(":")[0], inp, f"objects.inv has no entry for {what} after a run that returned {code}")
    for what in r.get("doc_missing") or []:
        ctx.fail("search-document-missing:" + what.split(":")[0], inp, f"searchindex.json has no document for {what} after a run that returned {code}")
    if "inv_missing" in r:
        ctx.count("runs:inventory-and-search-content-checked")
    if r.get("good_page") is False and r.get("pkg_ok"):
        ctx.fail("good-file-not-documented", inp, "pkg/good.py parses but pkg.good.html was not written")


def corpus_trees() -> List[Dict[str, Any]]:
    """fixed trees that run first on every run: one per class of past failure (defects repaired, seeded changes)"""
    BROKEN = "def broken(:\n    pass\n"
    GOOD = good_source("epytext")
    trees = []

    def tree(files, **kw):
        d = {"files": files, "kind": "corpus", "docformat": kw.pop("docformat", "epytext"), "constructs": 0, "werror": False,
             "prepend": False, "root": "pkg", "extra_roots": []}
        d.update(kw)
        trees.append(d)
    # an unparsable module first reached through an import of a module that is still being analysed (every import form)
    for imp in ("from .util import helper", "from pkg.util import helper", "from . import util", "from .util import *", "import pkg.util",
                "from pkg import util as u"):
        tree({"pkg/__init__.py": imp + "\n", "pkg/util.py": BROKEN, "pkg/good.py": GOOD})
        tree({"pkg/__init__.py": "", "pkg/a.py": imp.replace("from .", "from pkg.").replace("from pkg. import", "from pkg import") + "\n",
              "pkg/util.py": BROKEN, "pkg/good.py": GOOD})
        tree({"pkg/__init__.py": "", "pkg/zz.py": imp.replace("from .", "from pkg.").replace("from pkg. import", "from pkg import") + "\n",
              "pkg/util.py": BROKEN, "pkg/good.py": GOOD, "pkg/b.py": "from pkg.util import other\nfrom pkg.zz import helper\n"})
    # only broken files / a broken package __init__ / broken next to a sub-package
    tree({"pkg/__init__.py": BROKEN, "pkg/good.py": GOOD})
    tree({"pkg/__init__.py": "", "pkg/sub/__init__.py": BROKEN, "pkg/sub/m.py": GOOD, "pkg/good.py": GOOD})
    # every subclass of a class is invisible (superseded definition)
    tree({"pkg/__init__.py": "", "pkg/good.py": GOOD,
          "pkg/h.py": "import sys\nclass Base:\n    def m(self): pass\nclass Impl(Base):\n    def m(self): pass\nif sys.platform == 'win32':\n    class Impl:\n        pass\n"})
    # an annotation that is an empty string / several statements
    tree({"pkg/__init__.py": "", "pkg/good.py": GOOD, "pkg/ann.py": "a: '' = 1\nb: 'x; y' = 2\ndef f(p: '', q: ' ') -> '': pass\n"})
    # undecodable bytes after the first two lines; a cookie that lies
    tree({"pkg/__init__.py": "", "pkg/good.py": GOOD, "pkg/enc.py": "#HEX:" + b"'doc'\nimport os\nX = 'caf\xe9'\n".hex()})
    tree({"pkg/__init__.py": "", "pkg/good.py": GOOD, "pkg/enc.py": "#HEX:" + "# coding: ascii\nX = 'café'\n".encode("utf-8").hex()})
    # ---- hunter round (2026-09-28) ----
    base = {"pkg/__init__.py": "'pkg'\n", "pkg/good.py": GOOD}

    def mod(src, name="pkg/m.py", **kw):
        d = dict(base)
        d[name] = src
        tree(d, **kw)
    # 1297c95: string annotations the parser refuses with ValueError / MemoryError / RecursionError (the catalogue entries)
    for c in CONSTRUCTS:
        if "ud800" in c or "-" * 10000 in c or "int | int | int" in c:
            mod(c.format(n="f0", N="C0"))
    # 81bb177: __doc__ of a module that has not been analysed yet
    tree({**base, "pkg/a.py": "import pkg.b\npkg.b.__doc__ = 'Documentation of b, provided by a.'\n", "pkg/b.py": "def helper(): ...\n"})
    # 747aa07: a class moved by a re-export while its body is visited, @overload before and after
    tree({**base, "pkg/_shapes.py": "from typing import overload\nclass Shape:\n    @overload\n    def scale(self, factor: int) -> 'Shape': ...\n"
          "    from pkg.api import describe\n    @overload\n    def scale(self, factor: float) -> 'Shape': ...\n    def scale(self, factor): return self\n",
          "pkg/api.py": "from pkg._shapes import Shape\n__all__ = ['Shape', 'describe']\ndef describe(obj): ...\n"})
    # e584e35: legal code nested deeper than the recursive walks can follow; a long chain of imports
    mod("TOTAL = " + " + ".join(["1"] * 400) + "\n")
    mod("x = a" + ".b" * 400 + "\n")
    mod("def f(x):\n    if x == 0:\n        return 0\n" + "".join("    elif x == %d:\n        return %d\n" % (i, i) for i in range(1, 400)))
    tree({**base, **import_chain(random.Random(0), "pkg", 130)})
    # ... and the band around the threshold, where the analysis just goes through and the recursion limit is met later
    # (rendering: the colouriser) or in the middle of a definition
    for n in range(310, 334):
        s_plus, s_or = " + ".join(["1"] * n), " | ".join(["int"] * n)
        mod("X = %s\n" % s_plus)
        mod("x: %s = 1\n" % s_or)
        mod("def f(a) -> %s: pass\n" % s_or)
        mod("class C(d(%s)): pass\n" % s_plus)
    mod("import re\nR = re.compile('%s')\nS = re.compile('%s')\n" % ("(" * 600, "(a, " * 600))
    # page file names beyond 255 bytes
    mod("class %s:\n    'doc'\n" % ("K" * 250))
    mod("".join("    " * i + "class Level%02dOfTheNesting:\n" % i for i in range(14)) + "    " * 14 + "'doc'\n")
    mod("x = 1\n", name="pkg/%s.py" % ("m" * 249))
    # file names: not UTF-8, a newline
    mod(ODD_BODY, name="pkg/caf\udce9.py")
    mod(ODD_BODY, name="pkg/caf\udce9/__init__.py")
    mod(ODD_BODY, name="pkg/a\nb.py")
    # an integer literal beyond the str() limit inside a base-class expression
    mod("class C(f(0x" + "f" * 4000 + ")): pass\n")
    # not a readable regular file where a source file is expected
    tree({**base, "pkg/sub/__init__.py": "#DIR", "pkg/sub/m.py": "x = 1\n"})
    tree({**base, "pkg/loop.py": "#SYMLINK:loop.py"})
    tree({**base, "pkg/dangling.py": "#SYMLINK:nosuch.py"})
    tree({**base, "pkg/unreadable.py": "#MODE000:x = 1\n"})
    # twisted template directives smuggled in through markup
    for h, fmt in ((HOSTILE_T[0], "epytext"), (HOSTILE_T[1], "epytext"), (HOSTILE_T[2], "restructuredtext"), (HOSTILE_T[3], "restructuredtext"),
                   (HOSTILE_T[4], "restructuredtext")):
        mod("def f():\n    '''%s'''\n" % h, docformat=fmt)
    return trees


def run(ctx: Ctx) -> None:
    import multiprocessing as mp
    n = 850 if ctx.quick else 12000
    trees = corpus_trees() + [make_tree(ctx.rng) for _ in range(n)]
    # separate stream: lone surrogates in string literals (outside every Lean model)
    for i in range(8 if ctx.quick else 60):
        t = make_tree(ctx.rng)
        t["files"][t["root"] + "/sur.py"] = ctx.rng.choice([
            "def f():\n    '''lone \\udc80 surrogate'''\n", "V = '\\ud800'\n'''doc'''\n",
            "class C:\n    '''x\n\n    @ivar a: \\udfff\n    '''\n", "def g(a='\\udc00'): pass\n",
            "def f():\n    pass\nf.__doc__ = 'lone \\udc80 surrogate'\n", "class K:\n    pass\nK.__doc__ = 'x \\udfff'\n"])
        t["surrogate_form"] = t["files"][t["root"] + "/sur.py"][:12]
        t["kind"] = "surrogate"
        trees.append(t)
    # separate stream: source files as BYTES — encodings, cookies, byte-order marks, undecodable bytes at
    # various lines, NUL bytes, unusual line endings (a file the tool cannot decode is an unparsable file)
    for i in range(40 if ctx.quick else 400):
        t = make_tree(ctx.rng)
        t["files"][t["root"] + "/enc.py"] = "#HEX:" + encoded_module(ctx.rng).hex()
        t["kind"] = "encoding"
        trees.append(t)
    with mp.get_context("fork").Pool(min(16, os.cpu_count() or 4)) as pool:
        results = pool.map(run_tree, trees, chunksize=4)
    for t, r in zip(trees, results):
        nontriv = bool(r.get("bad")) or t["kind"] in ("hostile", "mixed", "surrogate", "encoding", "corpus") or t["constructs"] >= 3
        ctx.case(repr(sorted(t["files"].items())) + t["docformat"], nontriv,
                 {"kind": t["kind"], "docformat": t["docformat"], "files": {k: v[:200] for k, v in list(t["files"].items())[:3]},
                  "outcome": r["outcome"], "unparsable": r.get("bad")} if nontriv and len(ctx.samples) < 3 else None)
        ctx.count("kind:" + t["kind"])
        if t.get("prepend"):
            ctx.count("option:prepend-package")
        if t.get("extra_roots"):
            ctx.count("two-roots:root-module-reexported")
        for k, v in t["files"].items():
            if v == "#DIR" or v.startswith("#SYMLINK:") or v.startswith("#MODE000:"):
                ctx.count("shape:not-a-readable-file")
            elif k.endswith("/massign.py"):
                ctx.count("shape:module-doc-assigned")
            elif k.endswith("/_shapes.py"):
                ctx.count("shape:class-moved-while-visited")
            elif k.endswith("/ch000.py"):
                ctx.count("shape:import-chain")
            elif k.endswith("/longname.py"):
                ctx.count("shape:long-names")
            elif any(ord(c) > 0xdc00 and ord(c) < 0xdd00 for c in k) or "\n" in k:
                ctx.count("shape:odd-file-name:undecodable-or-newline")
        ctx.count("docformat:" + t["docformat"])
        ctx.count("outcome:" + str(r["outcome"]).split(":")[0] + (":" + str(r["outcome"]).split(":")[1] if str(r["outcome"]).startswith("exit") else ""))
        ctx.count("unparsable-files", len(r.get("bad") or []))
        judge(ctx, t, r)
    # growth stream: one token many times at one place — the known cubic places first, then random (place, token) pairs
    gcases = list(GROWTH_KNOWN)
    allg = [(f, p, t) for f, p, _ in GROWTH_PLACES for t in GROWTH_TOKENS if (f, p, t) not in gcases]
    gcases += ctx.rng.sample(allg, 10 if ctx.quick else 120)
    with mp.get_context("fork").Pool(min(16, os.cpu_count() or 4)) as pool:
        gres = pool.map(run_growth, gcases, chunksize=1)
    for gc, gr in zip(gcases, gres):
        ctx.case("growth " + repr(gc), True, None)
        judge_growth(ctx, gc, gr)
    # real-world packages as they are on disk
    jobs = []
    for k, (label, paths) in enumerate(real_corpus(ctx.quick)):
        fmts = [DOCFORMATS[k % len(DOCFORMATS)]] if (ctx.quick or label == "pydoctor") else DOCFORMATS
        if label == "pydoctor":
            fmts = ["epytext"]
        for f in fmts:
            jobs.append((label, paths, f))
    with mp.get_context("fork").Pool(min(16, os.cpu_count() or 4)) as pool:
        rres = pool.map(run_real, jobs, chunksize=1)
    for (label, paths, f), r in zip(jobs, rres):
        ctx.case("real " + label + " " + f, True, {"package": label, "docformat": f, "outcome": r["outcome"], "pages": r.get("pages")} if len(ctx.samples) < 4 else None)
        ctx.count("real-packages")
        ctx.count("real-pages", int(r.get("pages") or 0))
        o = r["outcome"]
        inp = {"real": label, "paths": paths, "docformat": f}
        if o is None or str(o).startswith("harness"):
            ctx.count("harness-trouble")
            continue
        if o.startswith("crash") or o == "hang" or o.startswith("SystemExit"):
            ctx.fail("real-package:" + (o if not o.startswith("SystemExit") else "aborts:" + o), inp, f"{label} ({f}): {o} {r.get('detail', '')} | {r.get('tail', '')[-200:]}")
            continue
        if o.split(":")[1] not in ("0", "2", "3"):
            ctx.fail("exit-status:" + o.split(":")[1], inp, "undocumented exit status")
        for n, ok in (r.get("written") or {}).items():
            if not ok:
                ctx.fail("not-written:" + n, inp, f"{label}: {n} missing after a run that returned {o}")
    # the docstring wrappers (parse_docstring / safe_to_stan / format_* of epydoc2stan): the Docstring model that the
    # run-level theorems are about is tied to the real functions by fault injection (C08's stream, run here too so that
    # this check stands on its own): every stage is made to return / raise as the case says, model and code compared,
    # and no call may let an exception out
    from . import c08
    w = c08.World()
    cases = list(c08.exhaustive_fault_cases(True))
    cases += [c08.random_fault_case(ctx.rng) for _ in range(150 if ctx.quick else 3000)]
    freqs, fimpls, fpay = [], [], []
    with c08.instrument(w), c08.fault_patches(w):
        for sp in cases:
            line, trace = c08.run_fault_case(w, sp)
            freqs.append(c08.request_of(sp))
            fimpls.append(line)
            fpay.append({"kind": "fault", "spec": c08.spec_json(sp)})
            ctx.count("wrapper-fault-cases")
            for ent in trace:
                if ent.get("hang"):
                    ctx.fail("wrapper-hang", {"kind": "fault", "spec": c08.spec_json(sp)}, "a wrapped docstring stage hung")
                elif ent.get("raised") is not None and ent["op"] != "x":
                    # all eleven wrapped entry points c01_render_run_total speaks about (e d s t y c g b r q);
                    # extract_fields (x) has a precondition and is judged by C08's own oracle
                    ctx.count("wrapper-propagated")
                    ctx.fail("wrapper-propagates:" + type(ent["raised"]).__name__, {"kind": "fault", "spec": c08.spec_json(sp)},
                             f"epydoc2stan entry point {ent['op']} let {type(ent['raised']).__name__} out: {ent['raised']}")
    ctx.compare("fault-injection~Docstring.run", freqs, fimpls, fpay)
    # exit-status arithmetic: model vs the documented table (tiny exhaustive space) — the real main()
    # is exercised above; here the model function is compared with the same decision written from the manual
    reqs, impls = [], []
    for w in (0, 1):
        for v in range(3):
            for p in range(3):
                reqs.append("schedule exit %d %d %d" % (w, v, p))
                impls.append("ok %d" % (3 if (w and v) else (2 if p else 0)))
    ctx.compare("exit-status", reqs, impls)


def replay(ctx: Ctx, obj) -> int:
    inp = obj.get("input") or obj.get("request") or {}
    if isinstance(inp, dict) and inp.get("kind") == "fault":
        from . import c08
        return c08.replay(ctx, obj)
    if isinstance(inp, dict) and "real" in inp:
        r = run_real((inp["real"], inp["paths"], inp.get("docformat", "epytext")))
        print("outcome:", r["outcome"], r.get("detail", ""))
        print(r.get("tail", "")[-600:])
        return 0 if str(r["outcome"]).startswith("exit") else 1
    if "files" not in inp:
        print(obj)
        return 0
    r = run_tree({"files": inp["files"], "docformat": inp.get("docformat", "epytext"), "werror": inp.get("werror"),
                  "prepend": inp.get("prepend"), "root": inp.get("root", "pkg"), "extra_roots": inp.get("extra_roots"), "subject": inp.get("subject"), "kind": "replay", "constructs": 0})
    print("outcome:", r["outcome"], r.get("detail", ""))
    print(r.get("tail", "")[-600:])
    if r.get("subject") is not None:
        print("--html-subject pages:", r.get("subject"), "inventory lists them:", r.get("subject_inv"))
        if not all(r["subject"].values()) or r.get("subject_inv") is not True:
            return 1
    return 0 if str(r["outcome"]).startswith("exit") else 1
