"""C07 — a re-exported object is documented once, where exported, and stays reachable."""
from __future__ import annotations

import contextlib
import io
import itertools
from typing import Any, Dict, List, Optional, Tuple

from ..core import Ctx, enc
from ..gen.project import Unit, build_system
from .. import namesdump as nd

Q3 = "'" * 3

THEOREMS = [
    # the re-export move (Registry.reparent) over any state satisfying the C02 invariant
    "Registry.reparent_once", "Registry.no_key_under_old_name", "Registry.reparent_leaves_alias",
    "Names.old_name_finds", "Names.old_member_name_finds", "Names.new_name_resolves",
    "Names.consumer_of_definer_counterexample", "Names.old_import_resolves",
    # the lemmas they rest on
    # (Registry.reparent_spec itself is declared and audited in PdProps.C02)
    "Registry.reparent_free", "Names.expandLoop_descend", "Names.expandLoop_step",
    "Registry.find_root", "Names.old_name_finds_of_forall", "Names.old_member_name_finds_of_forall",
    "Names.prefixesAreContainers_spec",
    # earlier pieces
    "Names.relative_level", "Names.expand_single_local", "Names.findObject_registered",
    # hunter round: kernel-checked witnesses of the two open findings that live inside the Names model
    "Names.second_name_in_definer_counterexample", "Names.same_name_submodule_counterexample",
]
RULE = ("generated packages per the quantifier: definer module, one re-exporter (package __init__ or sibling module; plain, "
        "absolute, renamed or star import; __all__), consumers importing from the definer, the re-exporter or both and "
        "using the object as base class, annotation and docstring cross-reference; every reachable sibling order. For every "
        "order the final registry/alias state is dumped and expandName/resolveName/find_object are compared with the Lean "
        "Names model; the direct oracle checks 'one documented copy' and 'every reference reaches it' on the real System. "
        "Hunter round: nested packages with a consumer NEXT TO the package (it may be analysed before the package), a definer that "
        "imports its own package above its definitions, an object named like its module, a second name bound in the definer, "
        "references written inside objects that are re-exported themselves, an annotated __all__; all depth-first orders; "
        "corpus/C07 (witnesses of the open findings) runs first. "
        "Non-trivial = the project has a consumer that imports from the defining module or a renamed/star re-export.")
ASSUMPTIONS = ["names contain no '.' in the compared queries (paths = dotted strings)",
               "the class linearisation used by Class.find is taken from the real system (C05 covers it)"]
PARTIAL = {"Names.reference_reaches": "the last clause at full strength (every reference that named the object before the move "
                                      "still resolves) is false on the current tree for a consumer that imports the moved object "
                                      "from its defining module (known finding; Names.consumer_of_definer_counterexample). Proved "
                                      "instead: find_object of the old qualified name and of old member names reaches the moved "
                                      "objects (old_name_finds, old_member_name_finds: destination name free, every proper prefix "
                                      "of the name is a module/package/class, no superseded `name i` component), the new name "
                                      "resolves (new_name_resolves), one registration under the new name and none under the old "
                                      "(reparent_once, free destination), alias left behind (reparent_leaves_alias, both branches)"}


def gen_project(rng) -> Tuple[List[Unit], Dict[str, Any]]:
    kind = rng.choice(["package", "sibling"])
    imp = rng.choice(["rel", "abs", "renamed", "star"])
    objkind = rng.choice(["class", "class", "function"])
    exported = "X" if imp != "renamed" else "Y"
    b_all = rng.random() < 0.15           # definer lists it itself -> no move expected
    # ---- hunter round (hunt/C07/1..4): layouts the property's quantifier admits and the generator did not produce
    # (4) the defining module binds the object under a second name (`class _X` ... `X = _X`) and THAT name is exported
    alias_def = rng.random() < 0.12
    # (2) the object is called like the module that defines it (`from .X import X` in the package)
    same_name = kind == "package" and imp != "renamed" and not alias_def and rng.random() < 0.15
    # (1) the defining module imports something of its own package, ABOVE its definitions (fine for Python, which
    # initialises a package before any of its sub-modules); interesting when a consumer OUTSIDE the package (nested
    # layout) enters the defining module before the package
    back_import = kind == "package" and rng.random() < 0.3
    nested = rng.random() < 0.3
    # (3) a reference to the object written INSIDE an object that is re-exported itself: a variable of the defining
    # module annotated with the object and re-exported next to it; a consumer's variable re-exported by one more module
    companion = (not b_all) and rng.random() < 0.25
    pub = rng.random() < 0.2
    # (hunter, noticed) the re-exporter lists the name in an ANNOTATED assignment: `__all__: list = ['X']`
    all_annotated = rng.random() < 0.08
    P = "top.pkg" if nested else "pkg"
    dmod = "X" if same_name else "_b"
    D = P + "." + dmod                    # the defining module
    cn = "_X" if alias_def else "X"       # the name the object is DEFINED under
    definer = []
    if objkind == "class":
        definer += ["class %s:" % cn, "    '''doc of X unique'''", "    def m(self):", "        '''m doc'''",
                    "    def m2(self): pass", "    class Inner:", "        def im(self): pass",
                    # members reached by DOTTED references through the class (seeded C07-r5-1): a constant, a nested exception
                    "    FAST = 1", "    %sfast doc%s" % (Q3, Q3), "    class Error(Exception):", "        %serr doc%s" % (Q3, Q3)]
        if rng.random() < 0.3:
            definer += ["    def m(self): return 2"]       # superseded member
    else:
        definer += ["def %s(a, b=1):" % cn, "    '''doc of X unique'''"]
    if alias_def:
        definer += ["X = _X"]
    definer += ["class Other:", "    pass"]
    if companion:
        definer += ["inst: X = None", "'''inst doc, see L{X}'''"]
    # the optional-accelerator idiom: the defining module binds the same name a second time by an import
    speedups = rng.random() < 0.2 and not alias_def
    if speedups:
        if rng.random() < 0.5:
            definer += ["try:", "    from _speedups import X", "except ImportError:", "    pass"]
        else:
            definer = ["try:", "    from _speedups import X", "except ImportError:", "    pass"] + definer
    # an import cycle: BELOW its definitions the defining module imports from the sibling that re-exports the object
    # (analysed first, the definer is still in progress when the re-exporter takes the object)
    cyclic = kind == "sibling" and rng.random() < 0.3
    if cyclic:
        # (the star form is not combined with a second name bound by assignment: the star import, which reads the
        # __all__ of the re-exporter while that is still in progress, then rebinds the exported name — notes/C07.md)
        definer += [rng.choice(["from %s.api import API_CONST" % P, "from .api import API_CONST as _c", "from . import api as _api",
                                "import %s.api\nfrom %s.api import *" % (P, P)][:3 if alias_def else 4])]
    if back_import:
        definer = [rng.choice(["from %s import helper" % P, "from . import helper"])] + definer
    if b_all:
        definer += ["__all__ = ['X']"]
    if imp == "rel":
        line = "from .%s import X" % dmod
    elif imp == "abs":
        line = "from %s import X" % D
    elif imp == "renamed":
        line = "from %s import X as Y" % D
    else:
        line = "from %s import *" % D
    reexp_src = [line, "__all__ = [%r]" % exported]
    if companion:
        if imp != "star":
            reexp_src.insert(1, rng.choice(["from .%s import inst" % dmod, "from %s import inst" % D]))
        reexp_src[-1] = "__all__ = [%r, 'inst']" % exported
    if all_annotated:
        reexp_src[-1] = reexp_src[-1].replace("__all__ =", "__all__: list =")
    if cyclic:
        reexp_src.append("API_CONST = 1")
    if back_import:
        reexp_src.insert(0, "helper = 1")
    twice = rng.random() < 0.25
    if twice:
        # the same exported name imported a second time (repeated import, or star followed by a plain import)
        second = {"rel": "from .%s import X" % dmod, "abs": "from %s import X" % D, "renamed": "from %s import X as Y" % D,
                  "star": rng.choice(["from %s import X" % D, "from %s import *" % D])}[imp]
        reexp_src.insert(2 if back_import else 1, second)
    reexp_q = P if kind == "package" else P + ".api"
    units = []
    pkg_src = reexp_src if kind == "package" else ["'''pkg'''"]
    if nested:
        units.append(Unit("top", True, "'''top'''\n", None))
    units.append(Unit(P, True, "\n".join(pkg_src) + "\n", "top" if nested else None))
    sibs = [Unit(D, False, "\n".join(definer) + "\n", P)]
    if kind == "sibling":
        sibs.append(Unit(P + ".api", False, "\n".join(reexp_src) + "\n", P))
    consumers = []
    places = [(c, P) for c in rng.sample(["d", "e", "zz"], rng.randint(1, 2))]
    if nested:
        # a consumer next to the package (outside it): it may be analysed BEFORE the package
        places.append((rng.choice(["a", "zq"]), "top"))
    outer = []
    for cname, where in places:
        form = rng.choice(["definer", "reexporter", "both"])
        lines = []
        local = []
        if form in ("definer", "both"):
            lines.append("from %s import X as XD" % D)
            local.append("XD")
        if form in ("reexporter", "both"):
            lines.append("from %s import %s as XR" % (reexp_q, exported))
            local.append("XR")
        # sometimes the re-exporting module is also reached through a module alias: `t.X`
        via_alias = rng.random() < 0.4
        if via_alias:
            lines.append("import %s as t_%s" % (reexp_q, cname))
        use = local[0]
        if objkind == "class":
            lines += ["class K_%s(%s):" % (cname, use), "    '''see L{%s} and L{%s.X} and L{%s.%s}'''" % (use, D, reexp_q, exported)]
        if objkind == "class":
            # dotted references THROUGH the class, by each local name: annotation, default value, return annotation, @raise
            for ln in local:
                lines += ["def f_%s_%s(a: %s.Inner, b=%s.FAST) -> %s.Inner:" % (cname, ln, ln, ln, ln),
                          "    %s" % Q3, "    does it", "    @raise %s.Error: when it cannot" % ln, "    %s" % Q3]
        lines += ["v_%s: %s = None" % (cname, local[-1]), "'''var, see L{%s}'''" % local[-1]]
        # seeded C07-r6-2: the name a base class is written with is bound AGAIN further down the module (a later local
        # class of the same name): the base is what the name meant at the class statement
        rebind = None
        if objkind == "class" and rng.random() < 0.35:
            rebind = rng.choice(["definer", "reexporter"])
            lines += ["from %s import %s as XB" % ((D, "X") if rebind == "definer" else (reexp_q, exported)),
                      "class KB_%s(XB):" % cname, "    '''rebinder'''", "class XB:", "    '''a later local class of the same name'''"]
        (outer if where == "top" else sibs).append(Unit(where + "." + cname, False, "\n".join(lines) + "\n", where))
        consumers.append({"module": where + "." + cname, "form": form, "locals": local, "use": use, "cname": cname,
                          "alias": ("t_%s.%s" % (cname, exported)) if via_alias else None, "var_at": where + "." + cname,
                          "rebind": rebind})
    if pub:
        # one more module publishes a consumer's variable: the annotation (and the docstring) of that variable are
        # references to the object that now sit inside a moved object
        c = rng.choice(consumers)
        sibs.append(Unit(P + ".pub", False, "from %s import v_%s\n__all__ = ['v_%s']\n" % (c["module"], c["cname"], c["cname"]), P))
        c["var_at"] = P + ".pub"
    extra_root = None
    if rng.random() < 0.25:
        # a second root whose name is a textual prefix of the package's name (or which the package's name prefixes),
        # given BEFORE the package: looking a moved object up by its old name must pick the right root
        extra_root = rng.choice(["pk", "p", "pkg_ext"]) if not nested else rng.choice(["to", "t", "top_ext"])
        units.insert(0, Unit(extra_root, False, "'''another root'''\nclass Unrelated:\n    pass\n", None))
    meta = {"kind": kind, "import": imp, "objkind": objkind, "exported": exported, "reexporter": reexp_q, "extra_root": extra_root,
            "definer_all": b_all, "definer_imports_reexporter": cyclic, "consumers": consumers, "imported_twice": twice, "definer_also_imports": speedups,
            "definer": D, "defined_as": cn, "package": P, "nested": nested, "definer_imports_package_first": back_import,
            "alias_in_definer": alias_def, "named_like_module": same_name, "companion": companion, "published_var": pub,
            "all_annotated": all_annotated, "members": ["m", "m2", "Inner", "Inner.im", "FAST", "Error"]}
    return units + sibs + outer, meta


def orders(units: List[Unit], rng, limit: int) -> List[List[int]]:
    """reachable processing orders: the roots in the order given, every package before its own modules and its whole
    subtree in one piece (that is how the builder adds them), the modules of a package in any order"""
    idx = {u.qname: i for i, u in enumerate(units)}
    children: Dict[Optional[int], List[int]] = {}
    for i, u in enumerate(units):
        children.setdefault(idx.get(u.parent) if u.parent else None, []).append(i)

    def sub(i) -> List[List[int]]:
        kids = children.get(i, [])
        if not kids:
            return [[i]]
        out = []
        for perm in itertools.permutations(kids):
            for combo in itertools.product(*[sub(k) for k in perm]):
                out.append([i] + [x for part in combo for x in part])
        return out
    perms = [[x for part in combo for x in part] for combo in itertools.product(*[sub(r) for r in children[None]])]
    if len(perms) > limit:
        perms = [perms[0]] + rng.sample(perms[1:], limit - 1)
    return perms


class Clock:
    """stamps every object with the time it was registered and records when objects are moved"""

    def __enter__(self):
        from pydoctor import model
        clk = self
        self.t = 0
        self.moves: Dict[int, int] = {}
        self.entered: List[str] = []
        self._ao = model.System.addObject
        self._rp = model.Documentable.reparent
        self._pm = model.System.processModule

        def processModule(system, mod):
            clk.entered.append(mod.fullName())
            return clk._pm(system, mod)

        def addObject(system, obj):
            clk.t += 1
            if not hasattr(obj, "_verif_t"):
                obj._verif_t = clk.t
            return clk._ao(system, obj)

        def reparent(obj, new_parent, new_name):
            clk.t += 1
            clk.moves.setdefault(id(obj), clk.t)
            return clk._rp(obj, new_parent, new_name)
        model.System.addObject = addObject
        model.Documentable.reparent = reparent
        model.System.processModule = processModule
        return self

    def __exit__(self, *a):
        from pydoctor import model
        model.System.addObject = self._ao
        model.Documentable.reparent = self._rp
        model.System.processModule = self._pm


# the hunter-round shapes whose violations are ONE defect each: when every failure of a project/order lies inside the
# set that defect explains, they are reported under the defect's own signature; anything else is reported as it is
_DEFINER_REFS = {"consumer-import-from-definer:unresolved", "base-via-definer:before-move:unresolved", "base-via-definer:after-move:unresolved",
                 "xref-via-definer-import:unresolved", "xref-via-qualified-name:unresolved", "annotation-via-definer-import:unlinked",
                 "find_object-old-name",
                 # the base written with a name imported from the definer is not found (the defect itself), so the later
                 # local class of that name is taken: a consequence in these two layouts, a violation of its own elsewhere
                 "base-via-definer:name-rebound-later",
                 "dotted-annotation-via-definer-import:unlinked", "dotted-default-via-definer-import:unlinked", "dotted-raise-via-definer-import:unlinked"}
SHAPES = [
    # (meta key, signature, the failures the defect explains)
    # (the displaced module is not found by a later `from .X import inst` of the package either)
    ("named_like_module", "object-named-like-its-module:references-via-definer-unresolved", _DEFINER_REFS | {"companion-variable:not-at-exported-name"}),
    ("alias_in_definer", "second-name-in-definer:references-via-definer-unresolved", _DEFINER_REFS),
]


class _Collect:
    def __init__(self):
        self.items: List[Tuple[str, Any, str]] = []

    def fail(self, sig, payload, what):
        self.items.append((sig, payload, what))


def check_one(ctx: Ctx, units: List[Unit], meta, order: List[int], reqs, impls, pay) -> None:
    src = {u.qname: u.source for u in units}
    payload = {"units": src, "order": order, "meta": meta}
    try:
        with Clock() as clk:
            system = build_system(units, order=order)
    except Exception as e:
        ctx.fail("analysis-crash:" + type(e).__name__, payload, f"{type(e).__name__}: {e}")
        return
    col = _Collect()
    oracle(col, system, clk, meta, order, payload)
    items = col.items
    for key, shape_sig, explained in SHAPES:
        mine = [it for it in items if it[0] in explained]
        if meta.get(key) and mine:
            # the consequences of the one known defect of this layout go under its signature; whatever else fails in
            # the same project is reported as it is
            ctx.fail(shape_sig, payload, "; ".join(w for _s, _p, w in mine)[:1500])
            items = [it for it in items if it[0] not in explained]
            break
    for s, p, w in items:
        ctx.fail(s, p, w)
    correspondence(ctx, system, meta, payload, reqs, impls, pay)


def _annotation_html(attr) -> str:
    from pydoctor import epydoc2stan
    from pydoctor.stanutils import flatten
    try:
        with contextlib.redirect_stdout(io.StringIO()):
            stan = epydoc2stan.type2stan(attr)
        return flatten(stan) if stan is not None else ""
    except Exception as e:
        return "ERR:" + type(e).__name__


def _links_to(html: str, obj) -> bool:
    """does the rendered annotation link to the page (or, from that very page, to the anchor) of `obj`?"""
    if ('href="%s"' % obj.url) in html:
        return True
    return ('title="%s"' % obj.fullName()) in html and ('href="#%s"' % obj.url.partition("#")[2]) in html and "#" in obj.url


def _xref(o, ident):
    try:
        with contextlib.redirect_stdout(io.StringIO()):
            return o.docstring_linker._resolve_identifier_xref(ident, 0)
    except LookupError:
        return None


def oracle(ctx, system, clk, meta, order, payload) -> None:
    moved_expected = not meta["definer_all"]
    D = meta["definer"]
    new_name = meta["reexporter"] + "." + meta["exported"]
    old_name = D + ".X"                              # the name consumers of the defining module use
    real_old = D + "." + meta["defined_as"]          # the name it was registered under when defined
    target_name = new_name if moved_expected else real_old
    obj = system.allobjects.get(target_name)
    docs = [o for o in system.allobjects.values() if o.docstring == "doc of X unique"]
    sigbase = "%s-reexport" % meta["import"] if meta["import"] in ("star", "renamed") else "reexport"
    # (1) documented exactly once, where exported
    if obj is None or obj.docstring != "doc of X unique":
        why = ""
        if moved_expected and D in clk.entered and meta["package"] in clk.entered \
                and clk.entered.index(D) < clk.entered.index(meta["package"]) and meta["definer_imports_package_first"] \
                and meta["kind"] == "package":
            # the defining module was ENTERED before the package it belongs to (Python never does that), and it imports
            # its package: the package's re-export ran while the definer had not reached the definition
            why = ":definer-entered-before-its-package"
        rm = system.allobjects.get(meta["reexporter"])
        if moved_expected and meta.get("all_annotated") and rm is not None and rm.all is None and not why:
            # the re-exporter's `__all__: list = [...]` was not read at all
            why = ":annotated-__all__-not-read"
        ctx.fail("reexport-dropped" + why if why else sigbase + ":not-at-exported-name", payload,
                 f"{target_name} is not the re-exported object (order {order}; modules entered in the order {clk.entered}; "
                 f"documented as {[d.fullName() for d in docs]})")
        return
    if len(docs) != 1:
        ctx.fail(sigbase + ":documented-%d-times" % len(docs), payload, f"{[d.fullName() for d in docs]}")
    # ... and really documented there: listed in its parent's contents all the way up to a root
    o = obj
    while o.parent is not None:
        if o.parent.contents.get(o.name) is not o:
            ctx.fail(sigbase + ":not-listed-in-parent", payload, f"{o.fullName()} is not in the contents of {o.parent.fullName()} (order {order})")
            break
        o = o.parent
    else:
        if o not in system.rootobjects:
            ctx.fail(sigbase + ":unrooted", payload, f"{obj.fullName()} does not hang off a root")
    if moved_expected:
        stale = [k for k in system.allobjects if any(k == n or k.startswith(n + ".") for n in {old_name, real_old})]
        if stale:
            ctx.fail(sigbase + ":still-under-definer", payload, f"{stale} still registered")
    if meta["objkind"] == "class":
        # (corpus projects generated before the class had a constant and a nested exception carry no "members")
        for mem in meta.get("members", ("m", "m2", "Inner", "Inner.im")):
            if system.allobjects.get(target_name + "." + mem) is None:
                ctx.fail(sigbase + ":member-lost", payload, f"{target_name}.{mem} not registered")
    # (2) every reference reaches it (the property speaks about moved objects only)
    for c in (meta["consumers"] if moved_expected else []):
        mod = system.allobjects[c["module"]]
        for ln in c["locals"]:
            how = "definer" if ln == "XD" else "reexporter"
            r = mod.resolveName(ln)
            if r is not obj:
                ctx.fail(f"consumer-import-from-{how}:unresolved", payload,
                         f"{c['module']}.resolveName({ln!r}) = {r!r}, expected {obj!r} (order {order})")
        if c.get("alias"):
            r = mod.resolveName(c["alias"])
            if r is not obj:
                ctx.fail("module-alias-to-reexporter:unresolved", payload,
                         f"{c['module']}.resolveName({c['alias']!r}) = {r!r}, expected {obj!r} (order {order})")
        # the re-exporting module itself names the object
        rm = system.allobjects.get(meta["reexporter"])
        if rm is not None and rm.resolveName(meta["exported"]) is not obj:
            ctx.fail("reexporter-own-scope:unresolved", payload,
                     f"{meta['reexporter']}.resolveName({meta['exported']!r}) = {rm.resolveName(meta['exported'])!r}, expected {obj!r}")
        if meta["objkind"] == "class":
            k = system.allobjects.get(c["module"] + ".K_" + c["cname"])
            if k is None or list(k.baseobjects) != [obj]:
                how = "definer" if c["use"] == "XD" else "reexporter"
                # was the consuming class analysed before or after the object was moved?
                tm = clk.moves.get(id(obj))
                when = "after-move" if (k is not None and tm is not None and getattr(k, "_verif_t", 0) > tm) else "before-move"
                if how == "definer":
                    how = "definer:" + when
                ctx.fail(f"base-via-{how}:unresolved", payload,
                         f"{c['module']}.K bases {None if k is None else k.baseobjects!r} (order {order})")
            if c.get("rebind"):
                kb = system.allobjects.get(c["module"] + ".KB_" + c["cname"])
                if kb is None or list(kb.baseobjects) != [obj]:
                    ctx.fail("base-via-%s:name-rebound-later" % c["rebind"], payload,
                             f"{c['module']}.KB_{c['cname']}: written `class KB(XB)` right after importing XB (the object) from the {c['rebind']}; "
                             f"a later `class XB` in the same module must not become its base: bases {None if kb is None else kb.baseobjects!r} (order {order})")
            if k is not None:
                for ident in (c["use"], old_name, new_name):
                    t = _xref(k, ident)
                    if t is not obj:
                        via = "definer-import" if ident == "XD" else ("reexporter-import" if ident == "XR" else "qualified-name")
                        ctx.fail("xref-via-%s:unresolved" % via, payload, f"docstring reference {ident!r} in {k!r} -> {t!r}")
    # dotted references through the moved class (nested class, class constant, nested exception) in an annotation, a default
    # value and a @raise field of a consumer's function, by the name imported from the definer and from the re-exporter
    if moved_expected and meta["objkind"] == "class":
        from pydoctor import epydoc2stan
        from pydoctor.stanutils import flatten
        from pydoctor.templatewriter.pages import format_signature
        for c in meta["consumers"]:
            for ln in c["locals"]:
                fn = system.allobjects.get("%s.f_%s_%s" % (c["module"], c["cname"], ln))
                if fn is None:
                    continue
                via = "definer-import" if ln == "XD" else "reexporter-import"
                try:
                    with contextlib.redirect_stdout(io.StringIO()):
                        sig_html = flatten(format_signature(fn))
                        doc_html = flatten(epydoc2stan.format_docstring(fn))
                except Exception as e:
                    ctx.fail("dotted-reference:render-crash:" + type(e).__name__, payload, f"{fn.fullName()}: {type(e).__name__}: {e}")
                    continue
                for what, mem, html in (("annotation", "Inner", sig_html), ("default", "FAST", sig_html), ("raise", "Error", doc_html)):
                    tgt = system.allobjects.get(target_name + "." + mem)
                    if tgt is not None and not _links_to(html, tgt):
                        ctx.fail("dotted-%s-via-%s:unlinked" % (what, via), payload,
                                 f"`{ln}.{mem}` in the {what} of {fn.fullName()} is not linked to {tgt.fullName()} ({tgt.url}): {html[:300]!r} (order {order})")
    # an annotation that names the object through either import links to its one page; so does the docstring of the
    # annotated variable.  The variable may have been re-exported itself (by one more module): the references inside it
    # are still references to the object
    inside: List[str] = []
    for c in (meta["consumers"] if moved_expected else []):
        var_moved = c.get("var_at", c["module"]) != c["module"]
        attr = system.allobjects.get(c.get("var_at", c["module"]) + ".v_" + c["cname"])
        if attr is None:
            if var_moved:
                ctx.fail("published-variable:not-at-exported-name", payload, f"{c['var_at']}.v_{c['cname']} is not registered (order {order})")
            continue
        html = _annotation_html(attr)
        ln = c["locals"][-1]
        want = obj.url
        via = "definer-import" if ln == "XD" else "reexporter-import"
        if not _links_to(html, obj):
            if var_moved:
                inside.append(f"annotation {ln!r} of {attr.fullName()} (written in {c['module']}) renders as {html[:120]!r}, expected a link to {want}")
            else:
                ctx.fail("annotation-via-%s:unlinked" % via, payload, f"annotation {ln!r} of {attr.fullName()} renders as {html[:200]!r}, expected a link to {want}")
        t = _xref(attr, ln)
        if t is not obj:
            if var_moved:
                inside.append(f"docstring reference L{{{ln}}} of {attr.fullName()} (written in {c['module']}) -> {t!r}")
            else:
                ctx.fail("xref-via-%s:unresolved" % via, payload, f"docstring reference {ln!r} in {attr!r} -> {t!r}")
    if moved_expected and meta.get("companion"):
        # a variable of the DEFINING module, annotated with the object, re-exported next to it
        attr = system.allobjects.get(meta["reexporter"] + ".inst")
        if attr is None:
            ctx.fail("companion-variable:not-at-exported-name", payload, f"{meta['reexporter']}.inst is not registered (order {order})")
        else:
            html = _annotation_html(attr)
            if not _links_to(html, obj):
                inside.append(f"annotation 'X' of {attr.fullName()} (written in {D}) renders as {html[:120]!r}, expected a link to {obj.url}")
            t = _xref(attr, "X")
            if t is not obj:
                inside.append(f"docstring reference L{{X}} of {attr.fullName()} (written in {D}) -> {t!r}")
    if inside:
        ctx.fail("reference-inside-moved-object:resolved-in-reexporter-scope", payload, "; ".join(inside)[:1500] + f" (order {order})")
    if moved_expected:
        try:
            fo = system.find_object(old_name)
        except LookupError:
            fo = None
        if fo is not obj:
            ctx.fail("find_object-old-name", payload, f"find_object({old_name!r}) = {fo!r}")


def correspondence(ctx: Ctx, system, meta, payload, reqs, impls, pay) -> None:
    """the final registry / alias state against the Names model"""
    D = meta["definer"]
    new_name = meta["reexporter"] + "." + meta["exported"]
    old_name = D + ".X"
    toks, ids, objs = nd.state_tokens(system)
    if nd.has_dotted_names(objs):
        ctx.count("model-skipped:dotted-name")
        return
    queries, answers = [], []
    for c in meta["consumers"]:
        mod = system.allobjects[c["module"]]
        for ln in c["locals"] + [old_name, new_name, D + "." + meta["defined_as"], D + ".Other", "nosuch.name", ln_or("XD", c)] + ([c["alias"]] if c.get("alias") else []):
            queries.append("E|%d|%s" % (ids[id(mod)], enc(ln)))
            answers.append(nd.real_expand(mod, ln))
            queries.append("R|%d|%s" % (ids[id(mod)], enc(ln)))
            answers.append(nd.real_resolve(mod, ln, ids))
        k = system.allobjects.get(c["module"] + ".K_" + c["cname"])
        if k is not None:
            for ln in ("m", "XD.m", "XR.Inner.im", "K_%s.m2" % c["cname"], "Inner"):
                queries.append("E|%d|%s" % (ids[id(k)], enc(ln)))
                answers.append(nd.real_expand(k, ln))
    for full in (old_name, new_name, old_name + ".m", D + "." + meta["defined_as"], D + ".nosuch", "other.root", meta["package"], D, old_name + ".Inner.im"):
        queries.append("F|" + enc(full))
        answers.append(nd.real_find(system, full, ids))
    reqs.append("names q " + " ".join(toks) + " ? " + " ".join(queries))
    impls.append("ok " + " ".join(answers))
    pay.append(payload)


def ln_or(name, c):
    return name if name in c["locals"] else c["locals"][0] + ".m"


def load_corpus() -> List[Tuple[List[Unit], Dict[str, Any]]]:
    """corpus/C07/*.json: generator outputs kept verbatim (inputs of the open findings), so that seeing them does not
    depend on the seed; `units` maps qualified names to sources in the order the generator listed them"""
    import json
    from pathlib import Path
    out = []
    for f in sorted((Path(__file__).resolve().parents[2] / "corpus" / "C07").glob("*.json")):
        d = json.loads(f.read_text())
        qs = list(d["units"])
        units = [Unit(q, any(o.startswith(q + ".") for o in qs), d["units"][q], q.rpartition(".")[0] or None) for q in qs]
        out.append((units, d["meta"]))
    return out


def run(ctx: Ctx) -> None:
    nproj = 120 if ctx.quick else 2500
    reqs, impls, pay = [], [], []
    corpus = load_corpus()
    ctx.count("corpus-projects", len(corpus)) if corpus else None
    for i in range(-len(corpus), nproj):
        units, meta = corpus[i] if i < 0 else gen_project(ctx.rng)
        ords = orders(units, ctx.rng, 6 if ctx.quick else 24)
        nontriv = any(c["form"] != "reexporter" for c in meta["consumers"]) or meta["import"] in ("renamed", "star")
        for od in ords:
            canon = repr((sorted((u.qname, u.source) for u in units), od))
            ctx.case(canon, nontriv, {"units": {u.qname: u.source for u in units}, "order": od} if nontriv and len(ctx.samples) < 2 else None)
            ctx.count("import:" + meta["import"])
            ctx.count("reexporter:" + meta["kind"])
            check_one(ctx, units, meta, od, reqs, impls, pay)
    ctx.compare("names-queries", reqs, impls, pay)
    # relative import arithmetic: exhaustive small space, model's two functions + real importlib
    import importlib.util
    rreqs, rimpls = [], []
    for depth in range(1, 5):
        for ispkg in (True, False):
            for level in range(1, 6):
                mp = ".".join("p%d" % j for j in range(depth))
                pkgname = mp if ispkg else mp.rpartition(".")[0]
                try:
                    py = importlib.util.resolve_name("." * level, pkgname) if pkgname else None
                    if py is None:
                        raise ImportError
                    py = enc(py)
                except ImportError:
                    py = "ImportError"
                pd = real_relative_base(mp, ispkg, level)
                rreqs.append("names rel %s %s %d" % (enc(mp), "P" if ispkg else "M", level))
                rimpls.append("ok %s %s" % (pd, py))
                ctx.case(rreqs[-1], level > 1)
                if (pd == "too-high") != (py == "ImportError") or (pd != "too-high" and pd != py):
                    ctx.fail("relative-level", {"module": mp, "is_package": ispkg, "level": level},
                             f"pydoctor resolves level {level} in {mp} to {pd}, importlib to {py}")
    ctx.compare("relative-level", rreqs, rimpls)


def real_relative_base(mp: str, ispkg: bool, level: int) -> str:
    """run the real visit_ImportFrom on `from <dots> import zzz` inside module mp and read the alias"""
    from pydoctor import model
    s = model.System()
    b = s.systemBuilder(s)
    parts = mp.split(".")
    for j in range(len(parts)):
        q = ".".join(parts[:j + 1])
        last = j == len(parts) - 1
        src = ("from %s import zzz\n" % ("." * level)) if last else ""
        b.addModuleString(src, parts[j], parent_name=".".join(parts[:j]) or None, is_package=(not last) or ispkg)
    out = io.StringIO()
    with contextlib.redirect_stdout(out):
        b.buildModules()
    m = s.allobjects[mp]
    t = m._localNameToFullName_map.get("zzz")
    if t is None:
        return "too-high"
    return enc(t[:-len(".zzz")])


def replay(ctx: Ctx, obj) -> int:
    inp = obj.get("input") or obj.get("request") or {}
    print(obj.get("signature"), "-", obj.get("what"))
    for q, s in (inp.get("units") or {}).items():
        print("#", q)
        print(s)
    print("order:", inp.get("order"))
    return 0
