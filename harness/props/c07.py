"""C07 — a re-exported object is documented once, where exported, and stays reachable."""
from __future__ import annotations

import contextlib
import io
import itertools
from typing import Any, Dict, List, Optional, Tuple

from ..core import Ctx, enc
from ..gen.project import Unit, build_system
from .. import namesdump as nd

THEOREMS = [
    # the re-export move (Registry.reparent) over any state satisfying the C02 invariant
    "Registry.reparent_once", "Registry.no_key_under_old_name", "Registry.reparent_leaves_alias",
    "Names.old_name_finds", "Names.old_member_name_finds", "Names.new_name_resolves",
    "Names.consumer_of_definer_counterexample", "Names.old_import_resolves",
    # the lemmas they rest on
    # (Registry.reparent_spec itself is declared and audited in PdProps.C02)
    "Registry.reparent_free", "Names.expandLoop_descend", "Names.expandLoop_step",
    "Registry.find_root", "Names.old_name_finds_of_forall", "Names.old_member_name_finds_of_forall",
    "Names.prefixesAreContainers_spec",
    # earlier pieces
    "Names.relative_level", "Names.expand_single_local", "Names.findObject_registered",
]
RULE = ("generated packages per the quantifier: definer module, one re-exporter (package __init__ or sibling module; plain, "
        "absolute, renamed or star import; __all__), consumers importing from the definer, the re-exporter or both and "
        "using the object as base class, annotation and docstring cross-reference; every reachable sibling order. For every "
        "order the final registry/alias state is dumped and expandName/resolveName/find_object are compared with the Lean "
        "Names model; the direct oracle checks 'one documented copy' and 'every reference reaches it' on the real System. "
        "Non-trivial = the project has a consumer that imports from the defining module or a renamed/star re-export.")
ASSUMPTIONS = ["names contain no '.' in the compared queries (paths = dotted strings)",
               "the class linearisation used by Class.find is taken from the real system (C05 covers it)"]
PARTIAL = {"Names.reference_reaches": "the last clause at full strength (every reference that named the object before the move "
                                      "still resolves) is false on the current tree for a consumer that imports the moved object "
                                      "from its defining module (known finding; Names.consumer_of_definer_counterexample). Proved "
                                      "instead: find_object of the old qualified name and of old member names reaches the moved "
                                      "objects (old_name_finds, old_member_name_finds: destination name free, every proper prefix "
                                      "of the name is a module/package/class, no superseded `name i` component), the new name "
                                      "resolves (new_name_resolves), one registration under the new name and none under the old "
                                      "(reparent_once, free destination), alias left behind (reparent_leaves_alias, both branches)"}


def gen_project(rng) -> Tuple[List[Unit], Dict[str, Any]]:
    kind = rng.choice(["package", "sibling"])
    imp = rng.choice(["rel", "abs", "renamed", "star"])
    objkind = rng.choice(["class", "class", "function"])
    exported = "X" if imp != "renamed" else "Y"
    b_all = rng.random() < 0.15           # definer lists it itself -> no move expected
    definer = []
    if objkind == "class":
        definer += ["class X:", "    '''doc of X unique'''", "    def m(self):", "        '''m doc'''",
                    "    def m2(self): pass", "    class Inner:", "        def im(self): pass"]
        if rng.random() < 0.3:
            definer += ["    def m(self): return 2"]       # superseded member
    else:
        definer += ["def X(a, b=1):", "    '''doc of X unique'''"]
    definer += ["class Other:", "    pass"]
    # the optional-accelerator idiom: the defining module binds the same name a second time by an import
    speedups = rng.random() < 0.2
    if speedups:
        if rng.random() < 0.5:
            definer += ["try:", "    from _speedups import X", "except ImportError:", "    pass"]
        else:
            definer = ["try:", "    from _speedups import X", "except ImportError:", "    pass"] + definer
    # an import cycle: BELOW its definitions the defining module imports from the sibling that re-exports the object
    # (analysed first, the definer is still in progress when the re-exporter takes the object)
    cyclic = kind == "sibling" and rng.random() < 0.3
    if cyclic:
        definer += [rng.choice(["from pkg.api import API_CONST", "from .api import API_CONST as _c", "from . import api as _api", "import pkg.api\nfrom pkg.api import *"])]
    if b_all:
        definer += ["__all__ = ['X']"]
    if imp == "rel":
        line = "from ._b import X" if kind == "package" else "from ._b import X"
    elif imp == "abs":
        line = "from pkg._b import X"
    elif imp == "renamed":
        line = "from pkg._b import X as Y"
    else:
        line = "from pkg._b import *"
    reexp_src = [line, "__all__ = [%r]" % exported]
    if cyclic:
        reexp_src.append("API_CONST = 1")
    twice = rng.random() < 0.25
    if twice:
        # the same exported name imported a second time (repeated import, or star followed by a plain import)
        second = {"rel": "from ._b import X", "abs": "from pkg._b import X", "renamed": "from pkg._b import X as Y",
                  "star": rng.choice(["from pkg._b import X", "from pkg._b import *"])}[imp]
        reexp_src.insert(1, second)
    reexp_q = "pkg" if kind == "package" else "pkg.api"
    units = []
    pkg_src = reexp_src if kind == "package" else ["'''pkg'''"]
    units.append(Unit("pkg", True, "\n".join(pkg_src) + "\n", None))
    sibs = [Unit("pkg._b", False, "\n".join(definer) + "\n", "pkg")]
    if kind == "sibling":
        sibs.append(Unit("pkg.api", False, "\n".join(reexp_src) + "\n", "pkg"))
    consumers = []
    for cname in rng.sample(["d", "e", "zz"], rng.randint(1, 2)):
        form = rng.choice(["definer", "reexporter", "both"])
        lines = []
        local = []
        if form in ("definer", "both"):
            lines.append("from pkg._b import X as XD")
            local.append("XD")
        if form in ("reexporter", "both"):
            lines.append("from %s import %s as XR" % (reexp_q, exported))
            local.append("XR")
        # sometimes the re-exporting module is also reached through a module alias: `t.X`
        via_alias = rng.random() < 0.4
        if via_alias:
            lines.append("import %s as t_%s" % (reexp_q, cname))
        use = local[0]
        if objkind == "class":
            lines += ["class K_%s(%s):" % (cname, use), "    '''see L{%s} and L{pkg._b.X} and L{%s.%s}'''" % (use, reexp_q, exported)]
        lines += ["v_%s: %s = None" % (cname, local[-1]), "'''var'''"]
        sibs.append(Unit("pkg." + cname, False, "\n".join(lines) + "\n", "pkg"))
        consumers.append({"module": "pkg." + cname, "form": form, "locals": local, "use": use, "cname": cname,
                          "alias": ("t_%s.%s" % (cname, exported)) if via_alias else None})
    extra_root = None
    if rng.random() < 0.25:
        # a second root whose name is a textual prefix of the package's name (or which the package's name prefixes),
        # given BEFORE the package: looking a moved object up by its old name must pick the right root
        extra_root = rng.choice(["pk", "p", "pkg_ext"])
        units.insert(0, Unit(extra_root, False, "'''another root'''\nclass Unrelated:\n    pass\n", None))
    meta = {"kind": kind, "import": imp, "objkind": objkind, "exported": exported, "reexporter": reexp_q, "extra_root": extra_root,
            "definer_all": b_all, "definer_imports_reexporter": cyclic, "consumers": consumers, "imported_twice": twice, "definer_also_imports": speedups}
    return units + sibs, meta


def orders(units: List[Unit], rng, limit: int) -> List[List[int]]:
    """reachable processing orders: the package first, its modules in any order"""
    n = len(units)
    # the roots given before the package, and the package itself, keep their places; the package's modules permute
    k = next(i for i, u in enumerate(units) if u.qname == "pkg") + 1
    perms = [list(range(k)) + [i + k for i in p] for p in itertools.permutations(range(n - k))]
    if len(perms) > limit:
        perms = [perms[0]] + rng.sample(perms[1:], limit - 1)
    return perms


class Clock:
    """stamps every object with the time it was registered and records when objects are moved"""

    def __enter__(self):
        from pydoctor import model
        clk = self
        self.t = 0
        self.moves: Dict[int, int] = {}
        self._ao = model.System.addObject
        self._rp = model.Documentable.reparent

        def addObject(system, obj):
            clk.t += 1
            if not hasattr(obj, "_verif_t"):
                obj._verif_t = clk.t
            return clk._ao(system, obj)

        def reparent(obj, new_parent, new_name):
            clk.t += 1
            clk.moves.setdefault(id(obj), clk.t)
            return clk._rp(obj, new_parent, new_name)
        model.System.addObject = addObject
        model.Documentable.reparent = reparent
        return self

    def __exit__(self, *a):
        from pydoctor import model
        model.System.addObject = self._ao
        model.Documentable.reparent = self._rp


def check_one(ctx: Ctx, units: List[Unit], meta, order: List[int], reqs, impls, pay) -> None:
    src = {u.qname: u.source for u in units}
    payload = {"units": src, "order": order, "meta": meta}
    try:
        with Clock() as clk:
            system = build_system(units, order=order)
    except Exception as e:
        ctx.fail("analysis-crash:" + type(e).__name__, payload, f"{type(e).__name__}: {e}")
        return
    moved_expected = not meta["definer_all"]
    new_name = meta["reexporter"] + "." + meta["exported"]
    old_name = "pkg._b.X"
    target_name = new_name if moved_expected else old_name
    obj = system.allobjects.get(target_name)
    docs = [o for o in system.allobjects.values() if o.docstring == "doc of X unique"]
    sigbase = "%s-reexport" % meta["import"] if meta["import"] in ("star", "renamed") else "reexport"
    # (1) documented exactly once, where exported
    if obj is None or obj.docstring != "doc of X unique":
        ctx.fail(sigbase + ":not-at-exported-name", payload, f"{target_name} is not the re-exported object (order {order})")
        return
    if len(docs) != 1:
        ctx.fail(sigbase + ":documented-%d-times" % len(docs), payload, f"{[d.fullName() for d in docs]}")
    # ... and really documented there: listed in its parent's contents all the way up to a root
    o = obj
    while o.parent is not None:
        if o.parent.contents.get(o.name) is not o:
            ctx.fail(sigbase + ":not-listed-in-parent", payload, f"{o.fullName()} is not in the contents of {o.parent.fullName()} (order {order})")
            break
        o = o.parent
    else:
        if o not in system.rootobjects:
            ctx.fail(sigbase + ":unrooted", payload, f"{obj.fullName()} does not hang off a root")
    if moved_expected:
        stale = [k for k in system.allobjects if k == old_name or k.startswith(old_name + ".")]
        if stale:
            ctx.fail(sigbase + ":still-under-definer", payload, f"{stale} still registered")
    if meta["objkind"] == "class":
        for mem in ("m", "m2", "Inner", "Inner.im"):
            if system.allobjects.get(target_name + "." + mem) is None:
                ctx.fail(sigbase + ":member-lost", payload, f"{target_name}.{mem} not registered")
    # (2) every reference reaches it (the property speaks about moved objects only)
    for c in (meta["consumers"] if moved_expected else []):
        mod = system.allobjects[c["module"]]
        for ln in c["locals"]:
            how = "definer" if ln == "XD" else "reexporter"
            r = mod.resolveName(ln)
            if r is not obj:
                ctx.fail(f"consumer-import-from-{how}:unresolved", payload,
                         f"{c['module']}.resolveName({ln!r}) = {r!r}, expected {obj!r} (order {order})")
        if c.get("alias"):
            r = mod.resolveName(c["alias"])
            if r is not obj:
                ctx.fail("module-alias-to-reexporter:unresolved", payload,
                         f"{c['module']}.resolveName({c['alias']!r}) = {r!r}, expected {obj!r} (order {order})")
        # the re-exporting module itself names the object
        rm = system.allobjects.get(meta["reexporter"])
        if rm is not None and rm.resolveName(meta["exported"]) is not obj:
            ctx.fail("reexporter-own-scope:unresolved", payload,
                     f"{meta['reexporter']}.resolveName({meta['exported']!r}) = {rm.resolveName(meta['exported'])!r}, expected {obj!r}")
        if meta["objkind"] == "class":
            k = system.allobjects.get(c["module"] + ".K_" + c["cname"])
            if k is None or list(k.baseobjects) != [obj]:
                how = "definer" if c["use"] == "XD" else "reexporter"
                # was the consuming class analysed before or after the object was moved?
                tm = clk.moves.get(id(obj))
                when = "after-move" if (k is not None and tm is not None and getattr(k, "_verif_t", 0) > tm) else "before-move"
                if how == "definer":
                    how = "definer:" + when
                ctx.fail(f"base-via-{how}:unresolved", payload,
                         f"{c['module']}.K bases {None if k is None else k.baseobjects!r} (order {order})")
            if k is not None:
                lk = k.docstring_linker
                for ident in (c["use"], old_name, new_name):
                    try:
                        with contextlib.redirect_stdout(io.StringIO()):
                            t = lk._resolve_identifier_xref(ident, 0)
                    except LookupError:
                        t = None
                    if t is not obj:
                        via = "definer-import" if ident == "XD" else ("reexporter-import" if ident == "XR" else "qualified-name")
                        ctx.fail("xref-via-%s:unresolved" % via, payload, f"docstring reference {ident!r} in {k!r} -> {t!r}")
    # an annotation that names the object through either import links to its one page
    for c in (meta["consumers"] if moved_expected else []):
        attr = system.allobjects.get(c["module"] + ".v_" + c["cname"])
        if attr is None:
            continue
        from pydoctor import epydoc2stan
        from pydoctor.stanutils import flatten
        try:
            with contextlib.redirect_stdout(io.StringIO()):
                stan = epydoc2stan.type2stan(attr)
            html = flatten(stan) if stan is not None else ""
        except Exception as e:
            html = "ERR:" + type(e).__name__
        ln = c["locals"][-1]
        want = obj.url
        if ('href="%s"' % want) not in html:
            via = "definer-import" if ln == "XD" else "reexporter-import"
            ctx.fail("annotation-via-%s:unlinked" % via, payload, f"annotation {ln!r} of {attr.fullName()} renders as {html[:200]!r}, expected a link to {want}")
    if moved_expected:
        try:
            fo = system.find_object(old_name)
        except LookupError:
            fo = None
        if fo is not obj:
            ctx.fail("find_object-old-name", payload, f"find_object({old_name!r}) = {fo!r}")
    # correspondence with the Names model
    toks, ids, objs = nd.state_tokens(system)
    if nd.has_dotted_names(objs):
        ctx.count("model-skipped:dotted-name")
        return
    queries, answers = [], []
    for c in meta["consumers"]:
        mod = system.allobjects[c["module"]]
        for ln in c["locals"] + ["pkg._b.X", new_name, "pkg._b.Other", "nosuch.name", ln_or("XD", c)] + ([c["alias"]] if c.get("alias") else []):
            queries.append("E|%d|%s" % (ids[id(mod)], enc(ln)))
            answers.append(nd.real_expand(mod, ln))
            queries.append("R|%d|%s" % (ids[id(mod)], enc(ln)))
            answers.append(nd.real_resolve(mod, ln, ids))
        k = system.allobjects.get(c["module"] + ".K_" + c["cname"])
        if k is not None:
            for ln in ("m", "XD.m", "XR.Inner.im", "K_%s.m2" % c["cname"], "Inner"):
                queries.append("E|%d|%s" % (ids[id(k)], enc(ln)))
                answers.append(nd.real_expand(k, ln))
    for full in (old_name, new_name, old_name + ".m", "pkg._b.nosuch", "other.root", "pkg", "pkg._b.X.Inner.im"):
        queries.append("F|" + enc(full))
        answers.append(nd.real_find(system, full, ids))
    reqs.append("names q " + " ".join(toks) + " ? " + " ".join(queries))
    impls.append("ok " + " ".join(answers))
    pay.append(payload)


def ln_or(name, c):
    return name if name in c["locals"] else c["locals"][0] + ".m"


def run(ctx: Ctx) -> None:
    nproj = 120 if ctx.quick else 2500
    reqs, impls, pay = [], [], []
    for i in range(nproj):
        units, meta = gen_project(ctx.rng)
        ords = orders(units, ctx.rng, 6 if ctx.quick else 24)
        nontriv = any(c["form"] != "reexporter" for c in meta["consumers"]) or meta["import"] in ("renamed", "star")
        for od in ords:
            canon = repr((sorted((u.qname, u.source) for u in units), od))
            ctx.case(canon, nontriv, {"units": {u.qname: u.source for u in units}, "order": od} if nontriv and len(ctx.samples) < 2 else None)
            ctx.count("import:" + meta["import"])
            ctx.count("reexporter:" + meta["kind"])
            check_one(ctx, units, meta, od, reqs, impls, pay)
    ctx.compare("names-queries", reqs, impls, pay)
    # relative import arithmetic: exhaustive small space, model's two functions + real importlib
    import importlib.util
    rreqs, rimpls = [], []
    for depth in range(1, 5):
        for ispkg in (True, False):
            for level in range(1, 6):
                mp = ".".join("p%d" % j for j in range(depth))
                pkgname = mp if ispkg else mp.rpartition(".")[0]
                try:
                    py = importlib.util.resolve_name("." * level, pkgname) if pkgname else None
                    if py is None:
                        raise ImportError
                    py = enc(py)
                except ImportError:
                    py = "ImportError"
                pd = real_relative_base(mp, ispkg, level)
                rreqs.append("names rel %s %s %d" % (enc(mp), "P" if ispkg else "M", level))
                rimpls.append("ok %s %s" % (pd, py))
                ctx.case(rreqs[-1], level > 1)
                if (pd == "too-high") != (py == "ImportError") or (pd != "too-high" and pd != py):
                    ctx.fail("relative-level", {"module": mp, "is_package": ispkg, "level": level},
                             f"pydoctor resolves level {level} in {mp} to {pd}, importlib to {py}")
    ctx.compare("relative-level", rreqs, rimpls)


def real_relative_base(mp: str, ispkg: bool, level: int) -> str:
    """run the real visit_ImportFrom on `from <dots> import zzz` inside module mp and read the alias"""
    from pydoctor import model
    s = model.System()
    b = s.systemBuilder(s)
    parts = mp.split(".")
    for j in range(len(parts)):
        q = ".".join(parts[:j + 1])
        last = j == len(parts) - 1
        src = ("from %s import zzz\n" % ("." * level)) if last else ""
        b.addModuleString(src, parts[j], parent_name=".".join(parts[:j]) or None, is_package=(not last) or ispkg)
    out = io.StringIO()
    with contextlib.redirect_stdout(out):
        b.buildModules()
    m = s.allobjects[mp]
    t = m._localNameToFullName_map.get("zzz")
    if t is None:
        return "too-high"
    return enc(t[:-len(".zzz")])


def replay(ctx: Ctx, obj) -> int:
    inp = obj.get("input") or obj.get("request") or {}
    print(obj.get("signature"), "-", obj.get("what"))
    for q, s in (inp.get("units") or {}).items():
        print("#", q)
        print(s)
    print("order:", inp.get("order"))
    return 0
