"""C17 — written inventories read back faithfully; malformed remote ones are survivable."""
from __future__ import annotations

import bz2
import gzip
import io
import itertools
import lzma
import posixpath
import zlib
from contextlib import contextmanager
from typing import Any, Dict, List, Optional, Sequence, Tuple

from ..core import Ctx, REPO, enc

THEOREMS = [
    "Inventory.roundtrip", "Inventory.roundtrip_exact", "Inventory.getLink_roundtrip", "Inventory.file_roundtrip",
    "Inventory.roundtrip_needs_names", "Inventory.generate_needs_rootsOk",
    "Inventory.parse_total", "Inventory.parseLine_total", "Inventory.prioLast_rejected",
    "Inventory.good_lines_survive", "Inventory.good_line_resolves",
    "Inventory.payload_terminates", "Inventory.stripComments_fuel_irrelevant", "Inventory.stripComments_lines",
    "Inventory.update_total", "Inventory.update_spec", "Inventory.update_unusable_reported",
    "Inventory.getLink_after_update", "Inventory.runSteps_state_ignores_asks", "Inventory.update_latest_wins",
    "Inventory.failed_update_keeps_links",
    # round 3: names discharged from the tree shape, written lines, cache, linker order, kind -> role table
    "Inventory.roundtrip_wellNamed", "Inventory.visList_nodup", "Inventory.visList_full_ok", "Inventory.written_lines",
    "Inventory.parseMaxAge_raises_only_invalid", "Inventory.parseMaxAge_ok_iff", "Inventory.prepareCache_raises_iff",
    "Inventory.prepareCache_total_partial", "Inventory.prepareCache_missing_dir", "Inventory.prepareCache_counterexample",
    "Inventory.prepareCacheOld_agrees", "Inventory.fetch_total",
    "Inventory.failed_download_reported", "Inventory.getLink_spec", "Inventory.getLink_truthy",
    "Inventory.xref_internal_first", "Inventory.xref_external_order", "Inventory.xref_external_is_getLink",
    "Inventory.linkTo_order", "Inventory.xref_roundtrip", "Inventory.role_table", "Inventory.role_is_sphinx_type",
    "Inventory.role_never_obj", "Inventory.DocKind.all_complete",
    # review items: behaviour at the edges and the proposed fixes
    "Inventory.collapseAux_no_nl", "Inventory.file_roundtrip_collapsed", "Inventory.split_ws_reads_like_sphinx",
    "Inventory.pySplitWs_join", "Inventory.splitters_agree",
    # driver.make: what is listed is what is written
    "Inventory.inventory_lists_what_is_written", "Inventory.summary_only_lists_nothing", "Inventory.inventory_only_lists_roots",
    # hunter round
    "Inventory.roundtrip_numeric_token_counterexample",
    # after df39b19: usable lines of damaged-but-trustworthy files are kept
    "Inventory.truncated_lines_resolve", "Inventory.undecodable_lines_dropped", "Inventory.getPayload_truncated",
    "Inventory.getPayload_undecodable", "Inventory.getPayload_intact", "Inventory.cutLastLine_append", "Inventory.cutLastLine_no_newline",
    "Inventory.splitlines_joinNL", "Inventory.goodEntries_dropEmptyLast", "Inventory.old_damaged_file_all_or_nothing",
    # historical, about the code before 2626e70 (generateFileOld) and 96f18c4 (parseLineSp)
    "Inventory.old_header_newline_counterexample", "Inventory.old_double_space_wrong_key", "Inventory.old_tab_separated_rejected",
    # historical, about the parser before /repo commit f721ca9 (parsePartsOld)
    "Inventory.old_indexError_iff", "Inventory.old_parse_total_counterexample", "Inventory.old_agrees",
    "Inventory.old_good_lines_survive_counterexample",
]
PARTIAL: dict = {
    "Inventory.roundtrip": "hypothesis OkName on the full names (non-empty, no whitespace): a name with a blank-separated int token from the "
                           "third token on is misread by both readers (roundtrip_needs_names, roundtrip_numeric_token_counterexample; open "
                           "finding roundtrip:name-with-numeric-token). Names with blanks but no such token do round-trip in the code and the "
                           "model (correspondence), but are outside the proved hypothesis. Same hypothesis in roundtrip_exact, written_lines, "
                           "file_roundtrip, roundtrip_wellNamed.",
    "Inventory.prepareCache_total_partial": "excludes shutil.rmtree failing for a reason other than a missing directory (permissions ...) and an "
                                            "unparsable --intersphinx-cache-max-age when the cache is enabled (InvalidMaxAge); both happen "
                                            "before any inventory is loaded and are outside the wording of C17. A missing cache directory is "
                                            "covered since /repo f96af79 (prepareCache_missing_dir; prepareCache_counterexample is historical)",
}
RULE = ("(a) exhaustive: every line of <=6 tokens joined by single spaces (empty tokens give runs of spaces) over {a, 1, -1, py:x, std:y, -, ''} through the real "
        "_parseInventoryLine and _parseInventory and through the Lean model, plus random lines over a wider token alphabet "
        "(signs, underscores, whitespace, 4300/4301-digit numbers, non-ASCII, every str.splitlines separator); non-trivial = the "
        "priority scan succeeds (some token at index >=2 is an int), so the line is not rejected at the first step and the "
        "name/typ/location/display index arithmetic runs. (b) generated projects (real System built from text) and real "
        "test packages -> real SphinxInventoryWriter -> bytes -> real SphinxInventory.update and sphinx.util.inventory."
        "InventoryFile.load, against the model's generate/parse/getLink on the tree abstracted from the real System; "
        "non-trivial = the tree has a hidden object with children and a class nested in a class. (c) robustness: every "
        "byte truncation of a valid inventory, wrong compressions, byte corruption, non-UTF-8 payloads, line mutations "
        "(column drop/duplication, non-numeric priority, non-py domain, spaces in names, empty display) mixed with "
        "well-formed lines -> real SphinxInventory.update vs the model; non-trivial = payload decompresses and holds "
        "at least one mutated and one well-formed line. Format-string metacharacters (%, %s, %(x)s, %%, {}, {0}, "
        "percent-escapes) are in the line alphabets (all lines of <=4 tokens over an 11-token alphabet holding one) and in "
        "the mutations, in malformed and in well-formed lines. (d) one reader over time: random sequences of update(url, bytes) "
        "(valid, mixed with malformed lines, truncated, corrupt, missing, a second version of the same inventory) interleaved "
        "with getLink(name), against the model run as a state machine and against what the served files say; non-trivial = "
        "a name is looked up before a later load (re)defines it. Hunter round: module FILE names with blanks and numbers "
        "('utils copy 2') in generated projects; files with one or two lines that are not UTF-8; for every truncation the "
        "oracle computes, with zlib.decompressobj and independently of pydoctor, the complete lines the stream still holds and "
        "requires the well-formed ones to resolve (a stream zlib rejects outright holds nothing trustworthy). (g) the real driver.main on a two-root project (non-ASCII module, private class, nested class) with 9 option "
        "combinations (plain, summary pages only, inventory only, --html-subject on a module / class / two objects / function / method, "
        "subject + summary): the subjects handed to the inventory writer against the model, and on disk: every entry leads to a page "
        "and anchor this run wrote and exactly the visible objects on written pages are listed. (0) corpus, run first and seed-independent: the input of every "
        "recorded finding and the needed shape of every seeded change (priority-last line, header-truncated downloads, "
        "percent lines, a compressed body holding newline+'#', the stale-lookup sequence, a non-ASCII project). (e) cache: "
        "parseMaxAge on every string of <=4 characters over a 13-character alphabet + boundary values; prepareCache over "
        "clear x enable x directory present/missing/not removable x 5 max-age strings; IntersphinxCache.get + "
        "System.fetchIntersphinxInventories with a fake session that returns bodies, raises 8 kinds of Exception or a "
        "BaseException; non-trivial = accepted max-age / a download fails. (f) linker: the real _EpydocLinker."
        "_resolve_identifier_xref and link_to on a real System for 21 identifiers x 6 contexts x random inventories "
        "(name resolution results observed on the real objects and handed to the model as parameters); getLink for "
        "every location of <=4 characters over {a,$,/,#}; the written domain:type of an object of each of the 18 "
        "DocumentableKinds against the model's table; non-trivial = the inventory holds the expanded or written name "
        "of an identifier that is no object of the system.")
ASSUMPTIONS = [
    "int(token) is transcribed for tokens without non-ASCII decimal digits / non-ASCII whitespace (CPython accepts those too); "
    "such tokens are not generated for the model comparison. CPython's int_max_str_digits is the default 4300.",
    "zlib is a parameter of the model: what the real inflater returns (error / output with eof False / output with eof True) is "
    "observed at the real call and handed to the model, and the bytes the real code hands to it are compared with the model's "
    "stripped payload. UTF-8 decoding is a parameter in the theorems and the model's own strict decoder (utf8Decode) in the "
    "correspondence, i.e. compared with bytes.decode on every payload and line.",
    "the writer model takes its subjects as given; which subjects driver.make hands over (plain, --html-subject, --html-summary-pages, "
    "--make-intersphinx alone) is modelled by inventorySubjects and compared with the real driver (stream g); that the page writer's "
    "recursion writes exactly the pages of those subjects is checked by the on-disk oracle only.",
    "Lean `Char` excludes surrogates: names containing lone surrogates are outside the model.",
    "linker: objForFullName, expandName, resolveName and the context search after the intersphinx test (walk up the parents, uncle "
    "search, all-modules search) are parameters of resolveXref/linkTo, observed on the real objects (name resolution is C04's layer).",
    "cache: the HTTP session, CacheControl/FileCache and shutil.rmtree are parameters (body / Exception / BaseException; removed or not); "
    "the DocumentableKind -> model class mapping (DocKind.cls) is tied to the builder only by the kinds stream.",
    "the model tree is abstracted from the real System (name, isinstance class, own privacyClass is HIDDEN, contents order); "
    "fullName, url, visibility propagation and traversal are recomputed by the model.",
]
EXPLANATION = ("Theorems over the model of sphinx.py hold for every object tree / token list / byte string; the model is tied to "
               "the real writer, reader and to Sphinx's own loader by the three correspondence streams. The totality statements "
               "(parse_total, good_lines_survive, update_total) are proved at full strength for the code after /repo commit f721ca9; "
               "the pre-fix parser is kept as parsePartsOld with machine-checked counterexamples (old_...).")

BASE = "http://h/doc"
URL = BASE + "/objects.inv"
SIG_PRIO_LAST = "parse-line:IndexError:prio-last"
SIG_SEPARATOR = "reader:repeated-separator:neither-resolved-nor-reported"
SIG_HEADER_NL = "header:newline-in-project-name"
SIG_PAGE_FILE = "location-decodes-to-missing-file:non-ascii"
SIG_REPORT_ENC = "report-aborts:UnicodeEncodeError:ascii-stdout"
SIG_TRUNCATED = "truncated-stream:complete-lines-lost"
SIG_UNDECODABLE = "undecodable-line:whole-file-lost"
SIG_NUMTOKEN = "roundtrip:name-with-numeric-token"


# ------------------------------------------------------------------ helpers

def compare(ctx: Ctx, stream: str, reqs, impls, pay) -> None:
    """ctx.compare, retried when the driver binary is being relinked by a concurrent `lake build`"""
    import time
    from ..core import Infra
    for attempt in range(4):
        try:
            ctx.compare(stream, reqs, impls, pay)
            return
        except (OSError, Infra):
            if attempt == 3:
                raise
            time.sleep(5)


def hexb(b: bytes) -> str:
    return "b:" + b.hex()


def int_model_ok(s: str) -> bool:
    """the model's `pyInt` covers this string (no non-ASCII decimal digit; whitespace never reaches int() since line.split())"""
    return not any(ord(c) > 127 and c.isdecimal() for c in s) and not any(0xD800 <= ord(c) <= 0xDFFF for c in s)


def is_int(tok: str) -> bool:
    try:
        int(tok)
        return True
    except ValueError:
        return False


def prio_is_last(line: str) -> bool:
    """independent description of the defect's trigger: first int-like column at index >= 2 is the last column"""
    parts = line.split()
    for i in range(2, len(parts)):
        if is_int(parts[i]):
            return i == len(parts) - 1
    return False


class Log:
    def __init__(self) -> None:
        self.msgs: List[Tuple[str, str, int]] = []

    def __call__(self, section: str, msg: str, thresh: int = 0) -> None:
        self.msgs.append((section, msg, thresh))


def canon_log(msgs: Sequence[Tuple[str, str, int]], base: str, url: str) -> str:
    out = []
    for section, msg, thresh in msgs:
        if section != 'sphinx' or thresh != -1:
            out.append("other:" + enc(f"{section}/{thresh}/{msg}"))
        elif msg == 'Failed to get remote base url for %s' % (url,):
            out.append("noBaseUrl:" + enc(url))
        elif msg == 'Failed to get object inventory from %s' % (url,):
            out.append("noData:" + enc(url))
        elif msg == 'Failed to uncompress inventory from %s' % (base,):
            out.append("uncompress:" + enc(base))
        elif msg == 'Failed to decode inventory from %s' % (base,):
            out.append("decode:" + enc(base))
        elif msg.startswith('Failed to parse line "') and msg.endswith('" for ' + base):
            out.append("badLine:" + enc(msg[len('Failed to parse line "'):len(msg) - len('" for ' + base)]) + ":" + enc(base))
        else:
            out.append("other:" + enc(msg))
    return " ".join(out) or "-"


def canon_links(links: Dict[str, Tuple[str, str]]) -> str:
    return " ".join(f"{enc(k)}={enc(b)}={enc(l)}" for k, (b, l) in links.items()) or "-"


def show_opt(v: Optional[str]) -> str:
    return "None" if v is None else enc(v)


# ------------------------------------------------------------------ implementation adapters

def impl_line(line: str) -> str:
    from pydoctor.sphinx import _parseInventoryLine
    try:
        name, typ, prio, location, display = _parseInventoryLine(line)
    except Exception as e:
        return type(e).__name__
    return f"ok {enc(name)} {enc(typ)} {prio} {enc(location)} {enc(display)}"


def impl_parse(base: str, payload: str) -> Tuple[str, Optional[str]]:
    """real SphinxInventory._parseInventory; returns (canonical, exception class or None)"""
    from pydoctor import sphinx
    log = Log()
    inv = sphinx.SphinxInventory(logger=log)
    try:
        res = inv._parseInventory(base, payload)
    except Exception as e:
        return f"{type(e).__name__} | - | {canon_log(log.msgs, base, '')}", type(e).__name__
    return f"ok | {canon_links(res)} | {canon_log(log.msgs, base, '')}", None


class ZSpy:
    """stands in for the `zlib` module inside pydoctor.sphinx: records what the inflater is handed and what it does:
    Z = zlib.error, P:<bytes> = output with eof False (the stream ends early), C:<bytes> = output, stream complete.
    Decoding is the model's own business (its UTF-8 decoder is compared through these streams)."""
    error = zlib.error
    compress = staticmethod(zlib.compress)

    def __init__(self) -> None:
        self.calls: List[Tuple[bytes, str]] = []

    def _record(self, data: bytes, out: bytes, eof: bool) -> None:
        ok = int_model_ok(out.decode("utf-8", "ignore"))
        self.calls.append((data, ("C:" if eof else "P:") + hexb(out)) if ok else (data, "X"))

    def decompress(self, data: bytes) -> bytes:      # the pre-df39b19 code path
        try:
            out = zlib.decompress(data)
        except zlib.error:
            self.calls.append((data, "Z"))
            raise
        self._record(data, out, True)
        return out

    def decompressobj(self, *a, **k):
        spy = self
        real = zlib.decompressobj(*a, **k)

        class D:
            @property
            def eof(self_):
                return real.eof

            @property
            def unused_data(self_):
                return real.unused_data

            def decompress(self_, data, *aa):
                try:
                    out = real.decompress(data, *aa)
                except zlib.error:
                    spy.calls.append((data, "Z"))
                    raise
                spy._record(data, out, real.eof)
                return out

            def flush(self_, *aa):
                return real.flush(*aa)
        return D()


class Cache:
    def __init__(self, data: Optional[bytes]) -> None:
        self.data = data

    def get(self, url: str) -> Optional[bytes]:
        return self.data

    def close(self) -> None:
        pass


def run_steps(steps: Sequence[tuple]) -> Tuple[Optional[str], str, List[str], Any, List[Optional[str]]]:
    """real calls on ONE SphinxInventory, in order: ("U", url, data) = update, ("Q", name) = getLink.
    returns (model request or None if outside the int model, canonical impl answer, exception names, inventory,
    the getLink answers in order)"""
    from pydoctor import sphinx
    log = Log()
    inv = sphinx.SphinxInventory(logger=log)
    spy = ZSpy()
    real_zlib = sphinx.zlib
    sphinx.zlib = spy  # type: ignore
    outs, req, excs = [], ["inventory session"], []
    answers: List[Optional[str]] = []
    modelable = True
    canon_msgs: List[str] = []
    try:
        for st in steps:
            if st[0] == "Q":
                req.append("Q " + enc(st[1]))
                try:
                    ans = inv.getLink(st[1])
                    outs.append("q=" + show_opt(ans))
                except Exception as e:  # a lookup must not raise either
                    ans = None
                    excs.append(type(e).__name__)
                    outs.append("q=EXC:" + type(e).__name__)
                answers.append(ans)
                continue
            _, url, data = st
            n0, m0 = len(spy.calls), len(log.msgs)
            try:
                inv.update(Cache(data), url)
                r = "ok"
            except Exception as e:  # the property says this never happens
                r = type(e).__name__
                excs.append(r)
            if len(spy.calls) > n0:
                payload, z = spy.calls[-1]
                shown = hexb(payload)
            else:
                z, shown = "Z", "-"
            if z == "X":
                modelable = False
            outs.append(f"{shown}:{r}")
            base = url.rsplit('/', 1)[0] if '/' in url else ''
            c = canon_log(log.msgs[m0:], base, url)
            if c != "-":
                canon_msgs.append(c)
            req.append(f"U {enc(url)} {'N' if data is None else hexb(data)} {z}")
    finally:
        sphinx.zlib = real_zlib  # type: ignore
    impl = f"{' '.join(outs) or '-'} | {canon_links(inv._links)} | {' '.join(canon_msgs) or '-'}"
    inv._c17_log = list(log.msgs)  # type: ignore
    inv._c17_z = [z for _, z in spy.calls]  # type: ignore
    return (" ".join(req) if modelable else None), impl, excs, inv, answers


def run_session(updates: Sequence[Tuple[str, Optional[bytes]]], queries: Sequence[str]) -> Tuple[Optional[str], str, List[str], Any]:
    """successive real `update` calls on one SphinxInventory, then getLink queries"""
    req, impl, excs, inv, _ = run_steps([("U", u, d) for u, d in updates] + [("Q", q) for q in queries])
    return req, impl, excs, inv


# ------------------------------------------------------------------ stream (a): lines

ALPHA = ["a", "1", "-1", "py:x", "std:y", "-", ""]
WIDE = ALPHA + ["+1", "1_0", "\t1", "1\t", "0x1", "1.0", "--1", "1_", "_1", "1__0", "00", "-0_0", "+", "é", "名1", "py:", "py",
                "PY:x", "$", "l$", "9" * 4300, "9" * 4301, "-" + "0" * 4301, "1_" * 4300 + "1", "\x0b1\x0c", "\x1c1", "1\x00",
                "a\nb", "1\r", "\r\n", "x\x85", "\u2028", "\u2029z", "\x1d", "\x1e2", "\x0c", "py:méthode", "b.c", "loc.html#a",
                "%", "%s", "%(x)s", "%%", "{}", "{0}", "caf%C3%A9", "100%", "%d", "py:%s", "{x!r}", "%-1", "$%"]
# format-string metacharacters: every line of <= 4 tokens over this alphabet is run as well
PCT = ["a", "1", "py:x", "-", "%", "%s", "%(x)s", "%%", "{}", "{0}", "caf%C3%A9"]


def stream_lines(ctx: Ctx) -> None:
    reqs: List[str] = []
    impls: List[str] = []
    pay: List[Any] = []
    maxlen = 6
    lines: List[str] = []
    for n in range(1, maxlen + 1):
        for toks in itertools.product(ALPHA, repeat=n):
            lines.append(" ".join(toks))
    for n in range(1, 5):
        for toks in itertools.product(PCT, repeat=n):
            if any(("%" in t or "{" in t) for t in toks):
                lines.append(" ".join(toks))
    ctx.extra["exhaustive_lines"] = len(lines)
    nrand = 4000 if ctx.quick else 120000
    for _ in range(nrand):
        n = ctx.rng.randint(1, 9)
        lines.append(" ".join(ctx.rng.choice(WIDE if ctx.rng.random() < 0.6 else ALPHA) for _ in range(n)))
    seen_sample = 0
    for k, line in enumerate(lines):
        parts = line.split()
        nontriv = any(is_int(p) for p in parts[2:])
        a = impl_line(line)
        b, exc = impl_parse(BASE, line)
        if not int_model_ok(line):
            ctx.count("line:outside-int-model")
        else:
            reqs.append("inventory line " + enc(line))
            impls.append(a)
            pay.append({"line": line})
            reqs.append(f"inventory parse {enc(BASE)} {enc(line)}")
            impls.append(b)
            pay.append({"base": BASE, "payload": line})
        sample = None
        if nontriv and seen_sample < 2 and len(parts) >= 5 and a.startswith("ok"):
            sample = {"line": line, "impl": a}
            seen_sample += 1
        ctx.case("line " + enc(line), nontriv, sample)
        ctx.count("line:tokens=%d" % min(len(parts), 7))
        ctx.count("line:outcome=" + a.split(" ")[0])
        # direct oracle: the file consisting of this line must not abort the reader
        if exc is not None:
            sig = SIG_PRIO_LAST if exc == "IndexError" and any(prio_is_last(l) for l in line.splitlines()) else "parse-raises:" + exc
            ctx.fail(sig, {"base": BASE, "payload": line}, f"_parseInventory raised {exc} on the one-line payload {line!r}")
    compare(ctx, "lines", reqs, impls, pay)
    ctx.exhaustive = True


# ------------------------------------------------------------------ stream (b): projects

NAMES = ["a", "b", "c", "d", "e", "f", "g", "h", "_p", "__dd__", "Cls", "K", "x", "y", "val", "Ünï", "名", "_", "a1", "B_b"]


FILE_NAMES = ["utils copy 2", "a b", "x 7 y", "v 2", "m 1 2", "w py:x 3", "old 2019 backup"]


def gen_body(rng, depth: int, in_class: bool, prefix: str, hidden: List[str], dup: bool) -> str:
    out = []
    used: List[str] = []
    for _ in range(rng.randint(0 if depth else 1, 4)):
        name = rng.choice(NAMES)
        if name in used and not dup:
            continue
        used.append(name)
        full = prefix + "." + name
        if rng.random() < 0.2:
            hidden.append(full)
        r = rng.random()
        if r < 0.4 and depth < 3:
            body = gen_body(rng, depth + 1, True, full, hidden, dup)
            body = "".join("    " + l + "\n" for l in body.splitlines()) or "    pass\n"
            out.append(f"class {name}:\n{body}")
        elif r < 0.7:
            deco = ""
            if in_class and rng.random() < 0.3:
                deco = rng.choice(["@staticmethod\n", "@classmethod\n", "@property\n"])
            out.append(f"{deco}def {name}({'self' if in_class and 'static' not in deco else ''}):\n    pass\n")
        else:
            out.append(f"{name} = 1\n")
    return "".join(out)


def gen_project(rng) -> Tuple[List[Tuple[str, str, Optional[str], bool]], List[str]]:
    """modules as (text, modname, parent_name, is_package) in an order where parents come first; hidden full names"""
    mods: List[Tuple[str, str, Optional[str], bool]] = []
    hidden: List[str] = []
    dup = rng.random() < 0.2

    def add(parent: Optional[str], depth: int, used: List[str]) -> None:
        name = rng.choice([n for n in NAMES if n not in used] or ["zz"])
        if rng.random() < 0.06:
            # a module is named after its file: 'utils copy 2.py' (a duplicated file) is documented as module 'utils copy 2'
            name = rng.choice([n for n in FILE_NAMES if n not in used] or [name])
        used.append(name)
        full = name if parent is None else parent + "." + name
        if rng.random() < 0.15:
            hidden.append(full)
        is_pkg = depth < 2 and rng.random() < 0.5
        mods.append((gen_body(rng, 0, False, full, hidden, dup), name, parent, is_pkg))
        if is_pkg:
            sub: List[str] = []
            for _ in range(rng.randint(0, 3)):
                add(full, depth + 1, sub)
    roots: List[str] = []
    for _ in range(rng.choice([1, 1, 1, 2, 3])):
        add(None, 0, roots)
    return mods, hidden


def build_system(mods, hidden):
    from pydoctor import model
    from pydoctor.options import Options
    opts = Options.defaults()
    opts.privacy = [(model.PrivacyClass.HIDDEN, h) for h in hidden]
    system = model.System(opts)
    b = system.systemBuilder(system)
    for text, name, parent, is_pkg in mods:
        b.addModuleString(text, name, parent_name=parent, is_package=is_pkg)
    b.buildModules()
    return system


def abstract(obj) -> Tuple[str, str, bool, list]:
    """model input read off the real object: name, isinstance class, own privacy verdict, contents in order"""
    from pydoctor import model
    if isinstance(obj, model.Package):
        k = "p"
    elif isinstance(obj, model.Module):
        k = "m"
    elif isinstance(obj, model.Class):
        k = "c"
    elif isinstance(obj, model.Function):
        k = "f" if obj.kind is model.DocumentableKind.FUNCTION else "M"
    elif isinstance(obj, model.Attribute):
        k = "a"
    else:
        k = "o"
    return (obj.name, k, obj.privacyClass is model.PrivacyClass.HIDDEN, [abstract(c) for c in obj.contents.values()])


def forest_tokens(f) -> str:
    def tok(t):
        n, k, h, cs = t
        return "( %s %s %s %s)" % (enc(n), k, "h" if h else "v", "".join(tok(c) + " " for c in cs))
    return " ".join(tok(t) for t in f)


def tree_nontrivial(f) -> bool:
    hid, nested = False, False

    def go(t, parent_kind):
        nonlocal hid, nested
        n, k, h, cs = t
        if h and cs:
            hid = True
        if k == "c" and parent_kind == "c":
            nested = True
        for c in cs:
            go(c, k)
    for t in f:
        go(t, None)
    return hid and nested


def write_inventory(subjects, project="proj", version="1.0") -> Tuple[Optional[bytes], Optional[str], List[str]]:
    """real SphinxInventoryWriter.generate -> (file bytes, exception class, 'Unknown type' names)"""
    from pydoctor import sphinx
    log = Log()
    w = sphinx.SphinxInventoryWriter(logger=log, project_name=project, project_version=version)
    out = io.BytesIO()

    @contextmanager
    def opener(path):
        yield out
    w._openFileForWriting = opener  # type: ignore
    try:
        w.generate(subjects, "base")
    except Exception as e:
        return None, type(e).__name__, []
    unknown = []
    for section, msg, thresh in log.msgs:
        if msg.startswith("Unknown type "):
            unknown.append(msg.rsplit(" for ", 1)[1][:-1])
    return out.getvalue(), None, unknown


def expected_entries(system) -> Tuple[Dict[str, str], List[str]]:
    """direct oracle's reading of "one entry per visible documented object": every object reachable from the
    roots through `contents` that is visible, name -> url"""
    exp: Dict[str, str] = {}
    dups: List[str] = []

    def go(o):
        if o.isVisible:
            fn = o.fullName()
            if fn in exp:
                dups.append(fn)
            exp[fn] = o.url
        for c in o.contents.values():
            go(c)
    for r in system.rootobjects:
        go(r)
    return exp, dups


def sphinx_load(data: bytes, base: str) -> Tuple[Optional[Dict[str, List[str]]], Optional[str]]:
    from sphinx.util.inventory import InventoryFile
    try:
        inv = InventoryFile.load(io.BytesIO(data), base, posixpath.join)
    except Exception as e:
        return None, type(e).__name__ + ": " + str(e)[:100]
    flat: Dict[str, List[str]] = {}
    for typ, items in inv.items():
        for name, item in items.items():
            uri = item.uri if hasattr(item, "uri") else item[2]
            flat.setdefault(name, []).append(uri)
    return flat, None


def check_project(ctx: Ctx, system, label: Any, reqs, impls, pay) -> None:
    forest = [abstract(r) for r in system.rootobjects]
    data, exc, unknown = write_inventory(system.rootobjects)
    nontriv = tree_nontrivial(forest)
    ftok = forest_tokens(forest)
    ctx.count("project:objects=%s" % bucket(sum(1 for _ in flat_nodes(forest))))
    ctx.count("project:nontrivial" if nontriv else "project:plain")
    if exc is not None:
        ctx.fail("writer-raises:" + exc, label, f"SphinxInventoryWriter.generate raised {exc}")
        ctx.case("project " + ftok, nontriv)
        return
    assert data is not None
    header, _, comp = data.partition(b"zlib.\n")
    content = zlib.decompress(comp).decode("utf-8")
    exp, dups = expected_entries(system)
    # --- real reader
    names = list(exp) + ["no.such.name", ""]
    sreq, simpl, excs, inv = run_session([(URL, data)], names)
    # model: generate + parse + getLink, and the reader session on the real bytes
    rt_req = f"inventory roundtrip {enc(BASE)} {ftok}"
    if int_model_ok(content):
        vis = " ".join(f"{enc(k)}={enc(v)}" for k, v in exp.items()) or "-"
        gl = " ".join(show_opt(inv.getLink(k)) for k in exp) or "-"
        reqs.append(rt_req)
        impls.append(f"ok {enc(content)} | {canon_links(inv._links)} | - | {vis} | {gl}")
        pay.append({"project": label, "forest": forest})
        reqs.append("inventory gen " + ftok)
        impls.append(f"ok {enc(content)} | {' '.join(enc(u) for u in unknown) or '-'}")
        pay.append({"project": label, "forest": forest})
        if sreq is not None:
            reqs.append(sreq)
            impls.append(simpl)
            pay.append({"project": label, "session": [[URL, data.hex()]], "queries": names})
    ctx.case("project " + ftok, nontriv,
             {"project": label, "objects": len(exp), "content_head": content[:160]} if nontriv and ctx.dist.get("project:sampled", 0) < 2 and not ctx.count("project:sampled") else None)
    # --- direct oracle (independent of the model)
    if dups:
        ctx.fail("two-visible-objects-one-name", label, f"visible reachable objects share the full name {dups[:3]}")
    if excs:
        ctx.fail("update-raises:" + excs[0], label, "SphinxInventory.update raised on pydoctor's own objects.inv")
    got = dict(inv._links)
    want = {k: (BASE, v) for k, v in exp.items()}
    # names the line format cannot carry (a blank-separated int token from the third token on): both readers take that
    # token for the priority column. Recorded finding; everything else must still be exact.
    affected = {k: numeric_token_key(k) for k in exp if numeric_token_key(k) is not None}
    shadow = set(affected) | set(affected.values())
    if affected:
        ctx.count("project:numeric-token-names", len(affected))

    def minus(d):
        return {k: v for k, v in d.items() if k not in shadow}
    if got != want:
        missing = sorted(set(want) - set(got))[:3]
        extra = sorted(set(got) - set(want))[:3]
        wrong = sorted(k for k in want if k in got and got[k] != want[k])[:3]
        kind = "missing" if missing else "extra" if extra else "wrong-location"
        if affected and minus(got) == minus(want):
            ctx.fail(SIG_NUMTOKEN, label, f"pydoctor reader: visible object(s) {sorted(affected)[:3]} have no (or a wrong) entry: the written "
                                          f"name holds a stand-alone number that is read as the priority column (missing={missing} extra={extra} wrong={wrong})")
        else:
            ctx.fail("roundtrip-pydoctor:" + kind, label, f"pydoctor reader: missing={missing} extra={extra} wrong={wrong}")
    for k, v in exp.items():
        if k not in shadow and inv.getLink(k) != f"{BASE}/{v}":
            ctx.fail("getlink-wrong", label, f"getLink({k!r}) = {inv.getLink(k)!r}, documented at {BASE}/{v}")
            break
    flat, serr = sphinx_load(data, BASE)
    if serr is not None:
        ctx.fail("sphinx-loader-raises", label, "sphinx.util.inventory.InventoryFile.load: " + serr)
    else:
        assert flat is not None
        swant = {k: [f"{BASE}/{v}"] for k, v in exp.items()}
        if flat != swant:
            missing = sorted(set(swant) - set(flat))[:3]
            extra = sorted(set(flat) - set(swant))[:3]
            wrong = sorted(k for k in swant if k in flat and flat[k] != swant[k])[:3]
            kind = "missing" if missing else "extra" if extra else "wrong-or-duplicate"
            if affected and minus(flat) == minus(swant):
                ctx.fail(SIG_NUMTOKEN, label, f"Sphinx loader: visible object(s) {sorted(affected)[:3]} have no (or a wrong) entry "
                                              f"(missing={missing} extra={extra} wrong={wrong})")
            else:
                ctx.fail("roundtrip-sphinx:" + kind, label, f"Sphinx loader: missing={missing} extra={extra} wrong={wrong}")
    ctx.count("project:sphinx-loaded")


def flat_nodes(f):
    for t in f:
        yield t
        yield from flat_nodes(t[3])


def bucket(n: int) -> str:
    for b in (0, 1, 2, 4, 8, 16, 32, 64, 128, 256, 1024):
        if n <= b:
            return "<=%d" % b
    return ">1024"


REAL_PACKAGES = ["basic", "allgames", "nestedconfusion", "relativeimporttest", "reparented_module", "multipleinheritance",
                 "cyclic_imports", "importingfrompackage", "codeininit", "reparenting_follows_aliases"]


def stream_projects(ctx: Ctx) -> None:
    from pydoctor import model
    from pydoctor.options import Options
    reqs: List[str] = []
    impls: List[str] = []
    pay: List[Any] = []
    nproj = 250 if ctx.quick else 6000
    for _ in range(nproj):
        mods, hidden = gen_project(ctx.rng)
        try:
            system = build_system(mods, hidden)
        except Exception as e:
            ctx.count("project:build-failed:" + type(e).__name__)
            continue
        check_project(ctx, system, {"modules": [[t, n, p, k] for t, n, p, k in mods], "hidden": hidden}, reqs, impls, pay)
    # real packages shipped with pydoctor's test-suite (and, in the thorough tier, pydoctor itself)
    paths = [REPO / "pydoctor" / "test" / "testpackages" / p for p in REAL_PACKAGES]
    if not ctx.quick:
        paths.append(REPO / "pydoctor")
    for path in paths:
        if not path.exists():
            ctx.count("project:real-missing")
            continue
        for hide in ([], None):
            opts = Options.defaults()
            system = model.System(opts)
            b = system.systemBuilder(system)
            try:
                b.addModule(path)
                b.buildModules()
            except Exception as e:
                ctx.count("project:real-build-failed:" + type(e).__name__)
                continue
            hidden: List[str] = []
            if hide is None:  # hide a few classes / modules of the real project
                cands = sorted(n for n, o in system.allobjects.items() if isinstance(o, (model.Class, model.Module)) and o.parent is not None)
                hidden = ctx.rng.sample(cands, min(len(cands), 3))
                system.options.privacy = [(model.PrivacyClass.HIDDEN, h) for h in hidden]
                system._privacyClassCache.clear() if hasattr(system, "_privacyClassCache") else None
            check_project(ctx, system, {"real": path.name, "hidden": hidden}, reqs, impls, pay)
            ctx.count("project:real")
    # objects the builder never makes: a Documentable of unknown type, and a parent-less function as subject
    for i in range(6):
        opts = Options.defaults()
        opts.privacy = [(model.PrivacyClass.HIDDEN, "f")] if i % 3 == 2 else []
        system = model.System(opts)
        if i < 3:
            f = model.Function(system, "f", None)
            data, exc, unknown = write_inventory([f])
            req = "inventory gen " + forest_tokens([("f", "f", i % 3 == 2, [])])
            reqs.append(req)
            impls.append(exc if exc else "ok " + enc(zlib.decompress(data.partition(b"zlib.\n")[2]).decode()) + " | -")
            pay.append({"odd": "parentless function", "hidden": i % 3 == 2})
            ctx.case(req, False)
            ctx.count("project:odd-subject")
        else:
            b = system.systemBuilder(system)
            b.addModuleString("class C:\n    pass\n", "m")
            b.buildModules()
            odd = model.Documentable(system, "odd", system.allobjects["m.C" if i == 4 else "m"])
            odd.kind = model.DocumentableKind.ATTRIBUTE
            system.addObject(odd)
            check_project(ctx, system, {"odd": "Documentable of unknown type", "under": odd.parent.fullName()}, reqs, impls, pay)
    # the header bytes for assorted project names / versions
    from pydoctor import sphinx
    for _ in range(40 if ctx.quick else 400):
        pj = "".join(ctx.rng.choice(["a", "Proj", " ", "-", "é", "名", "1", ".", "#", "\n", "\t"]) for _ in range(ctx.rng.randint(0, 6)))
        ver = "".join(ctx.rng.choice(["1", ".", "0", "rc", " ", "\n", "ü"]) for _ in range(ctx.rng.randint(0, 5)))
        w = sphinx.SphinxInventoryWriter(logger=Log(), project_name=pj, project_version=ver)
        req = f"inventory header {enc(pj)} {enc(ver)}"
        reqs.append(req)
        impls.append(hexb(w._generateHeader()))
        pay.append({"header": [pj, ver]})
        ctx.case(req, False)
        ctx.count("project:header")
    compare(ctx, "projects", reqs, impls, pay)


# ------------------------------------------------------------------ stream (c): robustness

GOOD_LINES = [
    "pkg py:module -1 index.html -",
    "pkg.mod py:module -1 pkg.mod.html -",
    "pkg.mod.C py:class -1 pkg.mod.C.html -",
    "pkg.mod.C.meth py:method -1 pkg.mod.C.html#meth -",
    "pkg.mod.func py:function -1 pkg.mod.html#$ -",
    "pkg.mod.attr py:attribute 1 pkg.mod.html#attr Display Name",
    "pkg.dollar py:function -1 api/$ -",
    "pkg.caf%C3%A9 py:function -1 pkg.html#caf%C3%A9 100% {} %s",
    "pkg.%(fmt)s py:attribute -1 a%sb/{0}.html#%% -",
]


def mutate_line(rng, i: int) -> Tuple[str, str]:
    """a mutated line with a fresh name (never collides with a good line); returns (kind, line)"""
    name = f"zz{i}.obj"
    cols = [name, "py:function", "-1", f"zz{i}.html", "-"]
    kind = rng.choice(["drop-col", "dup-col", "bad-prio", "non-py", "space-name", "empty-display", "prio-last", "empty-line",
                       "junk", "int-name", "two-prio", "only-name", "tabs", "empty-location", "dollar-only", "lead-space",
                       "pct-junk", "pct-truncated", "pct-columns", "sep-double-space", "sep-tab", "sep-mixed"])
    if kind == "drop-col":
        j = rng.randrange(5)
        cols = cols[:j] + cols[j + 1:]
    elif kind == "dup-col":
        j = rng.randrange(5)
        cols = cols[:j + 1] + cols[j:]
    elif kind == "bad-prio":
        cols[2] = rng.choice(["x", "1.5", "--1", "0x1", "1_", "", "١"])
    elif kind == "non-py":
        cols[1] = rng.choice(["std:label", "c:function", "js:data", "py", ":", "pY:x"])
    elif kind == "space-name":
        cols[0] = rng.choice([f"zz{i} obj", f"zz{i}  obj", f"zz{i} obj 7", f"zz{i} 7 obj"])
    elif kind == "empty-display":
        cols = cols[:4] + [""]
    elif kind == "prio-last":
        cols = cols[:3]
    elif kind == "empty-line":
        cols = [""]
    elif kind == "junk":
        cols = [rng.choice(["#", "\x00", "<html>", "404 Not Found", "a b c d e f g h", "\ufeff"])]
    elif kind == "int-name":
        cols[0] = str(i)
    elif kind == "two-prio":
        cols = [name, "py:function", "-1", "2", "loc", "-"]
    elif kind == "only-name":
        cols = [name]
    elif kind == "tabs":
        cols = ["\t".join(cols)]
    elif kind == "empty-location":
        cols[3] = ""
    elif kind == "dollar-only":
        cols[3] = "$"
    elif kind == "lead-space":
        cols = [""] + cols
    elif kind.startswith("sep-"):   # a well-formed line, columns separated by more / other whitespace (Sphinx separates with \s+)
        seps = {"sep-double-space": ["  "], "sep-tab": ["\t"], "sep-mixed": ["  ", "\t", " \t", "   "]}[kind]
        return kind, "".join(c + (rng.choice(seps) if j < 4 else "") for j, c in enumerate(cols))
    elif kind == "pct-junk":      # malformed lines holding format-string metacharacters
        cols = [rng.choice(['<td width="50%">404 Not Found</td>', "discount 100%", "%", "%s %s %s", "%(line)s", "{} {0} {x}",
                            "100%% sure", "%d items py:x", "caf%C3%A9", "%n%n%n%n", "{", "}{"])]
    elif kind == "pct-truncated":  # a quoted name, columns missing
        cols = [f"zz{i}.caf%C3%A9", "py:function"] + rng.choice([[], ["-1"], ["-1", "zz.html#%C3%A9"], ["x%sx"]])
    elif kind == "pct-columns":    # metacharacters inside otherwise plausible columns
        j = rng.randrange(5)
        cols[j] = rng.choice(["%", "%s", "%(x)s", "%%", "{}", "{0}", "100%"]) + (cols[j] if j in (0, 1) else "")
    return kind, " ".join(cols)


def stream_robust(ctx: Ctx) -> None:
    reqs: List[str] = []
    impls: List[str] = []
    pay: List[Any] = []
    header = b"# Sphinx inventory version 2\n# Project: p\n# Version: 1\n# The rest of this file is compressed with zlib.\n"
    text = "".join(l + "\n" for l in GOOD_LINES)
    valid = header + zlib.compress(text.encode())
    good_names = [l.split(" ")[0] for l in GOOD_LINES]
    good_want = {"pkg": "index.html", "pkg.mod": "pkg.mod.html", "pkg.mod.C": "pkg.mod.C.html",
                 "pkg.mod.C.meth": "pkg.mod.C.html#meth", "pkg.mod.func": "pkg.mod.html#pkg.mod.func",
                 "pkg.mod.attr": "pkg.mod.html#attr", "pkg.dollar": "api/pkg.dollar",
                 "pkg.caf%C3%A9": "pkg.html#caf%C3%A9", "pkg.%(fmt)s": "a%sb/{0}.html#%%"}

    def one(kind: str, updates, label, n_mut: int = 0, expect_good: bool = False) -> Any:
        sreq, simpl, excs, inv = run_session(updates, good_names + ["zz0.obj", "nope"])
        if sreq is not None:
            reqs.append(sreq)
            impls.append(simpl)
            pay.append(label)
        else:
            ctx.count("robust:outside-int-model")
        ctx.count("robust:" + kind)
        nontriv = expect_good and n_mut > 0
        ctx.case("robust " + (sreq or repr(label)), nontriv,
                 {"kind": kind, "impl": simpl[:300]} if nontriv and ctx.dist.get("robust:sampled", 0) < 2 and not ctx.count("robust:sampled") else None)
        # direct oracle 1: update never raises
        if excs:
            lines = []
            for u, d in updates:
                try:
                    lines += zlib.decompress(strip_comments_py(d or b"")).decode("utf-8").splitlines()
                except Exception:
                    pass
            sig = "update-raises:" + excs[0]
            if excs[0] == "IndexError" and any(prio_is_last(l) for l in lines):
                # the recorded defect only if the priority-last lines are what raises: without them update must return
                rest = "\n".join(l for l in lines if not prio_is_last(l))
                _, _, excs2, _ = run_session([(URL, header + zlib.compress(rest.encode("utf-8")))], [])
                if not excs2:
                    sig = SIG_PRIO_LAST
            ctx.fail(sig, label, f"SphinxInventory.update raised {excs[0]} (the run aborts)")
        # direct oracle 1b: bytes that are unusable as a whole are reported (one error per failed update) and skipped
        if len(updates) == 1 and not excs:
            zs = inv._c17_z
            undecodable = False
            if zs and zs[-1][:2] in ("C:", "P:"):
                try:
                    bytes.fromhex(zs[-1][4:]).decode("utf-8")
                except UnicodeError:
                    undecodable = True
            damaged = (not zs) or zs[-1] == "Z" or zs[-1].startswith("P:") or undecodable
            partly_usable = survivable_lines(updates[0][1])[0] is not None and "/" in updates[0][0]
            if damaged and not partly_usable and (len(inv._c17_log) != 1 or inv._c17_log[0][2] != -1 or inv._links):
                ctx.fail("unusable-not-reported", label, f"unusable inventory: {len(inv._c17_log)} errors logged, {len(inv._links)} links kept")
            if damaged and partly_usable and not inv._c17_log:
                ctx.fail("damage-not-reported", label, "an inventory that ends early / holds undecodable lines was loaded without any report")
        # direct oracle 1c: a stream that merely ends early, or holds lines that are not UTF-8, still has usable lines:
        # the well-formed ones among them resolve
        if len(updates) == 1 and not excs:
            kind_s, lines_s = survivable_lines(updates[0][1])
            if kind_s and "/" in updates[0][0]:
                lost = [l.split(" ")[0] for l in lines_s if l in GOOD_LINES and inv.getLink(l.split(" ")[0]) != f"{BASE}/{good_want[l.split(' ')[0]]}"]
                ctx.count("robust:survivable:" + kind_s)
                if lost:
                    ctx.fail(SIG_TRUNCATED if kind_s == "truncated" else SIG_UNDECODABLE, label,
                             f"{kind_s} inventory: {len(lost)} complete well-formed line(s) of the file do not resolve, e.g. {lost[:3]}")
        # direct oracle 2: the well-formed lines of the same file still resolve
        if expect_good:
            bad = [n for n in good_names if inv.getLink(n) != f"{BASE}/{good_want[n]}"]
            if bad:
                lines = zlib.decompress(strip_comments_py(updates[-1][1])).decode("utf-8").splitlines()
                sig = SIG_PRIO_LAST if any(prio_is_last(l) for l in lines) and excs else "good-line-lost"
                ctx.fail(sig, label, f"well-formed lines no longer resolve next to malformed ones: {bad[:3]}")
        return inv

    # 1. every truncation of a valid inventory (and of one without header)
    step = 1
    for k in range(0, len(valid) + 1, step):
        one("truncate", [(URL, valid[:k])], {"session": [[URL, valid[:k].hex()]]}, expect_good=(k == len(valid)))
    comp = zlib.compress(text.encode())
    for k in range(0, len(comp) + 1, 3):
        one("truncate-noheader", [(URL, comp[:k])], {"session": [[URL, comp[:k].hex()]]}, expect_good=(k == len(comp)))
    # 2. wrong compression / no compression / trailing garbage / header variants / non-UTF-8
    raw = text.encode()
    co = zlib.compressobj(wbits=-15)
    deflate_raw = co.compress(raw) + co.flush()
    variants = {
        "gzip": header + gzip.compress(raw), "bz2": header + bz2.compress(raw), "lzma": header + lzma.compress(raw),
        "raw-deflate": header + deflate_raw, "plain-text": header + raw, "double-zlib": header + zlib.compress(zlib.compress(raw)),
        "trailing-garbage": valid + b"garbage", "no-header": zlib.compress(raw), "crlf-header": header.replace(b"\n", b"\r\n") + zlib.compress(raw),
        "extra-comment": header + b"# one more\n" + zlib.compress(raw), "blank-line-before": header + b"\n" + zlib.compress(raw),
        "comment-only": b"# nothing", "hash-no-newline": b"#", "empty": b"", "none": None, "newline-only": b"\n\n\n",
        "latin1": header + zlib.compress("café py:class -1 c.html -\n".encode("latin-1")),
        "utf16": header + zlib.compress(text.encode("utf-16")), "lone-ff": header + zlib.compress(b"\xff\xfe\n" + raw),
        "html-404": b"<html><body>404</body></html>\n", "version1": b"# Sphinx inventory version 1\n# Project: p\n# Version: 1\npkg mod pkg.html\n",
        "empty-payload": header + zlib.compress(b""), "header-only": header,
    }
    for name, data in variants.items():
        one("variant:" + name, [(URL, data)], {"session": [[URL, None if data is None else data.hex()]], "variant": name},
            expect_good=name in ("trailing-garbage", "no-header", "extra-comment"))
    for url in ["nourl", "", "a/b", "/x", "a/", "http://h/p/q/objects.inv", "//"]:
        one("url", [(url, valid)], {"session": [[url, valid.hex()]]})
    # two inventories into one reader (dict.update order and overwrite)
    other = header + zlib.compress(b"pkg.mod.C py:class -1 other/C.html -\nnew.name py:function -1 n.html#$ -\n")
    sreq, simpl, excs, inv = run_session([(URL, valid), ("http://o/objects.inv", other)], good_names + ["new.name"])
    reqs.append(sreq); impls.append(simpl); pay.append({"session": [[URL, valid.hex()], ["http://o/objects.inv", other.hex()]]})
    ctx.case("robust " + sreq, False)
    # 3. byte corruption
    ncorrupt = 300 if ctx.quick else 8000
    for _ in range(ncorrupt):
        d = bytearray(valid)
        for _ in range(ctx.rng.randint(1, 3)):
            d[ctx.rng.randrange(len(d))] = ctx.rng.randrange(256)
        one("corrupt", [(URL, bytes(d))], {"session": [[URL, bytes(d).hex()]]})
    nbytes = 200 if ctx.quick else 5000
    for _ in range(nbytes):
        d = bytes(ctx.rng.choice([35, 10, 120, 156, 0, 255, ctx.rng.randrange(256)]) for _ in range(ctx.rng.randint(0, 24)))
        one("random-bytes", [(URL, d)], {"session": [[URL, d.hex()]]})
    # 3b. one or two lines that are not UTF-8 among the well-formed ones (a Latin-1 title, a Latin-1 name, stray bytes)
    bad_bytes = [b"intro std:label -1 index.html#intro Pr\xe9sentation g\xe9n\xe9rale", b"pkg.caf\xe9 py:function -1 pkg.html#caf -",
                 b"\xff\xfe", b"zz.cut py:function -1 z.html#\xc3", b"\x80\x81 junk"]
    for _ in range(60 if ctx.quick else 1500):
        blines = [l.encode("utf-8") for l in GOOD_LINES]
        for _ in range(ctx.rng.randint(1, 2)):
            blines.insert(ctx.rng.randint(0, len(blines)), ctx.rng.choice(bad_bytes))
        d = header + zlib.compress(b"\n".join(blines) + b"\n")
        one("non-utf8-line", [(URL, d)], {"session": [[URL, d.hex()]], "kind": "non-utf8-line"})
    # 4. line mutations mixed with the well-formed lines
    nmut = 1200 if ctx.quick else 40000
    for _ in range(nmut):
        lines = list(GOOD_LINES)
        kinds = []
        for i in range(ctx.rng.randint(1, 3)):
            kind, ml = mutate_line(ctx.rng, i)
            kinds.append(kind)
            lines.insert(ctx.rng.randint(0, len(lines)), ml)
        sep = ctx.rng.choice(["\n", "\n", "\n", "\r\n", "\r"])
        t = sep.join(lines) + (sep if ctx.rng.random() < 0.8 else "")
        data = header + zlib.compress(t.encode("utf-8"))
        for kd in kinds:
            ctx.count("mutation:" + kd)
        lab = {"session": [[URL, data.hex()]], "mutations": kinds, "text": t}
        inv = one("line-mutation", [(URL, data)], lab, n_mut=len(kinds), expect_good=True)
        # direct oracle 3: a line that differs from a well-formed one only in the whitespace between its columns is used
        # (its name resolves) or reported (a message quotes it) — never silently stored under another key
        if inv is not None and not any(prio_is_last(l) for l in t.splitlines()):
            for i, kd in enumerate(kinds):
                if kd.startswith("sep-") and inv.getLink(f"zz{i}.obj") != f"{BASE}/zz{i}.html":
                    if not any(f"zz{i}.obj" in m for _, m, _ in inv._c17_log):
                        ctx.fail(SIG_SEPARATOR, lab, f"the line of zz{i}.obj ({kd}) is neither resolved nor reported; keys: {[k for k in inv._links if 'zz' in k]}")
                        break
    compare(ctx, "robustness", reqs, impls, pay)


def survivable_lines(data: Optional[bytes]) -> Tuple[Optional[str], List[str]]:
    """Independent of pydoctor: the complete, decodable lines a damaged-but-trustworthy payload still holds.
    ("truncated", lines) for a zlib stream that ends early (what was inflated is a correct prefix; the last line may be
    cut), ("undecodable", lines) for a complete stream with lines that are not UTF-8; (None, []) otherwise (intact, or
    damaged so that nothing can be trusted: zlib reports an error, e.g. a failed checksum)."""
    body = strip_comments_py(data or b"")
    if not body:
        return None, []
    d = zlib.decompressobj()
    try:
        out = d.decompress(body)
    except zlib.error:
        return None, []
    kind = None
    if not d.eof:
        kind = "truncated"
        out = out[:out.rfind(b"\n") + 1]
    try:
        out.decode("utf-8")
        if kind is None:
            return None, []
    except UnicodeError:
        kind = kind or "undecodable"
    lines = []
    for l in out.split(b"\n"):
        try:
            lines.append(l.decode("utf-8"))
        except UnicodeError:
            pass
    return kind, lines


def numeric_token_key(full: str) -> Optional[str]:
    """a written name whose blank-separated tokens hold an int at index >= 2 is read back (by both readers) as the
    shorter name returned here; None for names the line format can carry"""
    toks = full.split()
    for i in range(2, len(toks)):
        if is_int(toks[i]):
            return " ".join(toks[:i - 1])
    return None


def strip_comments_py(data: bytes) -> bytes:
    """harness-side reading of 'the compressed part after the leading # lines' (used only to classify failures)"""
    while data.startswith(b"#") and b"\n" in data:
        data = data.split(b"\n", 1)[1]
    return data


# ------------------------------------------------------------------ run / replay

# ------------------------------------------------------------------ stream (d): one reader over time

SEQ_HEADER = b"# Sphinx inventory version 2\n# Project: q\n# Version: 2\n# The rest of this file is compressed with zlib.\n"
SEQ_INV = {
    "A": ("http://a/x/objects.inv", [("a.m", "py:module", "a.m.html"), ("a.m.C", "py:class", "a.m.C.html"),
                                     ("a.m.f", "py:function", "a.m.html#$"), ("shared.name", "py:function", "A/shared.html")]),
    "B1": ("http://b/objects.inv", [("b.mod", "py:module", "b.mod.html"), ("b.mod.K", "py:class", "b.mod.K.html"),
                                    ("b.mod.K.meth", "py:method", "b.mod.K.html#meth"), ("shared.name", "py:function", "B1/shared.html"),
                                    ("b.caf%C3%A9", "py:function", "b.html#caf%C3%A9")]),
    "B2": ("http://b/objects.inv", [("b.mod", "py:module", "v2/b.mod.html"), ("b.mod.K", "py:class", "v2/b.mod.K.html#$"),
                                    ("b.new", "py:function", "v2/b.html#new"), ("shared.name", "py:function", "B2/shared.html")]),
    "C": ("http://c/d/e/objects.inv", [("c.x", "py:attribute", "c.html#x"), ("a.m.C", "py:class", "c/override.html")]),
}
SEQ_BAD = ["junk", "discount 100%", "zz.q py:function -1", '<td width="50%">', "zz.r std:label -1 z.html -", "%s %(x)s {}", ""]


def seq_bytes(rng, key: str, variant: str) -> Tuple[Optional[bytes], bool]:
    """bytes served for inventory `key` in the given variant; second component: the entries must load"""
    url, entries = SEQ_INV[key]
    lines = [f"{n} {t} -1 {l} -" for n, t, l in entries]
    if variant == "mixed" and rng is not None:
        for _ in range(rng.randint(1, 3)):
            lines.insert(rng.randint(0, len(lines)), rng.choice(SEQ_BAD))
    data = SEQ_HEADER + zlib.compress(("\n".join(lines) + "\n").encode("utf-8"))
    if variant in ("valid", "mixed"):
        return data, True
    if variant == "truncated":
        return data[:rng.randrange(len(SEQ_HEADER) - 5, len(data) - 1)], False
    if variant == "corrupt":
        d = bytearray(data)
        for _ in range(3):
            d[rng.randrange(len(SEQ_HEADER), len(d))] ^= 1 + rng.randrange(255)
        return bytes(d), False
    if variant == "none":
        return None, False
    return b"<html>404</html>\n", False


def stream_sequences(ctx: Ctx) -> None:
    reqs: List[str] = []
    impls: List[str] = []
    pay: List[Any] = []
    names = sorted({n for _, es in SEQ_INV.values() for n, _, _ in es}) + ["no.such", "b", ""]
    nseq = 500 if ctx.quick else 12000
    for _ in range(nseq):
        steps: List[tuple] = []
        meta: List[Any] = []
        for _ in range(ctx.rng.randint(3, 12)):
            if ctx.rng.random() < 0.55:
                steps.append(("Q", ctx.rng.choice(names)))
                meta.append(None)
            else:
                key = ctx.rng.choice(["A", "B1", "B2", "B1", "B2", "C"])
                variant = ctx.rng.choice(["valid", "valid", "valid", "mixed", "truncated", "corrupt", "none", "html"])
                data, loads = seq_bytes(ctx.rng, key, variant)
                steps.append(("U", SEQ_INV[key][0], data))
                meta.append((key, variant, loads))
        req, impl, excs, inv, answers = run_steps(steps)
        label = {"steps": [[st[0], st[1]] + ([None if st[2] is None else st[2].hex()] if st[0] == "U" else []) for st in steps]}
        if req is not None:
            reqs.append(req)
            impls.append(impl)
            pay.append(label)
        # direct oracle: replay the sequence against what each served file *says* (no parser, no model)
        exp: Dict[str, Tuple[str, str]] = {}
        exp_all_or_nothing: Dict[str, Tuple[str, str]] = {}   # what a reader that drops interrupted downloads entirely would hold
        asked_before: set = set()
        nontriv = False
        ai = 0
        skip = False
        for st, m in zip(steps, meta):
            if st[0] == "U":
                key, variant, loads = m
                if loads:
                    base = st[1].rsplit("/", 1)[0]
                    for n, t, l in SEQ_INV[key][1]:
                        if n in asked_before:
                            nontriv = True
                        exp[n] = (base, l)
                        exp_all_or_nothing[n] = (base, l)
                elif st[2]:
                    try:  # a damaged copy that still decompresses would legitimately load something: not judged
                        zlib.decompress(strip_comments_py(st[2]))
                        skip = True
                    except zlib.error:
                        pass
                    kind_s, lines_s = survivable_lines(st[2])
                    if kind_s == "truncated" and "/" in st[1]:   # the complete lines of an interrupted download are usable
                        for l in lines_s:
                            c = l.split(" ")
                            if len(c) == 5 and c[1].startswith("py:"):
                                exp[c[0]] = (st[1].rsplit("/", 1)[0], c[3])
            else:
                name = st[1]
                asked_before.add(name)
                got = answers[ai]
                ai += 1
                if skip:
                    continue
                want = None
                if name in exp and exp[name][1]:
                    b, l = exp[name]
                    want = b + "/" + (l[:-1] + name if l.endswith("$") else l)
                want_old = None
                if name in exp_all_or_nothing and exp_all_or_nothing[name][1]:
                    b, l = exp_all_or_nothing[name]
                    want_old = b + "/" + (l[:-1] + name if l.endswith("$") else l)
                if got != want and got == want_old:
                    ctx.fail(SIG_TRUNCATED, label, f"getLink({name!r}) = {got!r}: the complete lines of an interrupted download were dropped, expected {want!r}")
                    break
                if got != want:
                    ctx.fail("lookup-not-current", label,
                             f"getLink({name!r}) = {got!r} but the inventories loaded so far say {want!r} (earlier lookups / failed loads must not matter)")
                    break
        if excs:
            ctx.fail("sequence-raises:" + excs[0], label, f"a call on the reader raised {excs[0]}")
        ctx.case("seq " + (req or repr(label)), nontriv,
                 {"steps": [(st[0], st[1]) for st in steps], "impl": impl[:200]} if nontriv and ctx.dist.get("seq:sampled", 0) < 1 and not ctx.count("seq:sampled") else None)
        ctx.count("seq:len=%d" % len(steps))
        for m in meta:
            if m:
                ctx.count("seq:update:" + m[1])
    compare(ctx, "sequences", reqs, impls, pay)


# ------------------------------------------------------------------ stream (0): corpus of past failures (runs first)

def find_newline_hash_inventory() -> bytes:
    """deterministic: a valid inventory whose zlib body contains the byte pair 0x0A 0x23 (seeded C17-r2-2)"""
    import hashlib
    for n in range(1, 200000):
        lines = [f"pkg.{hashlib.md5(f'{n}.{i}'.encode()).hexdigest()[:10]} py:function -1 pkg.html#$ -" for i in range(40)]
        body = zlib.compress(("\n".join(lines) + "\n").encode())
        if b"\n#" in body:
            return SEQ_HEADER + body
    return SEQ_HEADER + zlib.compress(b"")


def stream_corpus(ctx: Ctx) -> None:
    """every recorded finding's input and every seeded change's needed shape, deterministic"""
    reqs: List[str] = []
    impls: List[str] = []
    pay: List[Any] = []

    def session_case(tag: str, steps, must_resolve: Dict[str, str]) -> None:
        req, impl, excs, inv, answers = run_steps(steps)
        label = {"corpus": tag, "steps": [[st[0], st[1]] + ([None if st[2] is None else st[2].hex()] if st[0] == "U" else []) for st in steps]}
        if req is not None:
            reqs.append(req); impls.append(impl); pay.append(label)
        ctx.case("corpus " + tag, True)
        ctx.count("corpus:" + tag)
        if excs:
            lines: List[str] = []
            for st in steps:
                if st[0] == "U" and st[2]:
                    try:
                        lines += zlib.decompress(strip_comments_py(st[2])).decode("utf-8").splitlines()
                    except Exception:
                        pass
            sig = SIG_PRIO_LAST if excs[0] == "IndexError" and any(prio_is_last(l) for l in lines) else "update-raises:" + excs[0]
            ctx.fail(sig, label, f"corpus {tag}: a call on the reader raised {excs[0]}")
        for n, want in must_resolve.items():
            got = inv.getLink(n)
            if got != want:
                ctx.fail("good-line-lost" if got is None else "lookup-not-current", label, f"corpus {tag}: getLink({n!r}) = {got!r}, expected {want!r}")
                break

    hdr = SEQ_HEADER
    # finding f721ca9: a priority-last line next to a good line
    session_case("prio-last", [("U", URL, hdr + zlib.compress(b"pkg py:module -1 index.html -\na py:x 1\n")), ("Q", "pkg")],
                 {"pkg": BASE + "/index.html"})
    # seeded C17-1: download truncated inside the header
    for i, d in enumerate([b"# Sphinx inventory version 2\n# Proj", b"#", b"# a\n#"]):
        session_case(f"header-truncated-{i}", [("U", URL, d), ("Q", "pkg")], {})
    # seeded C17-r2-1: malformed lines holding '%'
    bad = ['shop.cart.caf%C3%A9 py:function', '<td width="50%">404 Not Found</td>', 'discount 100%', 'shop.cart.%s py:function -1']
    good = ["shop py:module -1 index.html -", "shop.cart py:module -1 shop.cart.html -", "shop.cart.Cart.add py:method -1 shop.cart.Cart.html#add -"]
    mixed = [x for pair in zip(good, bad) for x in pair] + [bad[3]]
    session_case("percent-lines", [("U", URL, hdr + zlib.compress(("\n".join(mixed) + "\n").encode()))],
                 {"shop": BASE + "/index.html", "shop.cart.Cart.add": BASE + "/shop.cart.Cart.html#add"})
    # seeded C17-r2-2: compressed body containing "\n#"
    nh = find_newline_hash_inventory()
    ctx.count("corpus:newline-hash-found" if b"\n#" in nh[len(hdr):] else "corpus:newline-hash-NOT-found")
    first = (zlib.decompress(nh[len(hdr):]).decode().splitlines() or ["none py:x 1 none -"])[0].split(" ")
    session_case("newline-hash-in-body", [("U", URL, nh), ("Q", first[0])],
                 {first[0]: BASE + "/" + (first[3][:-1] + first[0] if first[3].endswith("$") else first[3])})
    # seeded C17-r2-3: lookup, failed load, lookup, load, lookup
    b1 = seq_bytes(None, "B1", "valid")[0]
    session_case("stale-lookup", [("Q", "b.mod.K"), ("U", SEQ_INV["B1"][0], b1[:len(b1) // 2]), ("Q", "b.mod.K"),
                                  ("U", SEQ_INV["B1"][0], b1), ("Q", "b.mod.K"),
                                  ("U", SEQ_INV["B2"][0], seq_bytes(None, "B2", "valid")[0]), ("Q", "b.mod.K")],
                 {"b.mod.K": "http://b/v2/b.mod.K.html#b.mod.K", "b.mod.K.meth": "http://b/b.mod.K.html#meth"})
    compare(ctx, "corpus", reqs, impls, pay)
    # seeded C17-2: a project with non-ASCII identifiers, through the whole writer/reader/Sphinx path
    reqs, impls, pay = [], [], []
    mods = [("class Größe:\n    def café(self):\n        pass\n    naïve = 1\ndef café():\n    pass\n", "shöp", None, False)]
    system = build_system(mods, [])
    check_project(ctx, system, {"corpus": "non-ascii-identifiers", "modules": [list(m) for m in mods], "hidden": []}, reqs, impls, pay)
    ctx.count("corpus:non-ascii-project")
    # hunter round (3): a module named after the file 'utils copy 2.py'
    mods = [("def helper():\n    pass\n", "pkg", None, True), ("def helper():\n    pass\n", "utils", "pkg", False),
            ("def helper():\n    pass\n", "utils copy 2", "pkg", False), ("def helper():\n    pass\n", "utils copy", "pkg", False)]
    system = build_system(mods, [])
    check_project(ctx, system, {"corpus": "module-file-name-with-number", "modules": [list(m) for m in mods], "hidden": []}, reqs, impls, pay)
    ctx.count("corpus:module-file-name-with-number")
    compare(ctx, "corpus", reqs, impls, pay)
    corpus_review_items(ctx)
    corpus_hunter_items(ctx)


def corpus_hunter_items(ctx: Ctx) -> None:
    """hunter round (1), (2): an interrupted download and a Latin-1 line — the complete well-formed lines still resolve"""
    lines = ["ext.first.func py:function 1 ext.first.html#func -"] + [f"ext.m{i}.f py:function 1 ext.m{i}.html#f -" for i in range(300)]
    full = SEQ_HEADER + zlib.compress(("\n".join(lines) + "\n").encode())
    cut = full[:len(SEQ_HEADER) + (len(full) - len(SEQ_HEADER)) * 6 // 10]
    latin = SEQ_HEADER + zlib.compress(b"ext.mod py:module 0 ext.mod.html -\next.mod.func py:function 1 ext.mod.html#func -\n"
                                       b"intro std:label -1 index.html#intro Pr\xe9sentation g\xe9n\xe9rale\next.mod.Klass py:class 1 ext.mod.Klass.html -\n")
    flipped = bytearray(full); flipped[-2] ^= 0x55
    for tag, data, sig in [("truncated-60pct", cut, SIG_TRUNCATED), ("latin1-label-line", latin, SIG_UNDECODABLE),
                           ("adler-flipped-control", bytes(flipped), None)]:
        kind, usable = survivable_lines(data)
        _, _, excs, inv = run_session([(URL, data)], [])
        ctx.case("corpus " + tag, True)
        ctx.count("corpus:" + tag)
        if excs:
            ctx.fail("update-raises:" + excs[0], {"corpus": tag}, f"corpus {tag}: update raised {excs[0]}")
            continue
        lost = []
        for l in usable:
            c = l.split(" ")
            if len(c) == 5 and c[1].startswith("py:") and inv.getLink(c[0]) != f"{BASE}/{c[3]}":
                lost.append(c[0])
        if lost and sig:
            ctx.fail(sig, {"corpus": tag, "steps": [["U", URL, data.hex()], ["Q", lost[0]]]},
                     f"corpus {tag}: {len(lost)} of {len(usable)} complete well-formed lines do not resolve, e.g. {lost[:2]}")
        # a failed checksum leaves nothing trustworthy: exactly one error, nothing kept (decided outside the property)
        if sig is None and (inv._links or len(inv._c17_log) != 1):
            ctx.fail("corrupt-stream-partly-used", {"corpus": tag}, "a stream whose checksum fails must be reported once and not used")


def corpus_review_items(ctx: Ctx) -> None:
    """round-3 review: shapes reproduced by hand on the unchanged tree, each with the property's own oracle"""
    import contextlib
    import os
    import shutil
    import sys
    import tempfile
    from urllib.parse import unquote
    from pydoctor import driver, model, sphinx
    # (1) a line break in the project name / version: the inventory pydoctor writes must read back
    system = build_system([("def f():\n    pass\n", "m", None, False)], [])
    exp, _ = expected_entries(system)
    for tag, pj, ver in [("name", "My\nProject", "1.0"), ("version", "proj", "1\n2"), ("control-tab", "My\tProject", "1 0")]:
        data, exc, _ = write_inventory(system.rootobjects, project=pj, version=ver)
        _, _, excs, inv = run_session([(URL, data)], list(exp))
        flat, serr = sphinx_load(data, BASE)
        ok_pd = dict(inv._links) == {k: (BASE, v) for k, v in exp.items()}
        ok_sx = flat == {k: [f"{BASE}/{v}"] for k, v in exp.items()}
        ctx.case("corpus header-" + tag, True)
        ctx.count("corpus:header-newline-" + tag)
        if not (ok_pd and ok_sx):
            ctx.fail(SIG_HEADER_NL if "\n" in pj + ver else "header-unreadable", {"project": pj, "version": ver, "file": data.hex()},
                     f"objects.inv written with project name {pj!r} / version {ver!r} does not read back: pydoctor reader "
                     f"{'ok' if ok_pd else 'got ' + str(len(inv._links)) + ' entries'}, Sphinx {'ok' if ok_sx else (serr or 'wrong entries')}")
    # (4) the reviewer's line: two spaces between the first two columns
    text = "a.first py:function 1 a.html#first -\na.good  py:function 1 a.html#good -\na.tab\tpy:function\t1\ta.html#tab\t-\n"
    data = SEQ_HEADER + zlib.compress(text.encode())
    req, impl, excs, inv, _ = run_steps([("U", URL, data), ("Q", "a.good"), ("Q", "a.tab")])
    ctx.case("corpus separators", True)
    ctx.count("corpus:separators")
    for n in ("a.good", "a.tab"):
        if inv.getLink(n) != f"{BASE}/a.html#{n[2:]}" and not any(n in m for _, m, _ in inv._c17_log):
            ctx.fail(SIG_SEPARATOR, {"steps": [["U", URL, data.hex()], ["Q", n]]},
                     f"the line of {n} is neither resolved nor reported; keys: {list(inv._links)}")
    # (6) reporting a malformed remote line on an ASCII console must not abort the load
    system = model.System()
    data = SEQ_HEADER + zlib.compress("good py:function 1 g.html -\ncaf\u00e9 broken line\n".encode())
    old_stdout = sys.stdout
    sys.stdout = io.TextIOWrapper(io.BytesIO(), encoding="ascii")
    try:
        try:
            system.intersphinx.update(Cache(data), URL)
            r = None
        except Exception as e:
            r = type(e).__name__
    finally:
        sys.stdout = old_stdout
    ctx.case("corpus ascii-console", True)
    ctx.count("corpus:ascii-console")
    if r is not None or system.intersphinx.getLink("good") != BASE + "/g.html":
        ctx.fail(SIG_REPORT_ENC if r == "UnicodeEncodeError" else "report-aborts:" + str(r), {"steps": [["U", URL, data.hex()]], "stdout_encoding": "ascii"},
                 f"System.msg raised {r} while reporting a malformed line of a remote inventory on an ASCII console: the load aborts, 'good' -> {system.intersphinx.getLink('good')!r}")
    # (5) every location of the written inventory names, after URL decoding, a file that was written
    tmp = tempfile.mkdtemp(prefix="c17html")
    try:
        pk = os.path.join(tmp, "pk")
        os.makedirs(pk)
        with open(os.path.join(pk, "__init__.py"), "w", encoding="utf-8") as f:
            f.write('"""p"""\n')
        with open(os.path.join(pk, "caf\u00e9.py"), "w", encoding="utf-8") as f:
            f.write('"""doc"""\nclass Gr\u00f6\u00dfe:\n    """c"""\n    def f(self):\n        """d"""\n')
        out = os.path.join(tmp, "out")
        with contextlib.redirect_stdout(io.StringIO()), contextlib.redirect_stderr(io.StringIO()):
            rc = driver.main(["--html-output", out, "-q", "-q", pk])
        with open(os.path.join(out, "objects.inv"), "rb") as f:
            data = f.read()
        _, _, _, inv = run_session([(URL, data)], [])
        missing = sorted(n for n, (b, l) in inv._links.items() if not os.path.exists(os.path.join(out, unquote(l.split("#")[0]))))
        ctx.case("corpus page-files", True)
        ctx.count("corpus:page-files")
        if missing or not inv._links:
            ctx.fail(SIG_PAGE_FILE, {"package": "pk/caf\u00e9.py", "missing": missing},
                     f"inventory locations that do not lead to a written page once the URL is decoded: {missing[:3]} "
                     f"(the files are named with the percent-encoded text)")
    finally:
        shutil.rmtree(tmp, ignore_errors=True)


# ------------------------------------------------------------------ stream (e): the cache in front of the reader

MAXAGE_ALPHA = ["0", "1", "9", "-", "+", "_", " ", "s", "m", "h", "d", "w", "x"]
MAXAGE_EDGE = ["4294967294s", "4294967295s", "4294967296m", "4294967294h", "999999999d", "1000000000d", "142857141w", "142857142w",
               "142857143w", "0s", "-1s", "1s", "+5m", " 7 d", "1_0h", "1__0h", "9" * 4300 + "s", "9" * 4301 + "s", "1.5h", "1e3s",
               "1W", "1S", "\u0661d", "1w ", "w1", "", "s", "1", "12", "1ss", "1 s", "\t2\tm", "0x1s", "1\ns"]


def impl_maxage(a: str) -> str:
    from pydoctor import sphinx
    try:
        d = sphinx.parseMaxAge(a)
    except Exception as e:
        return type(e).__name__
    (u, n), = d.items()
    return f"ok {enc(u)} {n}"


class FakeResponse:
    def __init__(self, content: bytes) -> None:
        self.content = content


class Boom(BaseException):
    """stands for KeyboardInterrupt / SystemExit"""


class FakeSession:
    def __init__(self, plan: Dict[str, Any]) -> None:
        self.plan = plan
        self.closed = False

    def get(self, url: str) -> FakeResponse:
        what = self.plan[url]
        if isinstance(what, bytes):
            return FakeResponse(what)
        raise what

    def close(self) -> None:
        self.closed = True


def stream_cache(ctx: Ctx) -> None:
    import logging
    import os
    import shutil
    import tempfile
    import requests
    from pydoctor import sphinx, model
    reqs: List[str] = []
    impls: List[str] = []
    pay: List[Any] = []
    # parseMaxAge: every string of <= 4 characters over a 13-character alphabet, plus boundary values
    cases = list(MAXAGE_EDGE)
    for n in range(1, 5 if ctx.quick else 6):
        for t in itertools.product(MAXAGE_ALPHA, repeat=n):
            cases.append("".join(t))
    for a in cases:
        out = impl_maxage(a)
        if int_model_ok(a):
            reqs.append("inventory maxage " + enc(a)); impls.append(out); pay.append({"maxage": a})
        else:
            ctx.count("maxage:outside-int-model")
        ctx.case("maxage " + enc(a), out.startswith("ok"),
                 {"maxage": a, "impl": out} if out.startswith("ok") and len(a) > 6 and ctx.dist.get("maxage:sampled", 0) < 1 and not ctx.count("maxage:sampled") else None)
        ctx.count("maxage:" + out.split(" ")[0])
        if not out.startswith("ok") and out != "InvalidMaxAge":
            ctx.fail("parseMaxAge-raises:" + out, {"maxage": a}, f"parseMaxAge({a!r}) raised {out}, documented to raise InvalidMaxAge only")
    # prepareCache: option combinations x cache directory present / missing / not removable (rmtree raising PermissionError)
    class ShutilProxy:
        def __init__(self, fail: bool) -> None:
            self.fail = fail

        def rmtree(self, path, *a, **k):
            if self.fail:
                raise PermissionError(13, "Permission denied", path)
            return shutil.rmtree(path, *a, **k)
    tmp = tempfile.mkdtemp(prefix="c17cache")
    real_shutil = sphinx.shutil
    try:
        for clear, enable in itertools.product([False, True], repeat=2):
            for state in ["R", "M", "E"]:
                for age in ["1w", "5x", "0s", "12h", ""]:
                    path = tmp + "/cache"
                    shutil.rmtree(path, ignore_errors=True)
                    if state != "M":
                        os.makedirs(path)
                    sphinx.shutil = ShutilProxy(state == "E")  # type: ignore
                    try:
                        cache = sphinx.prepareCache(clearCache=clear, enableCache=enable, cachePath=path, maxAge=age,
                                                    sessionFactory=requests.Session)
                    except Exception as e:
                        out = "OSError" if isinstance(e, OSError) else type(e).__name__
                        if isinstance(e, FileNotFoundError):
                            # fixed by /repo f96af79; reported again if it returns
                            ctx.fail("prepare-cache:clear-missing-dir:FileNotFoundError", {"preparecache": [clear, enable, state, age]},
                                     "--clear-intersphinx-cache with a cache directory that does not exist aborts the run")
                    else:
                        heur = getattr(cache._session.adapters.get("http://"), "heuristic", None)
                        out = "plain" if heur is None else "caching %d" % int(heur.delta.total_seconds())
                        cache.close()
                    finally:
                        sphinx.shutil = real_shutil  # type: ignore
                    req = f"inventory preparecache {int(clear)} {int(enable)} {state} {enc(age)}"
                    reqs.append(req); impls.append(out); pay.append({"preparecache": [clear, enable, state, age]})
                    ctx.case(req, clear or enable)
                    ctx.count("preparecache:" + out.split(" ")[0])
    finally:
        sphinx.shutil = real_shutil  # type: ignore
        shutil.rmtree(tmp, ignore_errors=True)
    # IntersphinxCache.get + System.fetchIntersphinxInventories with a session that fails in assorted ways
    good = {k: seq_bytes(None, k, "valid")[0] for k in ("A", "B1", "C")}
    key_of = {SEQ_INV[k][0]: k for k in good}
    failures = [requests.exceptions.ConnectionError("refused"), requests.exceptions.Timeout("slow"), requests.exceptions.InvalidSchema("x"),
                ValueError("bad url"), KeyError("k"), OSError("net down"), RuntimeError("?"), UnicodeError("idna")]
    logging.disable(logging.CRITICAL)   # IntersphinxCache logs tracebacks through `logging`
    try:
        for _ in range(150 if ctx.quick else 3000):
            plan: Dict[str, Any] = {}
            urls: List[str] = []
            base_exc = False
            for key in ctx.rng.sample(["A", "B1", "C"], ctx.rng.randint(1, 3)):
                url = SEQ_INV[key][0]
                r = ctx.rng.random()
                if r < 0.5:
                    plan[url] = good[key]
                elif r < 0.6:
                    plan[url] = good[key][:ctx.rng.randrange(len(good[key]))]
                elif r < 0.95:
                    plan[url] = ctx.rng.choice(failures)
                else:
                    plan[url] = Boom()
                    base_exc = True
                urls.append(url)
            if ctx.rng.random() < 0.2:
                urls.insert(ctx.rng.randint(0, len(urls)), "nourl")
                plan["nourl"] = b"zz"
            system = model.System()
            log = Log()
            system.intersphinx = sphinx.SphinxInventory(logger=log)
            system.options.intersphinx = urls
            cache = sphinx.IntersphinxCache(FakeSession(plan))  # type: ignore
            spy = ZSpy()
            real_zlib = sphinx.zlib
            sphinx.zlib = spy  # type: ignore
            exc = None
            try:
                system.fetchIntersphinxInventories(cache)
            except BaseException as e:
                exc = type(e).__name__
            finally:
                sphinx.zlib = real_zlib  # type: ignore
            # request: per URL what the session did and what zlib/decoding did
            toks = ["inventory fetch"]
            zi = 0
            stopped = False
            for url in urls:
                w = plan[url]
                sr, z = "E", "Z"
                if not stopped and isinstance(w, bytes):
                    sr = "C:" + hexb(w)
                    if "/" in url and w and zi < len(spy.calls):
                        z = spy.calls[zi][1]
                        zi += 1
                elif not stopped and isinstance(w, Boom):
                    sr = "B"
                    stopped = True
                toks.append(f"F {enc(url)} {sr} {z}")
            canon = []
            for section, msg, thresh in log.msgs:
                matched = "other:" + enc(msg)
                for url in urls:
                    base = url.rsplit("/", 1)[0] if "/" in url else ""
                    c = canon_log([(section, msg, thresh)], base, url)
                    if not c.startswith("other:"):
                        matched = c
                        break
                canon.append(matched)
            impl = f"{'ok' if exc is None else ('BaseException' if exc == 'Boom' else exc)} | {canon_links(system.intersphinx._links)} | {' '.join(canon) or '-'}"
            req = " ".join(toks)
            label = {"fetch": [[u, (plan[u].hex() if isinstance(plan[u], bytes) else type(plan[u]).__name__)] for u in urls]}
            if "X" not in [z for _, z in spy.calls]:
                reqs.append(req); impls.append(impl); pay.append(label)
            ctx.case(req, any(not isinstance(plan[u], bytes) for u in urls))
            ctx.count("fetch:urls=%d" % len(urls))
            for u in urls:
                ctx.count("fetch:" + ("content" if isinstance(plan[u], bytes) else "BaseException" if isinstance(plan[u], Boom) else "Exception"))
            # direct oracle: a failing download never aborts the fetch loop; the inventories that did load still resolve
            if exc is not None and not base_exc:
                ctx.fail("fetch-raises:" + exc, label, f"fetchIntersphinxInventories raised {exc} although every download failure was an Exception")
            if exc is None:
                loaded = [u for u in urls if u in key_of and plan[u] == good[key_of[u]]]
                for u in loaded:
                    bad = False
                    for n, _, l in SEQ_INV[key_of[u]][1]:
                        cands = set()
                        for u2 in loaded:
                            for n2, _, l2 in SEQ_INV[key_of[u2]][1]:
                                if n2 == n:
                                    cands.add(u2.rsplit("/", 1)[0] + "/" + (l2[:-1] + n if l2.endswith("$") else l2))
                        for u2 in urls:      # the complete lines of an interrupted download may (must, by the property) count too
                            if isinstance(plan[u2], bytes) and u2 not in loaded and "/" in u2:
                                for l in survivable_lines(plan[u2])[1]:
                                    c = l.split(" ")
                                    if len(c) == 5 and c[0] == n:
                                        cands.add(u2.rsplit("/", 1)[0] + "/" + (c[3][:-1] + n if c[3].endswith("$") else c[3]))
                        got = system.intersphinx.getLink(n)
                        if got not in cands:
                            ctx.fail("fetch-good-inventory-lost", label, f"getLink({n!r}) = {got!r} after the fetch loop, expected one of {sorted(cands)}")
                            bad = True
                            break
                    if bad:
                        break
    finally:
        logging.disable(logging.NOTSET)
    compare(ctx, "cache", reqs, impls, pay)


# ------------------------------------------------------------------ stream (f): the linker's lookup order, getLink shapes, kinds

XREF_SRC = {
    "m": ("import ext\nfrom ext import thing as alias\nfrom ext.sub import Other\nimport other_pkg.deep as dp\n"
          "class Local:\n    \"\"\"doc\"\"\"\n    def meth(self):\n        \"\"\"doc\"\"\"\n    class Inner:\n        pass\n"
          "def f():\n    \"\"\"doc\"\"\"\nvalue = 1\n"),
    "n": "from m import Local as Renamed\nclass Uncle:\n    pass\n",
}
XREF_IDENTIFIERS = ["alias", "ext.thing", "Other", "ext.sub.Other", "m.Local", "Local", "Local.meth", "meth", "unknown.name", "ext",
                    "f", "m.f", "dp.X", "other_pkg.deep.X", "Renamed", "Uncle", "n.Uncle", "Inner", "value", "alias.attr", "$"]
XREF_KEYS = ["ext.thing", "alias", "ext.sub.Other", "Other", "m.Local", "Local", "ext", "other_pkg.deep.X", "dp.X", "unknown.name",
             "Uncle", "meth", "m.Local.meth", "ext.thing.attr", "alias.attr", "f", "$"]


def stream_linker(ctx: Ctx) -> None:
    from pydoctor import model, sphinx
    reqs: List[str] = []
    impls: List[str] = []
    pay: List[Any] = []
    system = model.System()
    b = system.systemBuilder(system)
    for name, src in XREF_SRC.items():
        b.addModuleString(src, name)
    b.buildModules()
    contexts = [system.allobjects[n] for n in ("m", "m.Local", "m.Local.meth", "m.f", "n", "n.Uncle")]

    def outcome(fn) -> str:
        try:
            r = fn()
        except LookupError:
            return "unresolved"
        except Exception as e:
            return "EXC:" + type(e).__name__
        if r is None:
            return "unresolved"
        if isinstance(r, str):
            return "external " + enc(r)
        return "internal " + enc(r.fullName())

    def set_links(links: Dict[str, Tuple[str, str]]) -> None:
        system.intersphinx = sphinx.SphinxInventory(logger=Log())
        system.intersphinx._links.update(links)

    nrounds = 40 if ctx.quick else 1000
    for _ in range(nrounds):
        keys = ctx.rng.sample(XREF_KEYS, ctx.rng.randint(0, 6))
        links = {k: ("http://x/" + ctx.rng.choice(["a", "b"]), ctx.rng.choice([k + ".html", "api.html#$", "", "$", "p/" + k])) for k in keys}
        ltoks = " ".join(f"{enc(k)}={enc(bb)}={enc(l)}" for k, (bb, l) in links.items())
        for obj in contexts:
            linker = obj.docstring_linker
            linker.reporting_obj = None          # do not accumulate warnings on the shared system
            for ident in XREF_IDENTIFIERS:
                # parameters of the model, observed on the real objects
                objfor = system.objForFullName(ident)
                full_id = obj.expandName(ident)
                set_links({})
                ctxres = outcome(lambda: linker._resolve_identifier_xref(ident, 0)) if objfor is None else "unresolved"
                resolved = obj.resolveName(ident)
                set_links(links)
                got = outcome(lambda: linker._resolve_identifier_xref(ident, 0))
                ctx_tok = "N" if not ctxres.startswith("internal ") else ctxres.split(" ")[1]
                req = f"inventory xref {'N' if objfor is None else enc(objfor.fullName())} {enc(full_id)} {ctx_tok} {enc(ident)} {ltoks}".rstrip()
                label = {"xref": ident, "context": obj.fullName(), "links": {k: list(v) for k, v in links.items()}}
                reqs.append(req); impls.append(got); pay.append(label)
                nontriv = objfor is None and (full_id in links or ident in links)
                ctx.case(req, nontriv, {"xref": ident, "in": obj.fullName(), "links": label["links"], "impl": got}
                         if nontriv and got.startswith("external") and ctx.dist.get("xref:sampled", 0) < 1 and not ctx.count("xref:sampled") else None)
                ctx.count("xref:" + got.split(" ")[0])
                # direct oracle (from the property): a name the loaded inventory resolves, and that is no object of this
                # system, links to what getLink says for it; an object of this system is never redirected
                if got.startswith("EXC:"):
                    ctx.fail("xref-raises:" + got[4:], label, f"_resolve_identifier_xref({ident!r}) raised {got[4:]}")
                elif objfor is not None and got != "internal " + enc(objfor.fullName()):
                    ctx.fail("xref-internal-redirected", label, f"{ident!r} is the full name of {objfor.fullName()} but resolves to {got}")
                elif objfor is None:
                    want = system.intersphinx.getLink(full_id) or system.intersphinx.getLink(ident)
                    if want and got != "external " + enc(want):
                        ctx.fail("xref-inventory-ignored", label, f"the inventory resolves {ident!r} ({full_id!r}) to {want!r} but the linker gave {got}")

                # link_to (annotations): resolveName first, then intersphinx by the expanded name only
                def link_to_target():
                    tag = linker.link_to(ident, "L")
                    if getattr(tag, "tagName", "") != "a":
                        return None
                    if "intersphinx-link" in str(tag.attributes.get("class", "")):
                        return tag.attributes.get("href")
                    return resolved
                got2 = outcome(link_to_target)
                req2 = f"inventory linkto {'N' if resolved is None else enc(resolved.fullName())} {enc(full_id)} {enc(ident)} {ltoks}".rstrip()
                reqs.append(req2); impls.append(got2); pay.append({"linkto": ident, "context": obj.fullName(), "links": label["links"]})
                ctx.case(req2, resolved is None and full_id in links)
                ctx.count("linkto:" + got2.split(" ")[0])
    # getLink for every shape of location: all locations of <= 4 characters over {a, $, /, #} under three names
    for name in ["n", "a.b", "x$"]:
        for k in range(0, 5):
            for loc_t in itertools.product("a$/#", repeat=k):
                loc = "".join(loc_t)
                data = SEQ_HEADER + zlib.compress(f"{name} py:x 1 {loc} -\n".encode())
                req, impl, excs, inv, answers = run_steps([("U", URL, data), ("Q", name)])
                reqs.append(req); impls.append(impl); pay.append({"getlink": [name, loc]})
                ctx.case(req, loc.endswith("$"))
                ctx.count("getlink:" + ("empty" if not loc else "dollar" if loc.endswith("$") else "plain"))
                want = None if not loc else BASE + "/" + (loc[:-1] + name if loc.endswith("$") else loc)
                if excs or answers[0] != want:
                    ctx.fail("getlink-shape", {"getlink": [name, loc]}, f"getLink({name!r}) with location {loc!r} = {answers[0]!r}, expected {want!r}")
    compare(ctx, "linker", reqs, impls, pay)


KINDS_SRC = '''
import zope.interface, zope.schema, attr
from typing import TypeVar, Union
CONST = 1
T = TypeVar('T')
Alias = Union[int, str]
var = []
class E(Exception):
    pass
class I(zope.interface.Interface):
    a = zope.interface.Attribute("doc")
    s = zope.schema.TextLine(description="x")
    def im():
        pass
class C:
    cv = 1
    def __init__(self):
        self.iv = 2
    def m(self):
        pass
    @classmethod
    def cm(cls):
        pass
    @staticmethod
    def sm():
        pass
    @property
    def p(self):
        return 1
@attr.s
class A:
    x = attr.ib()
def f():
    pass
'''


def stream_kinds(ctx: Ctx) -> None:
    """which `domain:type` the real writer gives each DocumentableKind, against the model's table"""
    from pydoctor import model, sphinx
    reqs: List[str] = []
    impls: List[str] = []
    pay: List[Any] = []
    system = model.System()
    b = system.systemBuilder(system)
    b.addModuleString("'''pkg'''", "pk", is_package=True)
    b.addModuleString(KINDS_SRC, "m", parent_name="pk")
    b.buildModules()
    w = sphinx.SphinxInventoryWriter(logger=Log(), project_name="p", project_version="1")
    seen = set()
    sphinx_types = {"function", "data", "class", "exception", "method", "classmethod", "staticmethod", "attribute", "property", "type", "module"}
    for o in system.allobjects.values():
        if o.kind is None:
            continue
        line = w._generateLine(o)
        typ = line.split(" ")[1]
        seen.add(o.kind.name)
        req = "inventory role " + o.kind.name
        reqs.append(req); impls.append(enc(typ)); pay.append({"kind": o.kind.name, "object": o.fullName()})
        ctx.case(req + " " + o.fullName(), True)
        ctx.count("kind:" + o.kind.name)
        if not typ.startswith("py:") or typ[3:] not in sphinx_types or line.split(" ")[2] != "-1" or not line.endswith(" -\n"):
            ctx.fail("role-not-a-sphinx-type", {"object": o.fullName(), "line": line}, f"{o.kind.name} written as {typ!r}")
    for k in model.DocumentableKind:
        if k.name not in seen:
            ctx.count("kind-not-produced:" + k.name)
    compare(ctx, "kinds", reqs, impls, pay)


# ------------------------------------------------------------------ stream (g): the real driver, option combinations that select subjects

DRIVER_SRC = {
    "pk/__init__.py": '"""p"""\n',
    "pk/m.py": '"""m"""\nclass C:\n    """c"""\n    def meth(self):\n        """d"""\n    class N:\n        """n"""\n        y = 2\n        """y doc"""\n'
               'def f():\n    """f"""\nx = 1\n"""x doc"""\nclass _P:\n    """private class"""\n',
    "pk/caf\u00e9.py": '"""non-ascii"""\ndef g\u00fc():\n    """d"""\n',
    "solo.py": '"""solo"""\ndef g():\n    """g"""\n',
}
DRIVER_RUNS = [
    ("plain", []),
    ("summary-only", ["--html-summary-pages"]),
    ("inventory-only", ["--make-intersphinx"]),
    ("subject-module", ["--html-subject", "pk.m"]),
    ("subject-class", ["--html-subject", "pk.m.C"]),
    ("subject-two", ["--html-subject", "pk.m.C.N", "--html-subject", "solo"]),
    ("subject-function", ["--html-subject", "pk.m.f"]),
    ("subject-method", ["--html-subject", "pk.m.C.meth"]),
    ("subject-and-summary", ["--html-subject", "pk.m.C", "--html-summary-pages"]),
]
SIG_SUBJECT_NO_PAGE = "driver:html-subject-without-own-page:listed-but-not-written"


def stream_driver(ctx: Ctx) -> None:
    """the real `driver.main` with the options that choose what is written: every inventory entry must lead to a page
    and anchor the run wrote, and exactly the visible objects on written pages are listed"""
    import contextlib
    import os
    import shutil
    import tempfile
    from urllib.parse import unquote
    from pathlib import Path
    from pydoctor import driver, model, sphinx
    reqs: List[str] = []
    impls: List[str] = []
    pay: List[Any] = []
    tmp = tempfile.mkdtemp(prefix="c17driver")
    try:
        for rel, text in DRIVER_SRC.items():
            path = os.path.join(tmp, "src", rel)
            os.makedirs(os.path.dirname(path), exist_ok=True)
            with open(path, "w", encoding="utf-8") as f:
                f.write(text)
        roots = [os.path.join(tmp, "src", "pk"), os.path.join(tmp, "src", "solo.py")]
        # reference system (same sources), to know which objects are visible and which page each lives on
        ref = model.System()
        b = ref.systemBuilder(ref)
        for r in roots:
            b.addModule(Path(r))
        b.buildModules()
        visible = {o.fullName(): o for o in ref.allobjects.values() if o.isVisible}
        for tag, extra in DRIVER_RUNS:
            out = os.path.join(tmp, "out-" + tag)
            seen: Dict[str, Any] = {}
            real_writer = driver.SphinxInventoryWriter

            class SpyWriter(real_writer):  # type: ignore
                def generate(self, subjects, basepath):
                    seen["subjects"] = [o.fullName() for o in subjects]
                    seen["is_roots"] = list(subjects) == list(seen_system.get("roots", [None]))
                    return super().generate(subjects, basepath)
            seen_system: Dict[str, Any] = {}
            real_make = driver.make

            def spy_make(system):
                seen_system["roots"] = list(system.rootobjects)
                return real_make(system)
            driver.SphinxInventoryWriter = SpyWriter  # type: ignore
            driver.make = spy_make  # type: ignore
            try:
                with contextlib.redirect_stdout(io.StringIO()), contextlib.redirect_stderr(io.StringIO()):
                    try:
                        rc = driver.main(["-q", "-q", "--html-output", out] + extra + roots)
                    except SystemExit as e:
                        rc = e.code
                    except Exception as e:
                        rc = "EXC:" + type(e).__name__
            finally:
                driver.SphinxInventoryWriter = real_writer  # type: ignore
                driver.make = real_make  # type: ignore
            label = {"driver": tag, "args": extra}
            ctx.case("driver " + tag, tag != "plain", {"driver": tag, "args": extra, "subjects": seen.get("subjects")} if tag == "subject-class" else None)
            ctx.count("driver:" + tag)
            if isinstance(rc, str):
                ctx.fail("driver-raises:" + rc[4:], label, f"driver.main {extra} raised {rc[4:]}")
                continue
            # model: which subjects the inventory writer is handed
            makehtml = "--make-intersphinx" not in extra
            subj_names = [extra[i + 1] for i, a in enumerate(extra) if a == "--html-subject"]
            req = f"inventory subjects {int(makehtml)} 1 {int('--html-summary-pages' in extra)} " + " ".join(enc(n) for n in subj_names)
            if "subjects" not in seen:
                impl = "no-inventory"
            elif seen["is_roots"]:
                impl = "roots"
            elif not seen["subjects"]:
                impl = "nothing"
            else:
                impl = "named " + " ".join(enc(n) for n in seen["subjects"])
            reqs.append(req.rstrip()); impls.append(impl); pay.append(label)
            # direct oracle on what is on disk
            inv_path = os.path.join(out, "objects.inv")
            if not os.path.exists(inv_path):
                ctx.fail("driver-no-inventory", label, "no objects.inv was written")
                continue
            with open(inv_path, "rb") as f:
                data = f.read()
            _, _, excs, inv = run_session([(URL, data)], [])
            listed = dict(inv._links)
            html_made = makehtml
            if html_made:
                dead = []
                for name, (_, loc) in listed.items():
                    page, _, anchor = loc.partition("#")
                    fpath = os.path.join(out, unquote(page))
                    if not os.path.exists(fpath):
                        dead.append((name, loc, "page not written"))
                    elif anchor:
                        with open(fpath, "rb") as f:
                            html = f.read().decode("utf-8", "replace")
                        if f'name="{unquote(anchor)}"' not in html and f'id="{unquote(anchor)}"' not in html:
                            dead.append((name, loc, "anchor missing"))
                # the objects documented by this run: visible objects whose page object's file was written as an OBJECT page
                summary_files = {"index.html"}
                written = {n for n, o in visible.items()
                           if unquote(o.page_object.url) not in summary_files and os.path.exists(os.path.join(out, unquote(o.page_object.url)))}
                if dead or set(listed) != written:
                    only_subject_without_page = bool(subj_names) and all(
                        (n in visible and visible[n].page_object is not visible[n]) for n in subj_names) and not written \
                        and set(listed) <= set(subj_names) | {k for n in subj_names for k in visible if k.startswith(n + ".")}
                    ctx.fail(SIG_SUBJECT_NO_PAGE if only_subject_without_page else "driver:listed-vs-written", label,
                             f"run {tag}: inventory lists {len(listed)} objects, {len(written)} are on pages this run wrote; "
                             f"dead entries: {dead[:3]}; listed-not-written: {sorted(set(listed) - written)[:3]}; written-not-listed: {sorted(written - set(listed))[:3]}")
            else:
                if set(listed) != set(visible):
                    ctx.fail("driver:inventory-only-incomplete", label, f"--make-intersphinx alone lists {len(listed)} of {len(visible)} visible objects")
    finally:
        shutil.rmtree(tmp, ignore_errors=True)
    compare(ctx, "driver", reqs, impls, pay)


def run(ctx: Ctx) -> None:
    stream_corpus(ctx)
    stream_driver(ctx)
    stream_lines(ctx)
    stream_projects(ctx)
    stream_robust(ctx)
    stream_sequences(ctx)
    stream_cache(ctx)
    stream_linker(ctx)
    stream_kinds(ctx)


def replay(ctx: Ctx, obj) -> int:
    inp = obj.get("input") or obj.get("request") or obj
    bad = 0
    if "line" in inp:
        req = "inventory line " + enc(inp["line"])
        print("request:", req)
        print("impl   :", impl_line(inp["line"]))
        print("model  :", _model(ctx, req))
        inp = {"base": BASE, "payload": inp["line"]}
    if "payload" in inp:
        req = f"inventory parse {enc(inp['base'])} {enc(inp['payload'])}"
        out, exc = impl_parse(inp["base"], inp["payload"])
        print("request:", req)
        print("impl   :", out)
        print("model  :", _model(ctx, req))
        # the same payload as a complete remote inventory through the real SphinxInventory.update
        data = b"# Sphinx inventory version 2\n# Project: p\n# Version: 1\n# zlib\n" + zlib.compress(inp["payload"].encode("utf-8", "surrogatepass"))
        good = [l.split(" ")[0] for l in inp["payload"].splitlines() if not prio_is_last(l) and impl_line(l).startswith("ok ")]
        sreq, simpl, excs, inv = run_session([(inp["base"] + "/objects.inv", data)], good)
        print("update :", simpl[:600])
        lost = [n for n in good if inv.getLink(n) is None]
        print("oracle :", (f"SphinxInventory.update raised {excs[0]} (the run aborts); well-formed lines lost: {lost}") if excs
              else "property holds on this input: update returned" + (f", {len(good)} well-formed line(s) resolve" if good and not lost else ""))
        bad = 1 if excs else 0
    elif "steps" in inp:
        steps = [("U", x[1], None if x[2] is None else bytes.fromhex(x[2])) if x[0] == "U" else ("Q", x[1]) for x in inp["steps"]]
        sreq, simpl, excs, inv, answers = run_steps(steps)
        for x in steps:
            print("step   :", x[0], x[1] if x[0] == "Q" else f"{x[1]} ({'None' if x[2] is None else str(len(x[2])) + ' bytes'})")
        print("impl   :", simpl[:1500])
        print("model  :", _model(ctx, sreq)[:1500] if sreq else "outside the int model")
        print("oracle :", f"raised {excs}" if excs else ("model and implementation agree" if sreq and _model(ctx, sreq) == simpl
              else "implementation differs from the state machine getLink = lookup in the current links"))
        bad = 1 if excs or (sreq and _model(ctx, sreq) != simpl) else 0
    elif "session" in inp:
        ups = [(u, None if d is None else bytes.fromhex(d)) for u, d in inp["session"]]
        sreq, simpl, excs, inv = run_session(ups, inp.get("queries", [l.split(" ")[0] for l in GOOD_LINES]))
        print("request:", (sreq or "")[:400])
        print("impl   :", simpl[:1000])
        print("model  :", _model(ctx, sreq)[:1000] if sreq else "outside the int model")
        print("oracle :", f"update raised {excs}" if excs else "update returned")
        bad = 1 if excs else 0
    elif "modules" in inp.get("project", inp):
        p = inp.get("project", inp)
        system = build_system([tuple(m) for m in p["modules"]], p["hidden"])
        c2 = Ctx(ctx.prop, "quick", 0)
        reqs: List[str] = []; impls: List[str] = []; pay: List[Any] = []
        check_project(c2, system, p, reqs, impls, pay)
        for r, i in zip(reqs, impls):
            m = _model(ctx, r)
            print("request:", r[:300]); print("impl   :", i[:600]); print("model  :", m[:600]); print("agree  :", m == i)
        print("oracle :", c2.failures or "property holds on this input")
        bad = 1 if c2.failures else 0
    else:
        print(obj)
    return bad


def _model(ctx: Ctx, req: str) -> str:
    try:
        return ctx.driver.run([req])[0]
    except Exception as e:
        return f"unavailable ({e})"
