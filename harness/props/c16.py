"""C16 — warnings point at the right place; every reported problem is counted.

Generates modules with documentation problems planted at known physical lines, runs the real
`pydoctor.driver.main` on them in-process, and compares every printed `<path>:<line>: <message>` and the
exit status (a) with the Lean model `PdModel.Lineno` and (b) with the planted truth (direct oracle).
"""
from __future__ import annotations

import ast
import contextlib
import io
import itertools
import os
import re
import shutil
import tempfile
from typing import Any, Dict, List, Optional, Tuple

from ..core import Ctx, enc

THEOREMS = [
    # extract_docstring_linenum / cleandoc
    "Lineno.extractLinenum_shift", "Lineno.extractLinenum_eq", "Lineno.cleaned_line_origin", "Lineno.dropped_eq",
    "Lineno.docstring_lineno_correct_partial", "Lineno.docstring_lineno_correct_counterexample",
    # string literals as written
    "Lineno.phys_vs_value", "Lineno.valueOf_newlines", "Lineno.literal_line_divergence", "Lineno.literal_line_exact",
    "Lineno.literal_line_continuation_counterexample",
    # parser numbers -> lineno_offset
    "Lineno.offset_correct_epytext_error", "Lineno.offset_correct_epytext_field",
    "Lineno.offset_correct_epytext_xref", "Lineno.offset_correct_rst_field", "Lineno.offset_correct_rst_xref",
    "Lineno.offset_rst_markup_error_plus_one", "Lineno.constructOffset_error_eq", "Lineno.constructOffset_field_eq",
    "Lineno.findSub_some", "Lineno.rst_xref_offset_raw",
    "Lineno.consolidated_field_line_correct", "Lineno.reported_line_correct_consolidated_partial",
    "Lineno.classifier_xref_line_correct_partial", "Lineno.classifier_xref_on_first_line_old",
    "Lineno.classifier_xref_old_counterexample",
    "Lineno.type_warning_one_low", "Lineno.type_warning_counterexample",
    # reported line per construct class
    "Lineno.reported_line_correct_epytext_error_partial", "Lineno.reported_line_correct_field_partial",
    "Lineno.reported_line_correct_epytext_xref_partial", "Lineno.reported_line_correct_rst_xref_partial",
    "Lineno.reported_line_correct_rst_error_partial", "Lineno.reported_line_rst_error_plus_one",
    "Lineno.reported_line_correct_rst_error_counterexample", "Lineno.reported_line_correct_counterexample",
    "Lineno.shift", "Lineno.report_shift",
    # which object / file
    "Lineno.report_invariant_under_move", "Lineno.report_by_current_module_wrong",
    "Lineno.inherited_report_in_source", "Lineno.inherited_report_independent",
    "Lineno.inherited_field_line_correct_partial", "Lineno.report_on_inheriting_object_wrong",
    "Lineno.attr_field_only_correct", "Lineno.attr_own_only_correct", "Lineno.attr_both_partial",
    "Lineno.attr_both_counterexample",
    # hunter round
    "Lineno.reportedLineS_eq_partial", "Lineno.reportedLineS_epytext", "Lineno.reportedLineS_lone_cr_counterexample",
    "Lineno.reportedLineSOld_eq_partial", "Lineno.reportedLineSOld_counterexample",
    "Lineno.version_arg_xref_offset", "Lineno.version_arg_xref_partial", "Lineno.version_arg_xref_counterexample",
    "Lineno.section_title_xref_offset", "Lineno.toc_does_not_report", "Lineno.toc_xref_offset_old", "Lineno.section_title_counterexample",
    "Lineno.doc_assignment_line_correct", "Lineno.doc_assignment_field_line_correct_partial",
    "Lineno.doc_assignment_keeps_old_base_old", "Lineno.doc_assignment_old_counterexample",
    # google / numpy
    "Lineno.converted_formats_in_range_partial", "Lineno.converted_formats_in_range_counterexample",
    "Lineno.napoleon_param_divergence_google", "Lineno.napoleon_param_divergence_numpy",
    "Lineno.napoleon_google_overflow_iff", "Lineno.converted_param_offset", "Lineno.google_param_line_correct_iff",
    "Lineno.google_param_reported_vs_written",
    # counting and exit status
    "Lineno.every_report_counted", "Lineno.printed_is_counted", "Lineno.reachable_parse_errors_counted",
    "Lineno.exit_status_raw", "Lineno.exit_status",
]
PARTIAL = {
    "Lineno.docstring_lineno_correct_partial":
        "excludes literals where a whitespace-only line between the opening quotes and the first text line is "
        "longer than the margin cleandoc removes (noOverIndent = false); witness docstring_lineno_correct_counterexample "
        "(open finding line:overindented-leading-blank)",
    "Lineno.reported_line_correct_*_partial, inherited_field_line_correct_partial, reported_line_correct_consolidated_partial, "
    "classifier_xref_line_correct_partial, doc_assignment_field_line_correct_partial":
        "only the layout hypothesis noOverIndent (same finding)",
    "Lineno.reported_line_correct_rst_error_partial":
        "additionally the false hypothesis that docutils counts lines from 0; with the real base every reST markup error is "
        "one line low (reported_line_rst_error_plus_one; open finding line:rst-markup-error:+1)",
    "Lineno.converted_formats_in_range_partial":
        "offset < number of cleaned lines; false exactly when the converted text is longer than the written one - for a trailing "
        "google section iff at least two entries are typed (napoleon_google_overflow_iff; open finding range:converted:past-end)",
    "Lineno.attr_both_partial":
        "an attribute documented by a class field and by its own docstring: right only if both docstrings start on the same line, "
        "i.e. never (attr_both_counterexample; open finding line:attr-field-and-inline-docstring)",
    "Lineno.reportedLineS_eq_partial":
        "reStructuredText: what pydoctor prints is reportedLine when the cleaned docstring has no carriage return; a lone '\\r' (written as "
        "an escape) is a line break for docutils' splitlines() and is not blanked by ce72216 (reportedLineS_lone_cr_counterexample; open finding "
        "line:rst-lone-cr-line-boundary). epytext needs no hypothesis (reportedLineS_epytext, exercised with every splitlines() boundary); "
        "google / numpy: napoleon splits with splitlines() (lineShift), only the span is promised",
    "Lineno.version_arg_xref_partial":
        "a reference in the argument of versionadded / versionchanged / deprecated is on the directive's line only when the directive is "
        "the last line of the docstring; otherwise the line after the directive's block (version_arg_xref_offset, "
        "version_arg_xref_counterexample; open finding line:rst-version-directive-arg-xref:after-block)",
    "Lineno.section_title_xref_offset":
        "states the defect: a reference in a section title is located on the underline (open finding "
        "line:rst-section-title-xref:underline)",
    "Lineno.type_warning_one_low":
        "states the defect: --process-types warnings of a type field are one line low for every field "
        "(open finding line:processtypes-type-warning:+1)",
    "Lineno.literal_line_exact":
        "no backslash-newline / implicit-concatenation break and no \\n escape before the position (the property's own exclusion); "
        "literal_line_divergence gives the exact displacement otherwise",
    "Lineno.napoleon_param_divergence_numpy": "every entry has at least one description line",
}
RULE = ("corpus first (fixed generator: the input shape of every finding and of every seeded change); then the layout grid "
        "exhaustively twice (quick) / three times (thorough) (text on the opening line / below with 0-2 leading blank lines x raw or not x docformat (4) x owner "
        "kind (module, class, function, method, attribute) x depth 0-2), the rest random (blank-line whitespace, content indentation, "
        "closing quotes, paragraphs / list items / fields / reST consolidated fields / google-numpy parameter sections, 0-5 planted "
        "problems, vertical offset 0-7); every module runs twice through the real driver.main (offset 0 and k, with and without "
        "--warnings-as-errors). Further driver streams: --process-types type warnings, inherited docstrings (other module, same module, "
        "two levels), objects moved by __all__ re-exports (plain / renamed, __init__ / sibling), attributes documented by a class field "
        "and/or their own docstring, literals with continuation lines and \\n escapes. In-process streams: str.isspace table (all code "
        "points), extract_docstring on hostile literals, literal source forms through ast.parse, get_lineno on hand-built node chains, "
        "napoleon section rewriting, the parsers' stored line numbers, Documentable.report / System.msg / main's tail over small values. "
        "Non-trivial = layout or offset differs from the simplest (docstring directly under its def, offset 0) or more than one problem planted.")
ASSUMPTIONS = [
    "main grid: generated literals are one token without backslash-newline / escapes (physical line of value line r = AST lineno + r, "
    "checked against ast.parse); literals WITH continuation lines, implicit concatenation and \\n escapes are modelled separately "
    "(Piece, literal_line_divergence) and tied to CPython and to a real run by the streams literal-source and continuation-e2e",
    "parser contracts (Lineno.errorStoredLinenum / fieldStoredLineno / constructOffset): epytext Token.startline = 0-based line of the "
    "block; docutils line = 1-based line of the block; inline nodes carry no line. Not proved; observed directly at the parsers "
    "(stream parser-contract: Field.lineno and ParseError._linenum of every generated epytext / reST docstring) and end to end (reports)",
    "reStructuredText cross-reference warnings name the line of the reference itself (get_lineno adds the newlines before its first "
    "occurrence in the paragraph's rawsource: rst_xref_offset_raw); the oracle accepts that line or the paragraph's first line",
    "google / numpy: napoleon is modelled for the generated shape only - leading paragraphs are copied line for line, a trailing "
    "Args: / Parameters section is rewritten as entryInLine / paramOutLine / typeOutLine say (stream napoleon-map against the real "
    "converter; converted-reports end to end). Other sections (Returns, Raises, Attributes, ...) are not modelled; the oracle only "
    "requires the docstring's span for these formats (property wording)",
    "status 2 'could not be parsed' is read as: pydoctor printed a `bad docstring:` message (markup errors and type expressions that "
    "do not parse alike)",
    "markup errors planted are inline errors (unbalanced brace; unterminated emphasis / inline literal); block-level docutils errors "
    "and epytext non-fatal tokenizer warnings have their own line conventions and are not generated",
]
EXPLANATION = ("Theorems relate extract_docstring_linenum and inspect.cleandoc (transcribed) for every string value, and the "
               "offset arithmetic of reportErrors / Field.report / get_lineno / Documentable.report / System.msg / main for "
               "every input; the correspondence runs the real driver.main on generated modules and compares every printed "
               "line and exit status with the model and with the planted truth.")

FMTS = {"e": "epytext", "r": "restructuredtext", "g": "google", "n": "numpy"}
OWNERS = ["module", "class", "function", "method", "attribute"]

MSG_RE = re.compile(r"^(?P<path>.*?):(?P<line>\d+|\?\?\?): (?P<descr>.*)$", re.S)


def classify(descr: str) -> Tuple[str, str]:
    """kind and identifying name of a message"""
    m = re.match(r'Cannot find link target for "([^"]*)"', descr)
    if m:
        return "X", m.group(1)
    m = re.match(r'Documented parameter "([^"]*)" does not exist', descr)
    if m:
        return "P", m.group(1)
    m = re.match(r"Unknown field '([^']*)'", descr)
    if m:
        return "U", m.group(1)
    if descr.startswith("bad docstring: unbalanced parenthesis in type expression"):
        return "W", ""          # warning of a type field (--process-types)
    if descr.startswith("bad docstring: "):
        return "E", ""
    return "O", descr.split(":")[0][:30]


def compare(ctx: Ctx, stream: str, reqs, impls, payload=None) -> None:
    """ctx.compare + the number of cases of every stream into the distribution"""
    ctx.count("stream:" + stream, len(reqs))
    ctx.compare(stream, reqs, impls, payload)


# --------------------------------------------------------------------------- generator

WORDS = ["alpha", "beta", "gamma", "delta", "words", "more", "text", "here", "value", "thing"]


class Names:
    def __init__(self, ptypes: bool = False) -> None:
        self.n = 0
        self.ptypes = ptypes        # the module is run with --process-types: plant type-field warnings

    def new(self, p: str = "zq") -> str:
        self.n += 1
        return f"{p}{self.n}"


def sentence(rng, raw: bool) -> str:
    ws = [rng.choice(WORDS) for _ in range(rng.randint(2, 4))]
    if raw and rng.random() < 0.3:
        ws.insert(rng.randrange(len(ws)), r"a\d")
    return " ".join(ws).capitalize() + "."


def plant(rng, fmt: str, cls: str, name: str, line: str) -> str:
    """append the problem text to a line"""
    if cls == "X":
        return line + (" L{%s}" % name if fmt == "e" else " `%s`" % name if rng.random() < 0.7 or fmt != "r" else " :py:obj:`%s`" % name)
    if cls == "E":
        if fmt == "e":
            return line + rng.choice([" B{oops", " oops}", " C{I{oops}"])
        return line + rng.choice([" *oops", " ``oops", " **oops"])
    raise AssertionError(cls)


def gen_blocks(rng, fmt: str, owner: str, names: Names, raw: bool, opening: bool) -> List[Dict[str, Any]]:
    """blocks = [{'lines': [...], 'constructs': [(cls, j, name[, offset of the list entry in the block])]}]; fields last"""
    blocks: List[Dict[str, Any]] = []
    nbody = rng.randint(1, 3)
    can_param = owner in ("class", "function", "method")
    density = rng.choice([0.35, 0.6, 0.9])

    def para(first: bool) -> Dict[str, Any]:
        n = rng.randint(1, 3)
        lines = [sentence(rng, raw) for _ in range(n)]
        cons = []
        if rng.random() < density:
            j = rng.randrange(n)
            cls = rng.choice("XXE")
            nm = names.new() if cls == "X" else ""
            lines[j] = plant(rng, fmt, cls, nm, lines[j])
            cons.append((cls, j, nm))
        return {"lines": lines, "constructs": cons, "kind": "para"}

    def item() -> Dict[str, Any]:
        n = rng.randint(1, 2)
        lines = [sentence(rng, raw) for _ in range(n)]
        cons = []
        if rng.random() < density:
            j = rng.randrange(n)
            cls = rng.choice("XXE")
            nm = names.new() if cls == "X" else ""
            lines[j] = plant(rng, fmt, cls, nm, lines[j])
            cons.append((cls, j, nm))
        pre = "  " if fmt == "e" else ""
        out = [pre + "- " + lines[0]] + [pre + "  " + l for l in lines[1:]]
        return {"lines": out, "constructs": cons, "kind": "item"}

    def rst_extra(kind: str) -> Dict[str, Any]:
        if kind == "vdir":          # pydoctor's versionadded / versionchanged / deprecated with a reference in the argument
            nm = names.new()
            lines = [".. %s:: %d.%d %s `%s`" % (rng.choice(["versionadded", "versionchanged", "deprecated"]), rng.randint(0, 3), rng.randint(0, 9),
                                                  rng.choice(WORDS), nm)]
            if rng.random() < 0.6:
                lines += [""] + ["   " + sentence(rng, raw) for _ in range(rng.randint(1, 2))]
                if rng.random() < 0.3:
                    lines += ["", "   " + sentence(rng, raw)]
            return {"lines": lines, "constructs": [("V", len(lines) - 1, nm)], "kind": "vdir"}
        if kind == "title":         # section title with a reference
            nm = names.new()
            t = "%s about `%s`" % (rng.choice(WORDS).capitalize(), nm)
            return {"lines": [t, "=" * (len(t) + rng.randint(0, 2))], "constructs": [("S", 0, nm)], "kind": "title"}
        # a paragraph holding characters at which str.splitlines() (docutils, napoleon) breaks lines and Python does not;
        # a lone CR, VT and FF can only be written as escapes, i.e. in non-raw literals (FF makes epytext's output unparsable: C08)
        pool = ["\u2028", "\u2029", "\x85", "\x1c", "\x1d", "\x1e"]
        if not raw:
            pool += ["\r", "\r", "\x0b"] + ([] if fmt == "e" else ["\x0c"])
        ch = [rng.choice(pool) for _ in range(rng.randint(1, 2))]
        return {"lines": ["Records%sfields%s." % (ch[0], ch[1] + "chars" if len(ch) > 1 else "")], "constructs": [], "kind": "uline"}

    for b in range(nbody):
        # epytext lists must be indented relative to the paragraph before them; with text on the opening line
        # cleandoc() computes the margin from the other lines only and would remove that indentation
        if b == 0 or rng.random() < 0.7 or fmt in "gn" or (fmt == "e" and opening):
            blocks.append(para(b == 0))
        else:
            blocks.append(item())
    if fmt == "r" and not names.ptypes:
        extras = [k for k, p in (("vdir", 0.12), ("title", 0.12), ("uline", 0.08)) if rng.random() < p]
        if "vdir" in extras and "uline" in extras:
            extras.remove("uline")
        for k in extras:
            blocks.insert(rng.randint(1, len(blocks)), rst_extra(k))
    if fmt != "r" and not names.ptypes and rng.random() < 0.08:
        blocks.insert(rng.randint(1, len(blocks)), rst_extra("uline"))       # epytext splits on '\n' only; napoleon on all of them
    if fmt in "er":
        at, colon = ("@", ":") if fmt == "e" else (":", ":")
        for _ in range(rng.choice([0, 1, 1, 2, 3])):
            kind = rng.choice(["U", "P", "note", "U", "P"] if can_param else ["U", "note", "U"])
            n = rng.randint(1, 2)
            body = [sentence(rng, raw) for _ in range(n)]
            cons = []
            if kind == "U":
                tag = names.new("zf")
                head = f"{at}{tag}{colon} "
                cons.append(("U", 0, tag))
            elif kind == "P":
                pn = names.new("zp")
                head = f"{at}param {pn}{colon} "
                cons.append(("P", 0, pn))
            else:
                head = f"{at}note{colon} "
            if rng.random() < density * 0.6:
                j = rng.randrange(n)
                cls = rng.choice("XXE")
                nm = names.new() if cls == "X" else ""
                body[j] = plant(rng, fmt, cls, nm, body[j])
                cons.append((cls, j, nm))
            lines = [head + body[0]] + ["    " + l for l in body[1:]]
            blocks.append({"lines": lines, "constructs": cons, "kind": "field"})
        if names.ptypes and owner in ("function", "method") and rng.random() < 0.8:
            # `(zqN`: warning "unbalanced parenthesis in type expression" + an unresolvable name, both on the field's line
            nm = names.new()
            blocks.append({"lines": [f"{at}type a{colon} ({nm}"], "constructs": [("W", 0, ""), ("X", 0, nm)], "kind": "field"})
        if fmt == "r" and not names.ptypes and rng.random() < 0.4:     # (--process-types would also link plain classifiers)
            blocks.append(consolidated_block(rng, owner, names, raw, density))
    elif can_param and rng.random() < 0.8:
        # google / numpy parameter section with parameters that do not exist
        ps = [names.new("zp") for _ in range(rng.randint(1, 4))]
        typed = rng.random() < 0.5
        if fmt == "g":
            lines = ["Args:"] + ["    %s%s: %s" % (p, " (int)" if typed else "", sentence(rng, raw)) for p in ps]
        else:
            lines = ["Parameters", "----------"]
            for p in ps:
                lines += ["%s%s" % (p, " : int" if typed else ""), "    " + sentence(rng, raw)]
        blocks.append({"lines": lines, "constructs": [("P", 0, p) for p in ps], "kind": "section",
                       "entries": [(typed, 1 if fmt == "n" else 0) for _ in ps]})
    return blocks


def consolidated_block(rng, owner: str, names: Names, raw: bool, density: float) -> Dict[str, Any]:
    """reStructuredText consolidated field (restructuredtext.CONSOLIDATED_FIELDS): one tag, then a bullet list or a
    definition list with one entry per name. Constructs carry the entry's offset inside the block (4th element):
    B / D = entry documenting a parameter that does not exist (bullet / definition list), T = cross-reference in a
    definition-list classifier, X / E inside the entry's text."""
    if owner in ("function", "method"):
        tag = rng.choice(["Parameters", "Parameters", "Arguments", "Exceptions", "Keywords"])
    elif owner == "class":
        tag = rng.choice(["Parameters", "IVariables", "CVariables", "Variables"])
    else:
        tag = rng.choice(["Variables", "Exceptions"]) if owner == "module" else "Exceptions"
    deflist = tag not in ("Exceptions", "Keywords") and rng.random() < 0.5      # CONSOLIDATED_DEFLIST_FIELDS
    param = tag in ("Parameters", "Arguments")
    lines = [":%s:" % tag]
    cons: List[Any] = []
    for _ in range(rng.randint(1, 3)):
        nm = names.new("zp") if param else (names.new("zv") if tag != "Exceptions" else rng.choice(["ValueError", "KeyError"]))
        sub = len(lines)
        n = rng.randint(1, 2)
        body = [sentence(rng, raw) for _ in range(n)]
        planted = None
        if rng.random() < density * 0.7:
            j = rng.randrange(n)
            cls = rng.choice("XXE")
            x = names.new() if cls == "X" else ""
            body[j] = plant(rng, "r", cls, x, body[j])
            planted = (cls, j, x)
        if deflist:
            classifier = ""
            if rng.random() < 0.6:
                if rng.random() < 0.5:
                    t = names.new("zt")
                    classifier = " : `%s`" % t
                    cons.append(("T", 0, t, sub))
                else:
                    classifier = " : int"
            lines.append("  %s%s" % (nm, classifier))
            lines += ["    " + l for l in body]
            if param:
                cons.append(("D", 0, nm, sub))
            if planted:                       # the definition is a paragraph of its own, one line below the term
                cons.append((planted[0], planted[1], planted[2], sub + 1))
        else:
            lines.append("  - `%s`: %s" % (nm, body[0]))
            lines += ["    " + l for l in body[1:]]
            if param:
                cons.append(("B", 0, nm, sub))
            if planted:
                cons.append((planted[0], planted[1], planted[2], sub))
    return {"lines": lines, "constructs": cons, "kind": "consolidated"}


def gen_layout(rng, cell: Tuple[bool, int, bool]) -> Dict[str, Any]:
    opening, kblank, raw = cell
    style = lambda: rng.choices(["", "ind", "over", "tab"], [70, 18, 8, 4])[0]
    return {
        "opening": opening, "kblank": kblank, "raw": raw,
        "quote": rng.choice(['"""', '"""', "'''"]),
        "open_ws": rng.choice(["", "", " ", "  "]),
        "blank_styles": [style() for _ in range(kblank)],
        "sep_style": rng.choices(["", "ind", "over"], [70, 20, 10])[0],
        "extra": rng.choices([0, 4, -1], [70, 22, 8])[0],   # -1: content flush left
        "close_own": rng.random() < 0.75,
    }


def build_literal(doc: Dict[str, Any], ind: int) -> Tuple[List[str], str, List[int]]:
    """source lines of the docstring statement, the string value, raw line index of each block"""
    L = doc["layout"]
    cind = "" if L["extra"] < 0 else " " * (ind + L["extra"])

    def blank(style: str) -> str:
        return {"": "", "ind": cind, "over": cind + "   ", "tab": "\t" * ((len(cind) // 8) + 1)}[style]

    content: List[Tuple[str, Optional[int]]] = []
    for bi, b in enumerate(doc["blocks"]):
        if bi:
            content.append((blank(L["sep_style"]), None))
        for k, ln in enumerate(b["lines"]):
            content.append((cind + ln, bi if k == 0 else None))
    raw: List[str] = []
    starts: Dict[int, int] = {}
    if L["opening"]:
        raw.append(L["open_ws"] + content[0][0].lstrip(" "))
        starts[0] = 0
        rest = content[1:]
    else:
        raw.append(L["open_ws"])
        for s in L["blank_styles"]:
            raw.append(blank(s))
        rest = content
    for t, bi in rest:
        if bi is not None:
            starts[bi] = len(raw)
        raw.append(t)
    if L["close_own"]:
        raw.append(" " * ind)
    value = "\n".join(raw)
    q = L["quote"]
    written = value if L["raw"] else value.replace("\r", "\\r").replace("\x0b", "\\x0b").replace("\x0c", "\\x0c")
    src = (" " * ind + ("r" if L["raw"] else "") + q + written + q).split("\n")
    return src, value, [starts[i] for i in range(len(doc["blocks"]))]


def layout_cells() -> List[Tuple[bool, int, bool]]:
    cells = []
    for raw in (False, True):
        cells.append((True, 0, raw))
        for k in (0, 1, 2):
            cells.append((False, k, raw))
    return cells


def gen_module(rng, fmt: str, plan: List[Any], ptypes: bool = False) -> Dict[str, Any]:
    """plan: list of (owner kind, layout cell, depth 0-2[, override]) to realise in this module; override =
    {'layout': partial layout, 'blocks': explicit blocks} pins what would otherwise be drawn (corpus cases)"""
    names = Names(ptypes)
    plan = [tuple(p) + (None,) if len(p) == 3 else tuple(p) for p in plan]
    lines: List[str] = []
    docs: List[Dict[str, Any]] = []
    counter = itertools.count()

    def filler(ind: int) -> None:
        for _ in range(rng.choice([0, 0, 1, 2])):
            lines.append(rng.choice(["", " " * ind + "# comment", " " * ind + "pass"]))

    def add_doc(owner: str, cell, ind: int, fullname: str, override=None) -> None:
        layout = gen_layout(rng, cell)
        blocks = gen_blocks(rng, fmt, owner, names, layout["raw"], layout["opening"])
        if override:
            layout.update(override.get("layout", {}))
            blocks = override.get("blocks", blocks)
        doc = {"fmt": fmt, "owner": owner, "layout": layout, "blocks": blocks, "name": fullname, "ind": ind}
        src, value, starts = build_literal(doc, ind)
        doc["str_lineno"] = len(lines) + 1          # before the vertical offset
        doc["value"] = value
        doc["starts"] = starts
        lines.extend(src)
        docs.append(doc)

    # a module docstring must come first
    mods = [p for p in plan if p[0] == "module"]
    if mods:
        add_doc("module", mods[0][1], 0, "m", mods[0][3])
    lines.append("import os")
    for owner, cell, depth, override in plan:
        if owner == "module":
            continue
        i = next(counter)
        # depth = number of enclosing classes above the owner's natural position
        prefix = "m"
        ind = 0
        need = depth
        if owner == "method":
            need = max(0, depth - 1)
        for d in range(need):
            cname = f"W{i}_{d}"
            lines.append(" " * ind + f"class {cname}:")
            prefix += "." + cname
            ind += 4
        filler(ind)
        if owner == "class":
            lines.append(" " * ind + f"class C{i}:")
            add_doc("class", cell, ind + 4, f"{prefix}.C{i}", override)
            lines.append(" " * (ind + 4) + "def __init__(self, a=1):")
            lines.append(" " * (ind + 8) + "pass")
        elif owner == "function":
            if rng.random() < 0.3:
                lines.append(" " * ind + "@staticmethod" if ind else " " * ind + "@os.path.expanduser")
            lines.append(" " * ind + f"def f{i}(a, *args, **kw):")
            add_doc("function", cell, ind + 4, f"{prefix}.f{i}", override)
            lines.append(" " * (ind + 4) + "return a")
        elif owner == "method":
            lines.append(" " * ind + f"class K{i}:")
            lines.append(" " * (ind + 4) + "k = 0")
            filler(ind + 4)
            lines.append(" " * (ind + 4) + f"def m{i}(self, a, b=2):")
            add_doc("method", cell, ind + 8, f"{prefix}.K{i}.m{i}", override)
            lines.append(" " * (ind + 8) + "return b")
        else:  # attribute
            flavour = rng.choice(["var", "ann", "inst"])
            if flavour == "inst":
                lines.append(" " * ind + f"class A{i}:")
                lines.append(" " * (ind + 4) + "def __init__(self):")
                lines.append(" " * (ind + 8) + f"self.v{i} = 1")
                add_doc("attribute", cell, ind + 8, f"{prefix}.A{i}.v{i}", override)
            else:
                lines.append(" " * ind + (f"v{i} = 1" if flavour == "var" else f"v{i}: int = 1"))
                add_doc("attribute", cell, ind, f"{prefix}.v{i}", override)
        filler(0)
    return {"fmt": fmt, "lines": lines, "docs": docs, "extra_args": ["--process-types"] if ptypes else []}


def realise(mod: Dict[str, Any], offset: int) -> str:
    head = ["# offset line %d" % i if i % 2 else "" for i in range(offset)]
    return "\n".join(head + mod["lines"]) + "\n"


# --------------------------------------------------------------------------- implementation adapter

@contextlib.contextmanager
def patched(log: List[Dict[str, Any]], holder: Dict[str, Any]):
    """record System.msg / Documentable.report / reportErrors from the outside (no change to /repo)"""
    from pydoctor import model, epydoc2stan, driver
    o_msg, o_report, o_re, o_gs = model.System.msg, model.Documentable.report, epydoc2stan.reportErrors, driver.get_system
    state = {"in_re": 0}

    def msg(self, section, msg, thresh=0, topthresh=100, nonl=False, wantsnl=True, once=False):
        v0 = self.violations
        o_msg(self, section, msg, thresh, topthresh, nonl, wantsnl, once)
        log.append({"t": "m", "section": section, "msg": msg, "thresh": thresh, "top": topthresh, "once": once,
                    "counted": self.violations - v0, "in_re": state["in_re"]})

    def report(self, descr, section="parsing", lineno_offset=0, thresh=-1):
        n0 = len(log)
        o_report(self, descr, section, lineno_offset, thresh)
        for e in log[n0:]:
            if e["t"] == "m":
                e.update(obj=self.fullName(), off=lineno_offset, rsec=section, dl=self.docstring_lineno,
                         ln=int(self.linenumber), ismod=self.module is self, descr=descr)

    def reportErrors(obj, errs, section="docstring", phase="parsing"):
        log.append({"t": "r", "section": section, "obj": obj.fullName(), "oid": id(obj), "phase": phase, "n": len(errs)})
        state["in_re"] += 1
        try:
            return o_re(obj, errs, section, phase)
        finally:
            state["in_re"] -= 1

    def get_system(options):
        s = o_gs(options)
        holder["system"] = s
        return s

    model.System.msg, model.Documentable.report = msg, report
    epydoc2stan.reportErrors, driver.get_system = reportErrors, get_system
    try:
        yield
    finally:
        model.System.msg, model.Documentable.report = o_msg, o_report
        epydoc2stan.reportErrors, driver.get_system = o_re, o_gs


def run_driver(src: Any, fmt: str, wae: bool, names: List[str], extra_args: Optional[List[str]] = None) -> Dict[str, Any]:
    """one real pydoctor run; everything the checks need, as plain data"""
    from pydoctor import driver
    d = tempfile.mkdtemp(prefix="c16-")
    log: List[Dict[str, Any]] = []
    holder: Dict[str, Any] = {}
    out = io.StringIO()
    try:
        if isinstance(src, dict):           # a package: {file name: text} written to <tmp>/p/
            path = os.path.join(d, "p")
            os.mkdir(path)
            for fn, text in src.items():
                with open(os.path.join(path, fn), "w", encoding="utf-8", newline="\n") as f:
                    f.write(text)
        else:
            path = os.path.join(d, "m.py")
            with open(path, "w", encoding="utf-8", newline="\n") as f:
                f.write(src)
        args = ["--docformat", FMTS[fmt], "--html-output", os.path.join(d, "out"), "--project-name", "p"] + list(extra_args or [])
        if wae:
            args.append("--warnings-as-errors")
        rc: Any
        with patched(log, holder), contextlib.redirect_stdout(out), contextlib.redirect_stderr(io.StringIO()):
            try:
                rc = driver.main(args + [path])
            except SystemExit as e:
                rc = "SystemExit:%s" % (e.code,)
            except Exception as e:  # a crash is C01's business; here it only makes the case unusable
                rc = "Crash:" + type(e).__name__
        system = holder.get("system")
        objs = {}
        if system is not None:
            for n in names:
                o = system.allobjects.get(n)
                if o is not None:
                    objs[n] = {"dl": o.docstring_lineno, "ln": int(o.linenumber), "doc": o.docstring,
                               "ismod": o.module is o}
        res = {
            "rc": rc, "stdout": out.getvalue().replace(d + os.sep, ""), "log": log, "objs": objs,
            "violations": getattr(system, "violations", None),
            "pe": {k: sorted(v) for k, v in getattr(system, "parse_errors", {}).items()},
        }
        for e in log:
            if "msg" in e:
                e["msg"] = e["msg"].replace(d + os.sep, "")
        return res
    finally:
        shutil.rmtree(d, ignore_errors=True)


def _job(a):
    return run_driver(*a)


def run_many(jobs: List[Tuple[Any, str, bool, List[str]]], workers: int = 14) -> List[Dict[str, Any]]:
    if len(jobs) < 8:
        return [run_driver(*j) for j in jobs]
    import multiprocessing as mp
    # import everything pydoctor loads lazily (parsers, templates, docutils writers) before forking
    for f in FMTS:
        run_driver('def warm(a):\n    """Warm `up`.\n\n    Args:\n        a: x\n    """\n', f, False, [])
    ctxm = mp.get_context("fork")
    with ctxm.Pool(workers) as pool:
        return pool.map(_job, jobs, chunksize=4)


# --------------------------------------------------------------------------- evaluation of one run

KIND = {"B": "P", "D": "P", "T": "X", "V": "X", "S": "X"}      # planted class -> kind of the message it produces


def cons_of(doc: Dict[str, Any]):
    """planted constructs as (class, raw line of the first line of the block / list entry, j, name)"""
    for b, st in zip(doc["blocks"], doc["starts"]):
        for c in b["constructs"]:
            yield c[0], st + (c[3] if len(c) > 3 else 0), c[1], c[2]


def cons_tokens(doc: Dict[str, Any]) -> str:
    toks = ["%s:%d:%d" % (cls, raw, j) for cls, raw, j, _ in cons_of(doc)]
    # (until fcb5e8a the sidebar's table of contents reported the titles' references a second time: model tag Z, no longer sent)
    return " ".join(toks)


def expected_reports(doc: Dict[str, Any], offset: int) -> List[Tuple[str, str, int, int, str]]:
    """planted truth: (message kind, name, first physical line of the paragraph / item / field, physical line of
    the construct, planted class)"""
    base = doc["str_lineno"] + offset
    return [(KIND.get(cls, cls), nm, base + raw, base + raw + (0 if cls == "V" else j), cls) for cls, raw, j, nm in cons_of(doc)]


def report_entries(res: Dict[str, Any]) -> List[Dict[str, Any]]:
    out = []
    for e in res["log"]:
        if e["t"] == "m" and "obj" in e:
            m = MSG_RE.match(e["msg"])
            kind, name = classify(e["descr"])
            out.append({**e, "path": m.group("path") if m else None, "line": m.group("line") if m else None,
                        "kind": kind, "name": name})
    return out


def stdout_reports(stdout: str) -> List[Tuple[str, str]]:
    """what a user sees: `m.py:<line>: <first line of message>`"""
    res = []
    for l in stdout.split("\n"):
        m = re.match(r"^m\.py:(\d+|\?\?\?): (.*)$", l)
        if m:
            res.append((m.group(1), classify(m.group(2))[0] + ":" + classify(m.group(2))[1]))
    return sorted(res)


def sec_letter(rsec: str) -> str:
    return {"docstring": "d", "resolve_identifier_xref": "x"}.get(rsec, "o")


def simplest(doc: Dict[str, Any], offset: int) -> bool:
    L = doc["layout"]
    return (offset == 0 and not L["opening"] and L["kblank"] == 0 and not L["raw"] and L["extra"] == 0
            and L["open_ws"] == "")


# --------------------------------------------------------------------------- run

def run(ctx: Ctx) -> None:
    rng = ctx.rng
    stream_tables(ctx)
    stream_report_api(ctx)
    stream_sys_api(ctx)
    stream_literal_source(ctx)
    stream_get_lineno_api(ctx)
    stream_napoleon_map(ctx)

    # ---- plan: every (owner, layout cell, depth, fmt) at least once
    cells = layout_cells()
    # the whole grid once is the exhaustive part; the further copies (same cells, other random contents) are the random part
    grid = [(o, c, d, f) for f in FMTS for o in OWNERS for c in cells for d in (0, 1, 2)] * (2 if ctx.quick else 3)
    rng.shuffle(grid)
    extra = (0 if ctx.quick else 14000)
    grid += [(rng.choice(OWNERS), rng.choice(cells), rng.randrange(3), rng.choice("erngre")) for _ in range(extra)]
    byfmt: Dict[str, List[Any]] = {f: [] for f in FMTS}
    for o, c, d, f in grid:
        byfmt[f].append((o, c, d))
    mods: List[Dict[str, Any]] = []
    for f, items in byfmt.items():
        i = 0
        while i < len(items):
            n = rng.randint(2, 5)
            chunk = items[i:i + n]
            i += n
            # at most one module docstring per module
            seen_mod = False
            plan = []
            for p in chunk:
                if p[0] == "module":
                    if seen_mod:
                        items.append(p)
                        continue
                    seen_mod = True
                plan.append(p)
            if plan:
                mods.append(gen_module(rng, f, plan))
    # type-field warnings need --process-types: a few modules of their own
    for i in range(40 if ctx.quick else 400):
        plan = [(rng.choice(["function", "method"]), rng.choice(cells), rng.randrange(2)) for _ in range(rng.randint(1, 3))]
        mods.append(gen_module(rng, "er"[i % 2], plan, ptypes=True))
    # deterministic corpus first: past findings and the shapes the seeded changes need (never depends on the seed)
    corpus = corpus_modules()
    mods = corpus + mods
    ctx.extra["corpus_modules"] = len(corpus)
    ctx.extra["grid_cells"] = len(FMTS) * len(OWNERS) * len(cells) * 3
    ctx.extra["modules"] = len(mods)

    jobs = []
    meta = []
    for mi, mod in enumerate(mods):
        k = rng.randint(1, 7)
        w0 = rng.random() < 0.5
        names = [d["name"] for d in mod["docs"]]
        for off, wae in ((0, w0), (k, not w0)):
            src = realise(mod, off)
            # the generator's idea of value / line must be CPython's
            check_against_ast(ctx, mod, src, off)
            jobs.append((src, mod["fmt"], wae, names, mod.get("extra_args", [])))
            meta.append((mi, off, wae))
    inh_pk, inh_jobs = inherited_jobs(ctx)
    rex_pk, rex_jobs = reexport_jobs(ctx)
    sp_am, sp_cm, sp_jobs = special_jobs(ctx)
    allres = run_many(jobs + inh_jobs + rex_jobs + sp_jobs)          # one pool for all kinds of run
    results, inh_results = allres[:len(jobs)], allres[len(jobs):len(jobs) + len(inh_jobs)]
    rex_results = allres[len(jobs) + len(inh_jobs):len(jobs) + len(inh_jobs) + len(rex_jobs)]
    sp_results = allres[len(jobs) + len(inh_jobs) + len(rex_jobs):]

    lit_req, lit_impl, lit_pay = [], [], []
    doc_req, doc_impl, doc_pay = [], [], []
    ar_req, ar_impl, ar_pay = [], [], []
    rg_req, rg_impl, rg_pay = [], [], []
    sys_req, sys_impl, sys_pay = [], [], []
    pc_req, pc_impl, pc_pay = [], [], []
    gn_req, gn_impl, gn_pay = [], [], []
    by_mod: Dict[int, List[Tuple[int, bool, Dict[str, Any]]]] = {}
    for (mi, off, wae), res in zip(meta, results):
        mod = mods[mi]
        fmt = mod["fmt"]
        src = realise(mod, off)
        by_mod.setdefault(mi, []).append((off, wae, res))
        inp = {"source": src, "docformat": FMTS[fmt], "warnings_as_errors": wae}
        if mod.get("extra_args"):
            inp["extra_args"] = mod["extra_args"]
            ctx.count("runs:" + " ".join(mod["extra_args"]))
        if mod.get("corpus"):
            ctx.count("corpus:" + mod["corpus"])
        ctx.count("runs")
        ctx.count("fmt:" + FMTS[fmt])
        if not isinstance(res["rc"], int):
            ctx.fail("run-aborted:" + str(res["rc"]).split(":")[0], inp, f"driver.main ended with {res['rc']}")
            continue
        entries = report_entries(res)
        # observation point of the property: stdout. It must show what the log says.
        logged = sorted((e["line"], e["kind"] + ":" + e["name"]) for e in entries if e["path"] == "m.py")
        seen = stdout_reports(res["stdout"])
        if logged != seen:
            ctx.disagree("stdout-vs-log", inp, str(logged)[:300], str(seen)[:300])
        for e in entries:
            if e["path"] != "m.py":
                ctx.fail("file:wrong-path", {**inp, "message": e["msg"]}, f"message does not name the file: {e['msg'][:80]}")
        by_obj: Dict[str, List[Dict[str, Any]]] = {}
        for e in entries:
            by_obj.setdefault(e["obj"], []).append(e)
            # stream: Documentable.report arithmetic, replayed
            ar_req.append("lineno report %d %d %d %s %d" % (e["ismod"], e["dl"], e["ln"], sec_letter(e["rsec"]), e["off"]))
            ar_impl.append(str(e["line"]))
            ar_pay.append({"obj": e["obj"], "dl": e["dl"], "ln": e["ln"], "section": e["rsec"], "off": e["off"]})
        docnames = {d["name"] for d in mod["docs"]}
        for e in entries:
            if e["obj"] not in docnames:
                ctx.fail("unexpected-object:" + e["kind"], {**inp, "message": e["msg"]}, "report on an object without planted docstring: " + e["msg"][:80])
        for doc in mod["docs"]:
            o = res["objs"].get(doc["name"])
            sl = doc["str_lineno"] + off
            nprob = sum(len(b["constructs"]) for b in doc["blocks"])
            L = doc["layout"]
            canon = "%s|%s|%d|%s|%d" % (fmt, doc["owner"], off, enc(doc["value"]), doc["ind"])
            nontriv = (not simplest(doc, off)) or nprob > 1
            ctx.case(canon, nontriv, {"docformat": FMTS[fmt], "owner": doc["owner"], "offset": off, "string_lineno": sl,
                                      "value": doc["value"], "planted": expected_reports(doc, off)}
                     if nontriv and nprob > 1 and len(ctx.samples) < 4 else None)
            ctx.count("owner:" + doc["owner"])
            ctx.count("layout:%s,k=%d,%s" % ("opening" if L["opening"] else "below", L["kblank"], "raw" if L["raw"] else "plain"))
            ctx.count("depth-indent:%d" % doc["ind"])
            ctx.count("problems:%d" % min(nprob, 5))
            if any(s in ("over", "tab") for s in L["blank_styles"]):
                ctx.count("layout:leading-blank-with-extra-whitespace")
            if o is None:
                ctx.disagree("object-missing", inp, doc["name"], "not in system.allobjects")
                continue
            # stream: extract_docstring (docstring_lineno + cleandoc)
            lit_req.append("lineno literal %d %s" % (sl, enc(doc["value"])))
            lit_impl.append("dl=%d clean=%s" % (o["dl"], enc(o["doc"] if o["doc"] is not None else "")))
            lit_pay.append({"string_lineno": sl, "value": doc["value"]})
            mine = by_obj.get(doc["name"], [])
            # "every such problem is counted" once: the same message on the same line of the same object twice is a second
            # rendering that reports again (summary, table of contents, a retry)
            seen_once = set()
            for e in mine:
                key = (e["line"], e["kind"], e["name"], e["descr"])
                if key in seen_once and e["kind"] in ("X", "P", "U", "E", "W"):
                    ctx.fail("dup:same-report-twice:" + e["kind"], {**inp, "object": doc["name"], "message": e["msg"][:200]},
                             f"{FMTS[fmt]} docstring of {doc['name']}: reported (and counted) twice: {e['msg'][:100]}")
                seen_once.add(key)
            exp = expected_reports(doc, off)
            span = (sl, sl + doc["value"].count("\n"))
            if fmt in "er":
                # stream: which constructs are reported, and where
                doc_req.append("lineno doc %s %d %d %d %s %s" % (fmt, o["ismod"], o["ln"], sl, enc(doc["value"]), cons_tokens(doc)))
                ncl = len(o["doc"].split("\n")) if o["doc"] else 0
                # duplicates (summary + body) collapse: the contract is the set of (line, kind, name)
                uniq = sorted({(e["line"], e["kind"], e["name"]) for e in mine})
                doc_impl.append("dl=%d n=%d | %s" % (o["dl"], ncl, " ".join(sorted("%s:%s" % (l, k) for l, k, _ in uniq))))
                doc_pay.append({**inp, "object": doc["name"], "planted": exp})
                oracle_er(ctx, inp, fmt, doc, exp, uniq, span)
                if off == 0 and o["doc"]:
                    pc_req.append("lineno parser %s %s %s" % (fmt, enc(doc["value"]), cons_tokens(doc)))
                    pc_impl.append(parser_numbers(fmt, o["doc"], doc))
                    pc_pay.append({"docformat": FMTS[fmt], "cleaned_docstring": o["doc"], "planted": exp})
            else:
                # stream: google / numpy end to end (paragraphs copied by napoleon + the parameter section's closed form)
                sec = [(b, st) for b, st in zip(doc["blocks"], doc["starts"]) if b["kind"] == "section"]
                if all("entries" in b for b, _ in sec):
                    ptoks = " ".join("%s:%d:%d" % (c[0], st + (c[3] if len(c) > 3 else 0), c[1])
                                     for b, st in zip(doc["blocks"], doc["starts"]) if b["kind"] != "section" for c in b["constructs"])
                    gn_req.append("lineno docgn %s %d %d %d %s %s %s %s" % (
                        fmt, o["ismod"], o["ln"], sl, enc(doc["value"]), sec[0][1] if sec else "-",
                        ",".join(("t" if t else "u") + str(x) for t, x in sec[0][0]["entries"]) if sec else "-", ptoks))
                    gn_impl.append(" ".join(sorted({"%s:%s" % (e["line"], e["kind"]) for e in mine})))
                    gn_pay.append({**inp, "object": doc["name"], "planted": exp})
                for e in mine:
                    rg_req.append("lineno inrange %d %s %d %d %s %d" % (sl, enc(doc["value"]), o["ismod"], o["ln"], sec_letter(e["rsec"]), e["off"]))
                    inside = e["line"].isdigit() and span[0] <= int(e["line"]) <= span[1]
                    rg_impl.append("%s %s" % (e["line"], "in" if inside else "out"))
                    rg_pay.append({**inp, "object": doc["name"], "message": e["msg"]})
                    if not inside:
                        ctx.fail("range:converted:past-end" if e["line"].isdigit() and int(e["line"]) > span[1] else "range:converted:before-start",
                                 {**inp, "object": doc["name"], "message": e["msg"], "docstring_span": span},
                                 f"{FMTS[fmt]} docstring of {doc['name']} spans lines {span[0]}-{span[1]} but pydoctor reports line {e['line']}: {e['descr'][:60]}")
        # stream: msg / reportErrors / main replayed on the model
        ops, ids = [], {}

        def iid(x):
            return ids.setdefault(x, len(ids) + 1)
        summary_seen = 0
        for e in res["log"]:
            if e["t"] == "r":
                # reportErrors is keyed by (section, the object itself, phase) since b867a76; the name only goes to parse_errors
                ops.append("r:%d:%d:%d:%d:%d" % (0 if e["section"] == "docstring" else iid(("s", e["section"])), iid(("id", e["oid"])), e["n"],
                                                  0 if e["phase"] == "parsing" else 1, iid(("o", e["obj"]))))
            elif e["section"] == "docstring-summary":
                summary_seen += 1      # produced by main's tail: the model generates these itself
            elif not e["in_re"]:
                ops.append("m:%d:%d:%d:%d:%d" % (iid(("s", e["section"])), iid(("m", e["msg"])), e["thresh"], e["top"], e["once"]))
        sys_req.append("lineno sys %d 0 %s" % (wae, " ".join(ops)))
        nprinted = sum(1 for e in res["log"] if e["t"] == "m" and e["thresh"] <= 0 <= e["top"])
        sys_impl.append("status=%s violations=%s printed=%d pe=%d" % (res["rc"], res["violations"], nprinted, int(any(res["pe"].values()))))
        sys_pay.append(inp)
        oracle_exit(ctx, inp, mod, res, entries, wae)
    # shift: the same module moved down by k
    for mi, runs in by_mod.items():
        if len(runs) == 2 and all(isinstance(r[2]["rc"], int) for r in runs):
            (o0, _, r0), (o1, _, r1) = runs
            a = sorted((int(e["line"]) + (o1 - o0) if e["line"].isdigit() else -1, e["kind"], e["name"], e["obj"]) for e in report_entries(r0))
            b = sorted((int(e["line"]) if e["line"].isdigit() else -1, e["kind"], e["name"], e["obj"]) for e in report_entries(r1))
            ctx.count("shift-pairs")
            if a != b:
                diff = [x for x in b if x not in a][:3]
                ctx.fail("shift:not-by-k", {"source": realise(mods[mi], o0), "docformat": FMTS[mods[mi]["fmt"]], "k": o1 - o0, "differs": diff},
                         f"moving the module down by {o1 - o0} lines does not move every reported line by {o1 - o0}: {diff}")
    stream_inherited(ctx, inh_pk, inh_jobs, inh_results)
    stream_reexported(ctx, rex_pk, rex_jobs, rex_results)
    stream_special(ctx, sp_am, sp_cm, sp_results)
    compare(ctx, "literal", lit_req, lit_impl, lit_pay)
    compare(ctx, "reports", doc_req, doc_impl, doc_pay)
    compare(ctx, "report-arith", ar_req, ar_impl, ar_pay)
    compare(ctx, "converted-range", rg_req, rg_impl, rg_pay)
    compare(ctx, "msg-main", sys_req, sys_impl, sys_pay)
    compare(ctx, "parser-contract", pc_req, pc_impl, pc_pay)
    compare(ctx, "converted-reports", gn_req, gn_impl, gn_pay)


def parser_numbers(fmt: str, cleaned: str, doc: Dict[str, Any]) -> str:
    """what the real parser stores: `Field.lineno` of the fields that carry a planted field-level problem and
    `ParseError._linenum` of every error - the contract `Lineno.constructOffset` assumes, observed at the parser itself"""
    from pydoctor.epydoc.markup import epytext, restructuredtext, ParseError
    errs: List[Any] = []
    fields: List[Any] = []
    try:
        parsed = (epytext if fmt == "e" else restructuredtext).parse_docstring(cleaned, errs)
        fields = list(parsed.fields)
    except ParseError:
        pass            # epytext: a fatal error; it is in errs
    names = {nm for cls, raw, j, nm in cons_of(doc) if cls in ("U", "P", "B", "D")}
    fl = sorted({str(f.lineno) for f in fields if f.tag() in names or (f.arg() in names and f.tag() != "type")})
    el = sorted({str(e._linenum) for e in errs})
    return "fields=%s errs=%s" % (",".join(fl), ",".join(el))


def corpus_modules() -> List[Dict[str, Any]]:
    """deterministic cases run first on every run: the input shape of every finding (open or fixed) and the shape each
    seeded change needs (seeded/C16*/meta.json)"""
    import random
    r = random.Random("C16-corpus")
    below0, below1, below2, opening = (False, 0, False), (False, 1, False), (False, 2, False), (True, 0, False)
    plain = {"quote": '"' * 3, "open_ws": "", "sep_style": "", "extra": 0, "close_own": True}

    def para(fmt, *cons_text):
        return {"lines": list(cons_text), "constructs": [], "kind": "para"}
    out = []

    def mod(tag, fmt, plan, ptypes=False):
        m = gen_module(r, fmt, plan, ptypes=ptypes)
        m["corpus"] = tag
        out.append(m)
    for fmt, X, E, U, P in (("e", " L{%s}", " B{oops", "@%s: text", "@param %s: text"), ("r", " `%s`", " *oops", ":%s: text", ":param %s: text")):
        blocks = lambda: [{"lines": ["Summary." + X % "zq1"], "constructs": [("X", 0, "zq1")], "kind": "para"},
                          {"lines": ["Second para", "with error" + E], "constructs": [("E", 1, "")], "kind": "para"},
                          {"lines": [U % "zf2"], "constructs": [("U", 0, "zf2")], "kind": "field"},
                          {"lines": [P % "zp3"], "constructs": [("P", 0, "zp3")], "kind": "field"}]
        noerr = lambda: [b for b in blocks() if not any(c[0] == "E" for c in b["constructs"])]
        # finding 1 (rst markup error +1) and seeded C16-2 (-W with a docstring that cannot be parsed): both W modes are run
        mod("markup-error", fmt, [("function", below0, 0, {"layout": dict(plain), "blocks": blocks()})])
        # finding 3 (over-indented leading blank line)
        mod("overindented-leading-blank", fmt, [("method", below1, 1, {"layout": {**plain, "blank_styles": ["over"]}, "blocks": noerr()})])
        mod("overindented-leading-blank-tab", fmt, [("function", below2, 0, {"layout": {**plain, "blank_styles": ["", "tab"]}, "blocks": noerr()})])
        # seeded C16-1 / C16-r2-1: leading blank line carrying the indentation; trailing blanks after the opening quotes
        mod("leading-blank-with-indentation", fmt, [("function", below1, 0, {"layout": {**plain, "blank_styles": ["ind"]}, "blocks": noerr()}),
                                                    ("method", below2, 1, {"layout": {**plain, "blank_styles": ["ind", "ind"]}, "blocks": noerr()})])
        mod("blanks-after-opening-quotes", fmt, [("function", below0, 0, {"layout": {**plain, "open_ws": "  "}, "blocks": noerr()}),
                                                 ("class", below1, 0, {"layout": {**plain, "open_ws": " ", "blank_styles": [""]}, "blocks": noerr()})])
        mod("text-on-opening-line", fmt, [("function", opening, 0, {"layout": dict(plain), "blocks": noerr()})])
        # reviewer report (a): type-field warning with --process-types
        mod("process-types", fmt, [("function", below0, 0, {"layout": dict(plain), "blocks": [
            {"lines": ["Summary."], "constructs": [], "kind": "para"},
            {"lines": [(U % "type a").replace(" text", " (zq9")], "constructs": [("W", 0, ""), ("X", 0, "zq9")], "kind": "field"}]})], ptypes=True)
    # seeded C16-r2-3 and finding 4 (fixed c88d52b): consolidated fields
    mod("consolidated-bullet", "r", [("function", below0, 0, {"layout": dict(plain), "blocks": [
        {"lines": ["Summary."], "constructs": [], "kind": "para"},
        {"lines": [":Parameters:", "  - `a`: fine", "  - `zp1`: not a parameter", "    continued"], "constructs": [("B", 0, "zp1", 2)], "kind": "consolidated"}]})])
    mod("consolidated-deflist-classifier", "r", [("method", below0, 1, {"layout": dict(plain), "blocks": [
        {"lines": ["Summary."], "constructs": [], "kind": "para"},
        {"lines": ["More."], "constructs": [], "kind": "para"},
        {"lines": [":Parameters:", "  a : `zt1`", "    fine", "  zp2 : int", "    not a parameter"],
         "constructs": [("T", 0, "zt1", 1), ("D", 0, "zp2", 3)], "kind": "consolidated"}]})])
    # hunter round: version directive argument, section titles (module: table of contents too), splitlines() boundaries
    mod("version-directive-arg", "r", [("function", below0, 0, {"layout": dict(plain), "blocks": [
        {"lines": ["Summary."], "constructs": [], "kind": "para"},
        {"lines": [".. deprecated:: 1.3 use `zq1` instead", "", "   More explanation", "   on two lines."], "constructs": [("V", 3, "zq1")], "kind": "vdir"},
        {"lines": ["End."], "constructs": [], "kind": "para"}]})])
    mod("section-title", "r", [("module", below0, 0, {"layout": dict(plain), "blocks": [
        {"lines": ["Module summary."], "constructs": [], "kind": "para"},
        {"lines": ["Section about `zq1`", "===================="], "constructs": [("S", 0, "zq1")], "kind": "title"},
        {"lines": ["More text."], "constructs": [], "kind": "para"}]}),
        ("function", below0, 0, {"layout": dict(plain), "blocks": [
        {"lines": ["Summary."], "constructs": [], "kind": "para"},
        {"lines": ["Details of `zq2`", "================"], "constructs": [("S", 0, "zq2")], "kind": "title"},
        {"lines": ["Body."], "constructs": [], "kind": "para"}]})])
    mod("splitlines-boundary", "r", [("function", below0, 0, {"layout": dict(plain), "blocks": [
        {"lines": ["Records\u2028fields\x1echars."], "constructs": [], "kind": "uline"},
        {"lines": ["Second paragraph `zq1`."], "constructs": [("X", 0, "zq1")], "kind": "para"},
        {"lines": [":zf2: unknown field"], "constructs": [("U", 0, "zf2")], "kind": "field"}]})])
    # seeded C16-r5-1 (epytext must split on '\n' only) and the lone-CR finding of reST
    for fmt, X, U in (("e", " L{zq1}", "@zf2: unknown field"), ("r", " `zq1`", ":zf2: unknown field")):
        mod("splitlines-boundary-" + FMTS[fmt], fmt, [("function", below0, 0, {"layout": dict(plain), "blocks": [
            {"lines": ["Strip the trailing\rbyte and\x0bthe\u2028rest."], "constructs": [], "kind": "uline"},
            {"lines": ["Second paragraph" + X + "."], "constructs": [("X", 0, "zq1")], "kind": "para"},
            {"lines": [U], "constructs": [("U", 0, "zf2")], "kind": "field"}]})])
    # finding 2 (google / numpy line past the end)
    for fmt, lines in (("n", ["Parameters", "----------", "zp1: int", "zp2: int", "zp3: int", "zp4: int"]),
                       ("g", ["Args:", "    zp1 (int): x", "    zp2 (int): x", "    zp3 (int): x", "    zp4 (int): x"])):
        mod("converted-past-end", fmt, [("function", below0, 0, {"layout": dict(plain), "blocks": [
            {"lines": ["Summary."], "constructs": [], "kind": "para"},
            {"lines": lines, "constructs": [("P", 0, "zp%d" % i) for i in range(1, 5)], "kind": "section"}]})])
    return out


def check_against_ast(ctx: Ctx, mod: Dict[str, Any], src: str, off: int) -> None:
    tree = ast.parse(src)
    found = {}
    for node in ast.walk(tree):
        if isinstance(node, ast.Expr) and isinstance(node.value, ast.Constant) and isinstance(node.value.value, str):
            found[node.value.lineno] = node.value
    for doc in mod["docs"]:
        n = found.get(doc["str_lineno"] + off)
        if n is None or n.value != doc["value"] or n.end_lineno != doc["str_lineno"] + off + doc["value"].count("\n"):
            raise AssertionError("generator and CPython disagree about a literal: %r" % (doc["value"],))


# --------------------------------------------------------------------------- direct oracles

def expected_shift(doc) -> int:
    """how many lines the known over-indented-leading-blank-line defect moves every report of this docstring:
    cleandoc() keeps the first leading blank line that is longer than the margin and every line after it,
    extract_docstring_linenum() skips them all"""
    L = doc["layout"]
    if L["opening"]:
        return 0
    for i, st in enumerate(L["blank_styles"]):
        if st in ("over", "tab"):
            return L["kblank"] - i
    return 0


def oracle_er(ctx: Ctx, inp, fmt: str, doc, exp, uniq, span) -> None:
    """epytext / reStructuredText: every report names the first line of the block holding the problem
    (a reStructuredText cross-reference may instead name the line of the reference itself)"""
    byname = {(c, n): (first, own, pc) for c, n, first, own, pc in exp if c not in ("E", "W")}
    err_lines = sorted(first for c, n, first, own, pc in exp if c == "E")
    w_lines = sorted(first for c, n, first, own, pc in exp if c == "W")
    text_start = span[0] + (doc["starts"][0] if doc["starts"] else 0)     # physical line of the first text line
    tag = "rst" if fmt == "r" else "epytext"
    shift = expected_shift(doc)
    where = f"{FMTS[fmt]} docstring of {doc['name']} (literal on lines {span[0]}-{span[1]})"

    vlines = doc["value"].split("\n")

    def crshift(first: Optional[int]) -> int:
        """lone carriage returns before the block that starts on line `first` (docutils breaks the line there)"""
        if fmt != "r" or first is None:
            return 0
        return sum(l.count("\r") - (1 if l.endswith("\r") else 0) for l in vlines[:first - span[0]])

    def ushift(first: Optional[int]) -> int:
        """extra str.splitlines() boundaries (docutils' line structure) before the block that starts on line `first`"""
        if fmt != "r" or first is None:
            return 0
        return crshift(first) + sum(l.count(c) for l in vlines[:first - span[0]] for c in "\x1c\x1d\x1e\x85\u2028\u2029")

    def signature(kind: str, delta: int, first: Optional[int] = None) -> str:
        # classifier only; the verdict (reported line != planted line) does not depend on it
        us = ushift(first)
        cr = crshift(first)
        if shift and delta == shift + (1 if (fmt == "r" and kind == "E") else 0):
            return "line:overindented-leading-blank"
        if cr and delta == shift + cr + (1 if (fmt == "r" and kind == "E") else 0):
            return "line:rst-lone-cr-line-boundary"
        if us and delta == shift + us + (1 if (fmt == "r" and kind == "E") else 0):
            return "line:rst-unicode-line-boundary"
        return "line:%s-%s:%+d" % (tag, {"E": "markup-error", "X": "xref", "U": "unknown-field", "P": "bad-param"}[kind], delta)

    for line, kind, name in uniq:
        if not line.isdigit():
            ctx.fail("line:unknown", {**inp, "object": doc["name"]}, f"{where}: report without a line ({kind} {name})")
            continue
        ln = int(line)
        if kind == "W":
            if ln in w_lines:
                continue
            if not w_lines:
                ctx.fail("unplanted:W", {**inp, "object": doc["name"], "reported": ln}, f"{where}: type warning on line {ln}, none planted")
                continue
            near = max([x for x in w_lines if x <= ln] or [min(w_lines)])
            sig = "line:overindented-leading-blank" if shift and ln - near == shift + 1 else "line:processtypes-type-warning:%+d" % (ln - near)
            ctx.fail(sig, {**inp, "object": doc["name"], "reported": ln, "expected": near, "problem": ["W", ""]},
                     f"{where}: the warning about the type field on line {near} (--process-types) is reported on line {ln}")
            continue
        if kind == "E":
            if ln in err_lines:
                continue
            if not err_lines:
                ctx.fail("unplanted:E", {**inp, "object": doc["name"], "reported": ln},
                         f"{where}: markup error reported on line {ln} but none was planted")
                continue
            near = max([x for x in err_lines if x <= ln] or [min(err_lines)])
            # adjacent planted errors: prefer the planted line that explains the report by a known displacement
            want = shift + (1 if fmt == "r" else 0)
            if want and (ln - want) in err_lines:
                near = ln - want
            if not (want and (ln - want) in err_lines):
                for cand in err_lines:      # else: a planted error line that explains the report through docutils' line structure
                    if ushift(cand) and ln - cand - shift - (1 if fmt == "r" else 0) in (ushift(cand), crshift(cand)):
                        near = cand
            ctx.fail(signature("E", ln - near, near), {**inp, "object": doc["name"], "reported": ln, "planted_error_lines": err_lines, "problem": ["E", ""]},
                     f"{where}: markup error in the block starting on line {near} is reported on line {ln}")
        elif kind in ("X", "P", "U"):
            t = byname.get((kind, name))
            if t is None:
                ctx.fail(f"unplanted:{kind}", {**inp, "object": doc["name"], "reported": [ln, kind, name]},
                         f"{where}: report of a problem that was not planted: {kind} {name} on line {ln}")
                continue
            first, own, pc = t
            if ln == first or (fmt == "r" and kind == "X" and ln == own):
                continue
            target = own if (fmt == "r" and kind == "X") else first
            if pc == "S" and ln == text_start and doc.get("owner") in ("module", "class"):
                ctx.fail("dup:rst-section-title-xref:toc-first-line",
                         {**inp, "object": doc["name"], "reported": ln, "expected": first, "problem": [kind, name]},
                         f"{where}: '{name}' in the section title on line {first} is reported a second time, on line {ln} (the docstring's first line), "
                         f"while the sidebar's table of contents is rendered")
                continue
            if pc == "S" and ln - first - 1 in (shift, shift + ushift(first), shift + crshift(first)):
                ctx.fail("line:rst-section-title-xref:underline" if ln - first - 1 == 0 else signature(kind, ln - first - 1, first),
                         {**inp, "object": doc["name"], "reported": ln, "expected": first, "problem": [kind, name]},
                         f"{where}: '{name}' in the section title on line {first} is reported on line {ln} (the title's underline)")
                continue
            if pc == "V" and first < ln <= span[1] + 1 + shift:
                ctx.fail("line:rst-version-directive-arg-xref:after-block",
                         {**inp, "object": doc["name"], "reported": ln, "expected": first, "problem": [kind, name]},
                         f"{where}: '{name}' in the argument of the version directive on line {first} is reported on line {ln}, after the directive's block")
                continue
            if pc == "T" and ln == text_start:      # offset 0: docstring_lineno itself
                ctx.fail("line:rst-consolidated-classifier-xref:docstring-first-line",
                         {**inp, "object": doc["name"], "reported": ln, "expected": target},
                         f"{where}: cross-reference '{name}' in the classifier of the definition-list entry on line {first} "
                         f"is reported on line {ln}, the first line of the docstring")
                continue
            ctx.fail(signature(kind, ln - target, first), {**inp, "object": doc["name"], "reported": ln, "expected": target, "problem": [kind, name]},
                     f"{where}: {kind} '{name}' planted in the block starting on line {first} is reported on line {ln}")
        else:
            ctx.fail("unplanted:other", {**inp, "object": doc["name"], "reported": [ln, kind, name]},
                     f"{where}: unexpected message {kind} {name} on line {ln}")


def oracle_exit(ctx: Ctx, inp, mod, res, entries, wae: bool) -> None:
    """with -W: 3 iff something was reported; without: 2 iff some docstring could not be parsed, else 0"""
    nreports = len(stdout_reports(res["stdout"]))
    # "could not be parsed" = pydoctor printed `bad docstring: …` (markup errors, and type expressions that do not parse)
    bad = any(k[0] in "EW" for _, k in stdout_reports(res["stdout"]))
    rc = res["rc"]
    counted_msgs = [e["msg"][:120] for e in res["log"] if e["t"] == "m" and e["counted"]]
    if wae:
        if (rc == 3) != (nreports > 0):
            ctx.fail("exit:W:%s-with-%s-reports" % (rc, "some" if nreports else "no"),
                     {**inp, "counted_messages": counted_msgs[:5], "stdout_tail": res["stdout"][-400:]},
                     f"--warnings-as-errors: exit status {rc} with {nreports} reported problems")
    else:
        want = 2 if bad else 0
        if rc != want:
            ctx.fail("exit:noW:%s-expected-%s" % (rc, want), inp,
                     f"exit status {rc}, expected {want} ({'some' if bad else 'no'} docstring could not be parsed)")
    # every reported problem is counted (printed lines <-> violations), from the run's own counters
    counted = sum(e["counted"] for e in res["log"] if e["t"] == "m" and "obj" in e)
    if counted != len(entries):
        ctx.fail("count:report-not-counted", inp, f"{len(entries)} reports but violations grew by {counted}")


# --------------------------------------------------------------------------- inherited docstrings

def gen_inherit_package(rng, fmt: str) -> Dict[str, Any]:
    """package p: base.py holds the documented method / attribute (problems planted), a subclass in the same
    module and Sub(Base), Sub2(Sub) in sub.py override them WITHOUT docstrings. sub.py contains no docstring."""
    names = Names()
    cells = layout_cells()
    lines: List[str] = ["# base" if rng.random() < 0.5 else ""] * rng.randint(0, 6)
    docs: List[Dict[str, Any]] = []

    def add_doc(owner: str, ind: int, fullname: str, inheritors: List[str]) -> None:
        layout = gen_layout(rng, rng.choice(cells))
        blocks = gen_blocks(rng, fmt, owner, names, layout["raw"], layout["opening"])
        if not any(b["constructs"] for b in blocks):      # always at least one problem
            nm = names.new()
            blocks[0]["lines"][0] = plant(rng, fmt, "X", nm, blocks[0]["lines"][0])
            blocks[0]["constructs"].append(("X", 0, nm))
        doc = {"fmt": fmt, "owner": owner, "layout": layout, "blocks": blocks, "name": fullname, "ind": ind,
               "inheritors": inheritors}
        src, value, starts = build_literal(doc, ind)
        doc["str_lineno"] = len(lines) + 1
        doc["value"] = value
        doc["starts"] = starts
        lines.extend(src)
        docs.append(doc)

    with_attr = rng.random() < 0.6
    same = rng.random() < 0.7
    lines.append("class Base:")
    lines.append("    def m(self, a, b=2):")
    add_doc("method", 8, "p.base.Base.m", (["p.base.Same.m"] if same else []) + ["p.sub.Sub.m", "p.sub.Sub2.m"])
    lines.append("        return b")
    if with_attr:
        lines.append("    v = 1")
        add_doc("attribute", 4, "p.base.Base.v", (["p.base.Same.v"] if same else []) + ["p.sub.Sub.v", "p.sub.Sub2.v"])
    if same:
        lines += [""] * rng.randint(0, 3) + ["class Same(Base):", "    def m(self, a, b=2):", "        return 0"]
        if with_attr:
            lines.append("    v = 3")
    sub = ["# nothing documented here"] * rng.randint(0, 25) + ["from p.base import Base", "class Sub(Base):"]
    sub += ["    def m(self, a, b=2):", "        return 1"] + (["    v = 2"] if with_attr else [])
    sub += [""] * rng.randint(0, 4) + ["class Sub2(Sub):", "    def m(self, a, b=2):", "        return 2"] + (["    v = 4"] if with_attr else [])
    files = {"__init__.py": "", "base.py": "\n".join(lines) + "\n", "sub.py": "\n".join(sub) + "\n"}
    return {"fmt": fmt, "files": files, "docs": docs}


FILE_IDS = {"p/base.py": 1, "p/sub.py": 2, "p/__init__.py": 3}


def inherited_jobs(ctx: Ctx):
    rng = ctx.rng
    n = 160 if ctx.quick else 1600
    # corpus first (shape seeded/C16-3 needs: a markup error in an inherited method docstring, other module), fixed generator
    import random
    fixed = random.Random("C16-corpus-inherit")
    corpus = []
    for fmt in "er":
        while True:
            p = gen_inherit_package(fixed, fmt)
            if any(c[0] == "E" for b in p["docs"][0]["blocks"] for c in b["constructs"]):
                corpus.append(p)
                break
    ctx.count("corpus:inherited-markup-error", len(corpus))
    pk = corpus + [gen_inherit_package(rng, "er"[i % 2]) for i in range(n)]
    jobs = []
    for p in pk:
        tree = ast.parse(p["files"]["base.py"])
        found = {nd.value.lineno: nd.value for nd in ast.walk(tree)
                 if isinstance(nd, ast.Expr) and isinstance(nd.value, ast.Constant) and isinstance(nd.value.value, str)}
        for d in p["docs"]:
            if d["str_lineno"] not in found or found[d["str_lineno"]].value != d["value"]:
                raise AssertionError("generator and CPython disagree about a literal")
        names = [x for d in p["docs"] for x in [d["name"]] + d["inheritors"]]
        jobs.append((p["files"], p["fmt"], rng.random() < 0.5, names))
    return pk, jobs


def stream_inherited(ctx: Ctx, pk, jobs, results) -> None:
    """a docstring shown by an overriding method / attribute that has none of its own: every report must stay in the
    file and on the line of the docstring at fault"""
    reqs, impls, pay = [], [], []
    for p, job, res in zip(pk, jobs, results):
        fmt = p["fmt"]
        inp = {"files": p["files"], "docformat": FMTS[fmt], "warnings_as_errors": job[2]}
        ctx.count("inherit:packages")
        if not isinstance(res["rc"], int):
            ctx.fail("run-aborted:" + str(res["rc"]).split(":")[0], inp, f"driver.main ended with {res['rc']}")
            continue
        entries = report_entries(res)
        # what the user sees must be what was logged
        seen = sorted(m.group(1, 2) for m in (re.match(r"^(p/\w+\.py):(\d+|\?\?\?): ", l) for l in res["stdout"].split("\n")) if m)
        if seen != sorted((e["path"], e["line"]) for e in entries):
            ctx.disagree("stdout-vs-log", inp, str(sorted((e["path"], e["line"]) for e in entries))[:300], str(seen)[:300])
        for doc in p["docs"]:
            family = [doc["name"]] + doc["inheritors"]
            missing = [x for x in family if x not in res["objs"]]
            if missing:
                ctx.disagree("object-missing", inp, str(missing), "not in system.allobjects")
                continue
            for x in doc["inheritors"]:
                if res["objs"][x]["doc"] is not None:
                    raise AssertionError("generated inheritor has a docstring of its own: " + x)
            mine = [e for e in entries if e["obj"] in family]
            sl = doc["str_lineno"]
            span = (sl, sl + doc["value"].count("\n"))
            nprob = sum(len(b["constructs"]) for b in doc["blocks"])
            ctx.case("inherit|%s|%s|%s|%d" % (fmt, doc["owner"], enc(doc["value"]), len(doc["inheritors"])), True,
                     {"docformat": FMTS[fmt], "inherited": doc["name"], "shown_by": doc["inheritors"], "files": p["files"]}
                     if ctx.dist.get("inherit:docstrings", 0) < 1 else None)
            ctx.count("inherit:docstrings")
            ctx.count("inherit:owner:" + doc["owner"])
            # ---- correspondence: set of (file, line, class) over the whole family
            inh = ",".join("%d.%d" % (FILE_IDS["p/" + x.split(".")[1] + ".py"], res["objs"][x]["ln"]) for x in doc["inheritors"])
            reqs.append("lineno inherit %s 1 %d %d %s %s %s" % (fmt, res["objs"][doc["name"]]["ln"], sl, enc(doc["value"]), inh or "-", cons_tokens(doc)))
            impls.append(" ".join(sorted({"%s:%s:%s" % (FILE_IDS.get(e["path"], 9), e["line"], e["kind"]) for e in mine})))
            pay.append({**inp, "object": doc["name"], "inheritors": doc["inheritors"]})
            # ---- direct oracle
            where = f"{FMTS[fmt]} docstring of {doc['name']} (p/base.py lines {span[0]}-{span[1]}), shown by {', '.join(doc['inheritors'])}"
            for e in mine:
                if e["path"] != "p/base.py":
                    ctx.fail("file:inherited-docstring:reported-in-other-file",
                             {**inp, "object": doc["name"], "reported_on": e["obj"], "message": e["msg"][:200]},
                             f"{where}: reported as {e['path']}:{e['line']} (on {e['obj']}) - that file contains no docstring: {e['descr'][:60]}")
                elif e["obj"] != doc["name"] and e["line"].isdigit() and not (span[0] <= int(e["line"]) <= span[1] + 1):
                    ctx.fail("line:inherited-docstring:outside-docstring",
                             {**inp, "object": doc["name"], "reported_on": e["obj"], "message": e["msg"][:200]},
                             f"{where}: reported on line {e['line']} (on {e['obj']}), outside the docstring: {e['descr'][:60]}")
            exp = expected_reports(doc, 0)
            inbase = [e for e in mine if e["path"] == "p/base.py"]
            uniq = sorted({(e["line"], e["kind"], e["name"]) for e in inbase})
            oracle_er(ctx, {**inp, "source": p["files"]["base.py"]}, fmt, doc, exp, uniq, span)
            # each planted problem is reported in the docstring's own file (epytext: a fatal markup error
            # makes pydoctor fall back to plain text, only the errors are reported then)
            fatal = fmt == "e" and any(c == "E" for c, _, _, _, _ in exp)
            got = {(k, nm) for _, k, nm in uniq}
            nerr = sum(1 for _, k, _ in uniq if k == "E")
            for cls, nm, first, own, _pc in exp:
                if cls == "E":
                    continue
                if not fatal and (cls, nm) not in got:
                    ctx.fail("inherited-docstring:planted-problem-not-reported-in-its-file:" + cls,
                             {**inp, "object": doc["name"], "planted": [cls, nm, first]},
                             f"{where}: {cls} '{nm}' planted on line {first} is not reported in p/base.py")
            if nerr < len({first for c, _, first, _, _ in exp if c == "E"}):
                ctx.fail("inherited-docstring:planted-problem-not-reported-in-its-file:E",
                         {**inp, "object": doc["name"]}, f"{where}: a planted markup error is not reported in p/base.py")
    compare(ctx, "inherited", reqs, impls, pay)


# --------------------------------------------------------------------------- re-exported (moved) objects

REEXPORT_FILES = {"p/_impl.py": 1, "p/__init__.py": 2, "p/sib.py": 3}


def gen_reexport_package(rng, fmt: str) -> Dict[str, Any]:
    """package p: everything is written in p/_impl.py (problems planted there); p/__init__.py and p/sib.py re-export
    some of the top-level names through __all__, plain or renamed, which makes pydoctor move the objects."""
    cells = layout_cells()
    plan = [(rng.choice(["class", "function", "method", "attribute"]), rng.choice(cells), 0) for _ in range(rng.randint(2, 5))]
    if rng.random() < 0.3:
        plan.insert(0, ("module", rng.choice(cells), 0))
    mod = gen_module(rng, fmt, plan)
    tops: List[str] = []
    for d in mod["docs"]:
        parts = d["name"].split(".")
        if len(parts) > 1 and parts[1] not in tops:
            tops.append(parts[1])
    dest: Dict[str, Tuple[str, str]] = {}       # top-level name -> (where, new name)
    init_imp, init_all, sib_imp, sib_all = [], [], [], []
    for t in tops:
        w = rng.choice(["init", "init", "init-as", "sib", "sib-as", "stay"])
        new = "R_" + t if w.endswith("-as") else t
        dest[t] = (w, new)
        imp = t if new == t else "%s as %s" % (t, new)
        if w.startswith("init"):
            init_imp.append(imp)
            init_all.append(new)
        elif w.startswith("sib"):
            sib_imp.append(imp)
            sib_all.append(new)
    for d in mod["docs"]:
        parts = d["name"].split(".")
        if len(parts) == 1:
            d["newname"], d["where"] = "p._impl", "stay"
            continue
        w, new = dest[parts[1]]
        prefix = {"init": "p", "sib": "p.sib", "stay": "p._impl"}[w.split("-")[0]]
        d["newname"] = ".".join([prefix, new] + parts[2:])
        d["where"] = w
    files = {
        "__init__.py": ("from ._impl import %s\n" % ", ".join(init_imp) if init_imp else "") + "__all__ = %r\n" % (init_all,),
        "sib.py": "# sibling module\n" + ("from p._impl import %s\n" % ", ".join(sib_imp) if sib_imp else "") + "__all__ = %r\n" % (sib_all,),
        "_impl.py": realise(mod, 0),
    }
    return {"fmt": fmt, "files": files, "docs": mod["docs"], "mod": mod}


def reexport_jobs(ctx: Ctx):
    rng = ctx.rng
    n = 120 if ctx.quick else 1200
    # corpus first (shape seeded/C16-r2-2 needs: problems in an object moved by __all__), fixed generator
    import random
    fixed = random.Random("C16-corpus-reexport")
    corpus = []
    for fmt in "er":
        while True:
            p = gen_reexport_package(fixed, fmt)
            moved = [d for d in p["docs"] if d["where"] != "stay" and any(b["constructs"] for b in d["blocks"])]
            if {d["where"].split("-")[0] for d in moved} == {"init", "sib"}:
                corpus.append(p)
                break
    ctx.count("corpus:reexported-with-problems", len(corpus))
    pk = corpus + [gen_reexport_package(rng, "er"[i % 2]) for i in range(n)]
    jobs = []
    for p in pk:
        check_against_ast(ctx, p["mod"], p["files"]["_impl.py"], 0)
        jobs.append((p["files"], p["fmt"], rng.random() < 0.5, [d["newname"] for d in p["docs"]]))
    return pk, jobs


def stream_reexported(ctx: Ctx, pk, jobs, results) -> None:
    """objects moved by an __all__ re-export: every report still names the file the docstring is written in"""
    reqs, impls, pay = [], [], []
    for p, job, res in zip(pk, jobs, results):
        fmt = p["fmt"]
        inp = {"files": p["files"], "docformat": FMTS[fmt], "warnings_as_errors": job[2], "docstring_file": "p/_impl.py"}
        ctx.count("reexport:packages")
        if not isinstance(res["rc"], int):
            ctx.fail("run-aborted:" + str(res["rc"]).split(":")[0], inp, f"driver.main ended with {res['rc']}")
            continue
        entries = report_entries(res)
        seen = sorted(m.group(1, 2) for m in (re.match(r"^(p/\w+\.py):(\d+|\?\?\?): ", l) for l in res["stdout"].split("\n")) if m)
        if seen != sorted((e["path"], e["line"]) for e in entries):
            ctx.disagree("stdout-vs-log", inp, str(sorted((e["path"], e["line"]) for e in entries))[:300], str(seen)[:300])
        # a class docstring is parsed while its module is built, i.e. before the move: such reports are logged
        # under the name the object had then (same object, same file)
        for d in p["docs"]:
            d["oldname"] = "p._impl" + d["name"][1:]
        known = {d["newname"] for d in p["docs"]} | {d["oldname"] for d in p["docs"]}
        for e in entries:
            if e["obj"] not in known:
                ctx.fail("unexpected-object:" + e["kind"], {**inp, "message": e["msg"][:200]}, "report on an object without planted docstring: " + e["msg"][:80])
        for doc in p["docs"]:
            o = res["objs"].get(doc["newname"])
            if o is None:
                ctx.disagree("object-missing", inp, doc["newname"], "not in system.allobjects")
                continue
            sl = doc["str_lineno"]
            span = (sl, sl + doc["value"].count("\n"))
            mine = [e for e in entries if e["obj"] in (doc["newname"], doc["oldname"])]
            ctx.case("reexport|%s|%s|%s|%s" % (fmt, doc["owner"], doc["where"], enc(doc["value"])), True,
                     {"docformat": FMTS[fmt], "object": doc["newname"], "written_as": doc["name"].replace("m", "p._impl", 1), "files": p["files"]}
                     if doc["where"] != "stay" and ctx.dist.get("reexport:moved", 0) < 1 else None)
            ctx.count("reexport:" + doc["where"])
            if doc["where"] != "stay":
                ctx.count("reexport:moved")
            cur = {"init": 2, "sib": 3, "stay": 1}[doc["where"].split("-")[0]]
            reqs.append("lineno moved %s 1 %d %d %d %s %s" % (fmt, cur, o["ln"], sl, enc(doc["value"]), cons_tokens(doc)))
            impls.append(" ".join(sorted({"%s:%s:%s" % (REEXPORT_FILES.get(e["path"], 9), e["line"], e["kind"]) for e in mine})))
            pay.append({**inp, "object": doc["newname"]})
            where = f"{FMTS[fmt]} docstring of {doc['newname']} written in p/_impl.py lines {span[0]}-{span[1]} ({doc['where']} re-export)"
            for e in mine:
                if e["path"] != "p/_impl.py":
                    ctx.fail("file:reexported-object:reported-in-other-file",
                             {**inp, "object": doc["newname"], "message": e["msg"][:200]},
                             f"{where}: reported as {e['path']}:{e['line']}, not the file that contains it: {e['descr'][:60]}")
            uniq = sorted({(e["line"], e["kind"], e["name"]) for e in mine if e["path"] == "p/_impl.py"})
            oracle_er(ctx, {**inp, "source": p["files"]["_impl.py"]}, fmt, {**doc, "name": doc["newname"]}, expected_reports(doc, 0), uniq, span)
    compare(ctx, "reexported", reqs, impls, pay)


# --------------------------------------------------------------------------- small exhaustive API streams

def stream_tables(ctx: Ctx) -> None:
    """str.isspace table of the model against CPython for every code point"""
    reqs, impls = [], []
    step = 0x800
    for lo in range(0, 0x110000, step):
        hi = lo + step
        reqs.append("lineno isspace %d %d" % (lo, hi))
        sp = [n for n in range(lo, hi) if not (0xD800 <= n <= 0xDFFF) and chr(n).isspace()]
        impls.append(",".join(map(str, sp)) or "-")
    compare(ctx, "isspace-table", reqs, impls)
    # cleandoc / extract_docstring_linenum on hostile literals (tabs, CR, FF, unicode spaces, blank-only)
    from pydoctor import astutils
    alphabet = [" ", " ", "\t", "\n", "\n", "a", "b", "\r", "\x0c", " ", " ", "\\"]
    reqs, impls, pay = [], [], []
    n = 1500 if ctx.quick else 40000
    for _ in range(n):
        s = "".join(ctx.rng.choice(alphabet) for _ in range(ctx.rng.randint(0, 14)))
        ln = ctx.rng.randint(1, 50)
        node = ast.Constant(value=s)
        node.lineno = ln
        try:
            dl, doc = astutils.extract_docstring(node)
            impls.append("dl=%d clean=%s" % (dl, enc(doc)))
        except Exception as e:
            impls.append(type(e).__name__)
        reqs.append("lineno literal %d %s" % (ln, enc(s)))
        pay.append({"string_lineno": ln, "value": s})
        ctx.count("literal-fuzz")
    compare(ctx, "literal-fuzz", reqs, impls, pay)


def stream_report_api(ctx: Ctx) -> None:
    """Documentable.report driven directly over small values (covers the '???' and module branches)"""
    from pydoctor import model
    reqs, impls, pay = [], [], []
    system = model.System()
    system.options.verbosity = 0
    builder = system.systemBuilder(system)
    builder.addModuleString("class PC:\n    pass\n", modname="pm")
    builder.buildModules()
    mod = system.allobjects["pm"]
    cls = system.allobjects["pm.PC"]
    for obj, ismod in ((mod, 1), (cls, 0)):
        for dl in (0, 1, 5):
            for ln in (0, 3):
                for sec, s in (("docstring", "d"), ("resolve_identifier_xref", "x"), ("parsing", "o")):
                    for off in (0, 1, 4):
                        obj.docstring_lineno = dl
                        obj.linenumber = ln
                        buf = io.StringIO()
                        with contextlib.redirect_stdout(buf):
                            obj.report("probe", section=sec, lineno_offset=off)
                        m = MSG_RE.match(buf.getvalue().strip())
                        reqs.append("lineno report %d %d %d %s %d" % (ismod, dl, ln, s, off))
                        impls.append(m.group("line") if m else "no-output")
                        pay.append({"is_module": ismod, "docstring_lineno": dl, "linenumber": ln, "section": sec, "offset": off})
    compare(ctx, "report-api", reqs, impls, pay)
    ctx.count("report-api", len(reqs))


def stream_sys_api(ctx: Ctx) -> None:
    """System.msg sequences and the tail of driver.main over small system states"""
    from pydoctor import model, driver
    reqs, impls, pay = [], [], []
    # (a) msg sequences
    n = 300 if ctx.quick else 5000
    for _ in range(n):
        system = model.System()
        verb = ctx.rng.choice([-2, -1, 0, 1, 2])
        system.options.verbosity = verb
        ops = []
        printed = 0
        for _ in range(ctx.rng.randint(0, 8)):
            sec, msg = ctx.rng.randint(1, 2), ctx.rng.randint(1, 3)
            th, top, once = ctx.rng.choice([-2, -1, 0, 1]), ctx.rng.choice([100, 1, 0]), ctx.rng.random() < 0.4
            buf = io.StringIO()
            with contextlib.redirect_stdout(buf):
                system.msg("s%d" % sec, "m%d" % msg, thresh=th, topthresh=top, once=once)
            printed += 1 if buf.getvalue() else 0
            ops.append("m:%d:%d:%d:%d:%d" % (sec, msg, th, top, once))
        reqs.append("lineno sys 0 %d %s" % (verb, " ".join(ops)))
        impls.append("status=0 violations=%d printed=%d pe=0" % (system.violations, printed))
        pay.append({"verbosity": verb, "ops": ops})
    # (b) main's tail on prepared systems (get_system / make replaced from the outside)
    o_gs, o_make = driver.get_system, driver.make
    try:
        for wae in (False, True):
            for viol in (0, 1, 3):
                for pe in ([], [("k", 0)], [("p", 0, 1)], [("p", 0, 1), ("p", 0, 2)], [("p", 7, 1)], [("k", 0), ("p", 7, 1)], [("k", 7)],
                           [("p", 0, 1), ("p", 7, 2)]):
                    system = model.System()
                    system.options.verbosity = 0
                    system.violations = viol
                    ops = ["v:%d" % viol]
                    for t in pe:
                        key = "docstring" if t[1] == 0 else "sec%d" % t[1]
                        if t[0] == "k":
                            system.parse_errors[key]
                            ops.append("k:%d" % t[1])
                        else:
                            system.parse_errors[key].add("o%d" % t[2])
                            ops.append("p:%d:%d" % (t[1], t[2]))
                    driver.get_system = lambda options, s=system: s
                    driver.make = lambda s: None
                    buf = io.StringIO()
                    with contextlib.redirect_stdout(buf):
                        rc = driver.main((["-W"] if wae else []) + ["/nonexistent-c16"])
                    printed = len([l for l in buf.getvalue().split("\n") if l])
                    reqs.append("lineno sys %d 0 %s" % (wae, " ".join(ops)))
                    impls.append("status=%d violations=%d printed=%d pe=%d" % (rc, system.violations, printed,
                                                                                  int(any(t[0] == "p" for t in pe))))
                    pay.append({"warnings_as_errors": wae, "violations": viol, "parse_errors": pe})
                    # direct oracle on the tail itself (the property's two equivalences)
                    anype = any(t[0] == "p" for t in pe)
                    want = 3 if (wae and (viol > 0 or any(t[0] == "p" and t[1] == 0 for t in pe))) else 2 if anype else 0
                    if rc != want:
                        ctx.fail("exit:tail:%d-expected-%d" % (rc, want), pay[-1], f"main returned {rc}, expected {want}")
        # (c) the real reportErrors driven directly: once per (section, object, phase), the name goes to parse_errors
        from pydoctor import epydoc2stan
        from pydoctor.epydoc.markup import ParseError
        for t in range(60 if ctx.quick else 600):
            system = model.System()
            system.options.verbosity = 0
            builder = system.systemBuilder(system)
            builder.addModuleString("class PC:\n    pass\nclass PD:\n    pass\n", modname="pm")
            builder.buildModules()
            objs = [system.allobjects["pm"], system.allobjects["pm.PC"], system.allobjects["pm.PD"]]
            ops = []
            wae = ctx.rng.random() < 0.5
            buf = io.StringIO()
            with contextlib.redirect_stdout(buf):
                for _ in range(ctx.rng.randint(1, 6)):
                    oi, sec, ph, n = ctx.rng.randrange(3), ctx.rng.choice([0, 0, 5]), ctx.rng.randrange(2), ctx.rng.choice([0, 1, 2])
                    epydoc2stan.reportErrors(objs[oi], [ParseError("e%d" % k, k) for k in range(n)],
                                             section="docstring" if sec == 0 else "sec5", phase="parsing" if ph == 0 else "rendering")
                    ops.append("r:%d:%d:%d:%d:%d" % (sec, oi + 1, n, ph, oi + 1))
                driver.get_system = lambda options, s=system: s
                driver.make = lambda s: None
                rc = driver.main((["-W"] if wae else []) + ["/nonexistent-c16"])
            printed = len([l for l in buf.getvalue().split("\n") if l])
            reqs.append("lineno sys %d 0 %s" % (wae, " ".join(ops)))
            impls.append("status=%d violations=%d printed=%d pe=%d" % (rc, system.violations, printed, int(any(system.parse_errors.values()))))
            pay.append({"warnings_as_errors": wae, "reportErrors": ops})
    finally:
        driver.get_system, driver.make = o_gs, o_make
    compare(ctx, "sys-api", reqs, impls, pay)
    ctx.count("sys-api", len(reqs))


# --------------------------------------------------------------------------- round 3: attribute documented twice; continuation lines end to end

def gen_attr_module(rng, fmt: str) -> Dict[str, Any]:
    """a class whose attributes are documented by @ivar fields of the class docstring, by their own docstring, or both"""
    X = " L{%s}" if fmt == "e" else " `%s`"
    iv = "@ivar %s:" if fmt == "e" else ":ivar %s:"
    n = [0]

    def name():
        n[0] += 1
        return "zq%d" % n[0]
    lines = ["# attr"] * rng.randint(0, 4) + ["class C:"]
    attrs = []
    for k in range(3):
        field, own = rng.choice([(True, False), (False, True), (True, True), (True, True)])
        attrs.append({"name": "a%d" % k, "field": field, "own": own, "inst": rng.random() < 0.5})
    csl = len(lines) + 1
    doc = ['    ' + '"' * 3, "    Class doc."] + ["    More text."] * rng.randint(0, 2) + [""]
    for a in attrs:
        if a["field"]:
            a["fname"] = name()
            a["fraw"] = len(doc)
            doc.append("    " + iv % a["name"] + " from the class" + X % a["fname"])
            if rng.random() < 0.3:
                doc.append("        continued.")
    doc.append('    ' + '"' * 3)
    lines += doc
    body_inst = []
    for a in attrs:
        tgt = lines if not a["inst"] else body_inst
        ind = "    " if not a["inst"] else "        "
        tgt += [ind + "# c"] * rng.randint(0, 2)
        tgt.append(ind + ("%s = 1" % a["name"] if not a["inst"] else "self.%s = 1" % a["name"]))
        if a["own"]:
            a["oname"] = name()
            own = [ind + '"' * 3, ind + "Own doc."] + ([""] if rng.random() < 0.5 else []) + [ind + "Own text" + X % a["oname"], ind + '"' * 3]
            a["_own"] = (tgt, len(tgt), own)
            tgt += own
    if body_inst:
        base = len(lines) + 1
        lines.append("    def __init__(self):")
        lines += body_inst
    # physical positions
    for a in attrs:
        if a["own"]:
            tgt, at, own = a["_own"]
            start = (at if tgt is lines else len(lines) - len(body_inst) + at) + 1
            a["osl"] = start
            a["oraw"] = next(i for i, l in enumerate(own) if a["oname"] in l)
            # first line of the paragraph holding the reference (epytext reports that one)
            a["opara"] = a["oraw"] if own[a["oraw"] - 1].strip() == "" else a["oraw"] - 1
            del a["_own"]
    return {"fmt": fmt, "source": "\n".join(lines) + "\n", "csl": csl, "attrs": attrs}


def gen_continuation_module(rng, fmt: str) -> Dict[str, Any]:
    """docstrings with backslash-newline and \\n escapes before the planted cross-reference: outside the property's
    quantifier (pydoctor documents the approximation); the model must still predict the line, and the divergence from
    the physical line must be exactly (continuations - escapes) before it"""
    X = " L{%s}" if fmt == "e" else " `%s`"
    lines, docs = [], []
    for k in range(rng.randint(1, 3)):
        lines += [""] * rng.randint(0, 2) + ["def f%d(a):" % k]
        sl = len(lines) + 1
        conts = escs = 0
        first = '    ' + '"' * 3 + "Intro words"
        body = [first]
        for _ in range(rng.randint(1, 4)):
            joint = rng.choice(["nl", "cont", "cont", "esc+cont"])
            if joint == "cont":
                body[-1] += " \\"
                conts += 1
            elif joint == "esc+cont":
                body[-1] += "\\n\\"
                conts += 1
                escs += 1
            body.append("    more words")
        nm = "zq%d" % k
        body += ["", "    Text" + X % nm + ".", '    ' + '"' * 3]
        xline = len(lines) + len(body) - 1
        lines += body + ["    return a"]
        docs.append({"name": "m.f%d" % k, "sl": sl, "xref": nm, "phys": xline, "conts": conts, "escs": escs})
    return {"fmt": fmt, "source": "\n".join(lines) + "\n", "docs": docs}


def gen_docassign_module(rng, fmt: str) -> Dict[str, Any]:
    """functions / classes, with or without a docstring literal of their own, whose documentation is then given by
    `name.__doc__ = <literal>`; problems are planted in the assigned literal"""
    names = Names()
    cells = layout_cells()
    lines: List[str] = ["# docassign"] * rng.randint(0, 3)
    targets = []
    for k in range(rng.randint(1, 3)):
        kind = rng.choice(["function", "class"])
        had = rng.random() < 0.5
        lines += [""] * rng.randint(0, 2)
        lines.append("def t%d(a):" % k if kind == "function" else "class T%d:" % k)
        if had:
            lines += ['    ' + '"' * 3, "    Old documentation.", '    ' + '"' * 3]
        lines.append("    return a" if kind == "function" else "    x = 1")
        targets.append({"name": ("t%d" if kind == "function" else "T%d") % k, "owner": kind, "had": had})
    docs = []
    for t in targets:
        lines += [""] * rng.randint(0, 3)
        layout = gen_layout(rng, rng.choice(cells))
        # (a class docstring assigned afterwards is not split into attribute fields: no @ivar-like entries, no parameters)
        blocks = gen_blocks(rng, fmt, "function" if t["owner"] == "function" else "attribute", names, layout["raw"], layout["opening"])
        if not any(b["constructs"] for b in blocks):
            nm = names.new()
            blocks[0]["lines"][0] = plant(rng, fmt, "X", nm, blocks[0]["lines"][0])
            blocks[0]["constructs"].append(("X", 0, nm))
        doc = {"fmt": fmt, "owner": t["owner"], "layout": layout, "blocks": blocks, "name": "m." + t["name"], "ind": 0, "had": t["had"]}
        src, value, starts = build_literal(doc, 0)
        src[0] = "%s.__doc__ = %s" % (t["name"], src[0])
        doc["str_lineno"], doc["value"], doc["starts"] = len(lines) + 1, value, starts
        lines += src
        docs.append(doc)
    return {"fmt": fmt, "source": "\n".join(lines) + "\n", "docs": docs}


def stream_docassign(ctx: Ctx, dm, results) -> None:
    reqs, impls, pay = [], [], []
    for m, res in zip(dm, results):
        fmt = m["fmt"]
        inp = {"source": m["source"], "docformat": FMTS[fmt], "warnings_as_errors": False}
        if not isinstance(res["rc"], int):
            ctx.fail("run-aborted:docassign", inp, f"driver.main ended with {res['rc']}")
            continue
        tree = ast.parse(m["source"])
        vals = {nd.value.lineno: nd.value.value for nd in ast.walk(tree) if isinstance(nd, ast.Assign) and isinstance(nd.value, ast.Constant)}
        entries = report_entries(res)
        for doc in m["docs"]:
            o = res["objs"].get(doc["name"])
            if o is None or vals.get(doc["str_lineno"]) != doc["value"]:
                ctx.disagree("doc-assignment", inp, doc["name"], "object missing or literal differs from CPython's")
                continue
            mine = sorted({(e["line"], e["kind"], e["name"]) for e in entries if e["obj"] == doc["name"]})
            ctx.count("doc-assignment:" + ("replaces-a-docstring" if doc["had"] else "no-docstring-before"))
            ctx.case("docassign|%s|%s|%s" % (fmt, doc["had"], enc(doc["value"])), True, None)
            reqs.append("lineno docassign %s %d %d %d %s %s" % (fmt, o["dl"], o["ln"], doc["str_lineno"], enc(doc["value"]), cons_tokens(doc)))
            impls.append(" ".join(sorted({"%s:%s" % (l, k) for l, k, _ in mine})))
            pay.append({**inp, "object": doc["name"]})
            # direct oracle: a line of the assigned literal - far outside it is the (fixed) keeps-old-lineno defect,
            # everything else is judged like any other docstring
            exp = expected_reports(doc, 0)
            sl = doc["str_lineno"]
            last = sl + doc["value"].count("\n")
            slack = expected_shift(doc) + 1          # the open findings (over-indented leading blank, rst markup error) move a line down
            inside = []
            for line, kind, name in mine:
                if line.isdigit() and not (sl <= int(line) <= last + slack):
                    ctx.fail("line:doc-assignment:keeps-old-lineno",
                             {**inp, "object": doc["name"], "reported": int(line), "problem": [kind, name], "assigned_literal_lines": [sl, last]},
                             f"{FMTS[fmt]}: {kind} '{name}' written in the text assigned to {doc['name']}.__doc__ (lines {sl}-{last}) is reported on line {line}")
                else:
                    inside.append((line, kind, name))
            oracle_er(ctx, inp, fmt, doc, exp, inside, (sl, last))
    compare(ctx, "doc-assignment", reqs, impls, pay)


def special_jobs(ctx: Ctx):
    rng = ctx.rng
    import random
    fixed = random.Random("C16-corpus-special")
    am = [gen_attr_module(fixed, "er"[i % 2]) for i in range(6)] + [gen_attr_module(rng, "er"[i % 2]) for i in range(50 if ctx.quick else 500)]
    cm = [gen_continuation_module(fixed, "er"[i % 2]) for i in range(4)] + [gen_continuation_module(rng, "er"[i % 2]) for i in range(30 if ctx.quick else 300)]
    dm = [gen_docassign_module(fixed, "er"[i % 2]) for i in range(4)] + [gen_docassign_module(rng, "er"[i % 2]) for i in range(30 if ctx.quick else 300)]
    jobs = [(m["source"], m["fmt"], False, ["m.C.%s" % a["name"] for a in m["attrs"]] + ["m.C"]) for m in am]
    jobs += [(m["source"], m["fmt"], False, [d["name"] for d in m["docs"]]) for m in cm]
    jobs += [(m["source"], m["fmt"], False, [d["name"] for d in m["docs"]]) for m in dm]
    return am, cm + dm, jobs


def stream_special(ctx: Ctx, am, cm, results) -> None:
    areq, aimp, apay = [], [], []
    for m, res in zip(am, results[:len(am)]):
        inp = {"source": m["source"], "docformat": FMTS[m["fmt"]], "warnings_as_errors": False}
        if not isinstance(res["rc"], int) or "m.C" not in res["objs"]:
            ctx.fail("run-aborted:attr", inp, f"driver.main ended with {res['rc']}")
            continue
        cdl = res["objs"]["m.C"]["dl"]
        rep = {e["name"]: e for e in report_entries(res) if e["kind"] == "X"}
        for a in m["attrs"]:
            case = ("field+own" if a["field"] and a["own"] else "field" if a["field"] else "own")
            ctx.count("attr-both:" + case)
            ctx.case("attr|%s|%s|%s" % (m["fmt"], case, enc(m["source"])), True, None)
            o = res["objs"].get("m.C." + a["name"])
            if o is None:
                ctx.disagree("object-missing", inp, a["name"], "missing")
                continue
            ops = (["f:%d" % (a["fraw"] - 1)] if a["field"] else []) + (["d:%d" % (a["osl"] + 1)] if a["own"] else [])
            rendered = "field" if (a["field"] and a.get("fname") in rep) else "own" if (a["own"] and a.get("oname") in rep) else "none"
            shown = a.get("fname") if rendered == "field" else a.get("oname")
            okey = "opara" if m["fmt"] == "e" else "oraw"
            off = (a["fraw"] - 1) if a["field"] else (a[okey] - 1)
            areq.append("lineno attr %d %d %s" % (cdl, off, " ".join(ops)))
            aimp.append("renders=%s line=%s dl=%d" % (rendered, rep[shown]["line"] if rendered != "none" else "-", o["dl"]))
            apay.append({**inp, "attribute": a})
            # direct oracle: a reported name must be on the line where it is written, in the docstring it is written in
            for nm, where_line, what in ((a.get("fname"), m["csl"] + a.get("fraw", 0), "the @ivar field of the class docstring"),
                                         (a.get("oname"), a.get("osl", 0) + a.get("opara" if m["fmt"] == "e" else "oraw", 0), "its own docstring")):
                if nm and nm in rep and int(rep[nm]["line"]) != where_line:
                    sig = "line:attr-field-and-inline-docstring" if case == "field+own" else "line:attr-%s:%+d" % (case, int(rep[nm]["line"]) - where_line)
                    ctx.fail(sig, {**inp, "object": "m.C." + a["name"], "reported": int(rep[nm]["line"]), "expected": where_line, "problem": ["X", nm]},
                             f"{FMTS[m['fmt']]}: '{nm}' written on line {where_line} in {what} of m.C.{a['name']} is reported on line {rep[nm]['line']}")
    compare(ctx, "attr-both", areq, aimp, apay)
    creq, cimp, cpay = [], [], []
    dm = [m for m in cm if "docs" in m and m["docs"] and "had" in m["docs"][0]]
    cm = [m for m in cm if m not in dm]
    stream_docassign(ctx, dm, results[len(am) + len(cm):])
    for m, res in zip(cm, results[len(am):len(am) + len(cm)]):
        inp = {"source": m["source"], "docformat": FMTS[m["fmt"]], "warnings_as_errors": False}
        if not isinstance(res["rc"], int):
            ctx.fail("run-aborted:continuation", inp, f"driver.main ended with {res['rc']}")
            continue
        tree = ast.parse(m["source"])
        vals = {nd.value.lineno: nd.value.value for nd in ast.walk(tree)
                if isinstance(nd, ast.Expr) and isinstance(nd.value, ast.Constant) and isinstance(nd.value.value, str)}
        rep = {e["name"]: e for e in report_entries(res) if e["kind"] == "X"}
        for d in m["docs"]:
            o = res["objs"].get(d["name"])
            if o is None or d["xref"] not in rep:
                ctx.disagree("continuation-e2e", inp, d["name"], "object or report missing")
                continue
            value = vals[d["sl"]]
            raw = value[:value.index(d["xref"])].count("\n")
            creq.append("lineno doc %s 0 %d %d %s X:%d:0" % (m["fmt"], o["ln"], d["sl"], enc(value), raw))
            ncl = len(o["doc"].split("\n")) if o["doc"] else 0
            cimp.append("dl=%d n=%d | %s:X" % (o["dl"], ncl, rep[d["xref"]]["line"]))
            cpay.append({**inp, "object": d["name"]})
            div = d["phys"] - int(rep[d["xref"]]["line"])
            ctx.count("continuation-e2e:physical-minus-reported=%+d" % div)
            ctx.case("cont|%s|%s" % (m["fmt"], enc(value)), True, None)
            if div != d["conts"] - d["escs"]:        # theorem literal_line_divergence, observed on the real run
                ctx.disagree("continuation-e2e", {**inp, "object": d["name"]}, "physical - reported = %d" % (d["conts"] - d["escs"]), "physical - reported = %d" % div)
    compare(ctx, "continuation-e2e", creq, cimp, cpay)


# --------------------------------------------------------------------------- round 3: in-process streams

NL, CONT, ESC = 1114112, 1114113, 1114114


def render_pieces(pieces: List[Any], style: str, ind: int) -> Tuple[str, int]:
    """source text of `x = 0` + the literal as an expression statement; returns (source, line of the literal).
    style 'bs': one triple-quoted literal with backslash-newline; 'concat': the literal is closed and re-opened on the
    next line (implicit concatenation inside parentheses)"""
    q = '"' * 3
    body = []
    for p in pieces:
        if p == NL:
            body.append("\n")
        elif p == CONT:
            body.append("\\\n" if style == "bs" else q + "\n" + " " * (ind + 1) + q)
        elif p == ESC:
            body.append("\\n")
        else:
            body.append(p)
    pre = " " * ind
    if style == "bs":
        return "if 1:\n" + pre + "x = 0\n" + pre + q + "".join(body) + q + "\n", 3
    return "if 1:\n" + pre + "x = 0\n" + pre + "(" + q + "".join(body) + q + ")\n", 3


def stream_literal_source(ctx: Ctx) -> None:
    """string literals as written (continuation lines, \\n escapes, implicit concatenation): value and line mapping
    against CPython's parser, docstring_lineno against the real extract_docstring_linenum"""
    from pydoctor import astutils
    rng = ctx.rng
    reqs, impls, pay = [], [], []
    corpus = [["a", CONT, "b", NL, "X"], [NL, " ", " ", "X", ESC, "Y", CONT, NL, "Z"], ["X"], [" ", CONT, NL, " ", "X"],
              [ESC, ESC, "X", NL, CONT, "Y"]]
    n = 400 if ctx.quick else 8000
    for t in range(n):
        if t < len(corpus):
            pieces = list(corpus[t])
        else:
            pieces = [rng.choice(["a", " ", " ", NL, NL, CONT, ESC, "b"]) for _ in range(rng.randint(0, 12))]
            for mk in "XYZ"[:rng.randint(1, 3)]:
                pieces.insert(rng.randint(0, len(pieces)), mk)
        # a literal may not end in a quote or backslash; pieces here never do. 'concat' needs every part non-problematic.
        style = "bs" if t % 2 == 0 else "concat"
        ind = rng.choice([4, 8])
        src, sl = render_pieces(pieces, style, ind)
        tree = ast.parse(src)
        node = [nd.value for nd in ast.walk(tree) if isinstance(nd, ast.Expr) and isinstance(nd.value, ast.Constant) and isinstance(nd.value.value, str)][0]
        marks, impl_marks = [], []
        text_before = src.split('"' * 3, 1)[0]
        for k, p in enumerate(pieces):
            if p in ("X", "Y", "Z"):
                marks.append(k)
                pos = src.index(p, len(text_before))
                phys = src[:pos].count("\n") + 1
                impl_marks.append("%d:%d" % (phys, node.value[:node.value.index(p)].count("\n")))
        reqs.append("lineno src %d p:%s %s" % (sl, ".".join(str(ord(p)) if isinstance(p, str) else str(p) for p in pieces), ",".join(map(str, marks))))
        impls.append("value=%s dl=%d end=%d marks=%s" % (enc(node.value), astutils.extract_docstring_linenum(node), node.end_lineno, ",".join(impl_marks)))
        pay.append({"source": src, "pieces": [p if isinstance(p, str) else {NL: "<nl>", CONT: "<cont>", ESC: "<\\n>"}[p] for p in pieces]})
        if node.lineno != sl:
            ctx.disagree("literal-source", pay[-1], "lineno %d" % sl, "lineno %d" % node.lineno)
        ctx.count("literal-source:" + style)
        if CONT in pieces or ESC in pieces:
            ctx.count("literal-source:with-continuation-or-escape")
    compare(ctx, "literal-source", reqs, impls, pay)


def stream_get_lineno_api(ctx: Ctx) -> None:
    """epydoc.docutils.get_lineno on hand-built docutils node chains (lines None / 0 / k, rawsources with and without
    the reference's text, repeated occurrences)"""
    from docutils import nodes
    from pydoctor.epydoc.docutils import get_lineno
    rng = ctx.rng
    reqs, impls, pay = [], [], []

    def rs(maxlen):
        return "".join(rng.choice("ab\n\n ") for _ in range(rng.randint(0, maxlen)))
    n = 400 if ctx.quick else 6000
    for t in range(n):
        depth = rng.randint(0, 3)
        leaf_raw = rng.choice(["", "a", "b", "ab", "a\nb"])
        leaf_line = rng.choice([None, None, 0, 2, 5])
        chain = [(rng.choice([None, None, 0, 1, 4, 9]), rng.choice([rs(8), rs(8) + leaf_raw + rs(4), ""])) for _ in range(depth)]
        leaf = nodes.title_reference(leaf_raw, "t")
        if leaf_line is not None:
            leaf.line = leaf_line
        child = leaf
        for line, raw in chain:          # chain[0] is the direct parent
            par = nodes.paragraph(raw, "")
            if line is not None:
                par.line = line
            par.append(child)
            child = par
        try:
            out = str(get_lineno(leaf))
        except Exception as e:
            out = type(e).__name__
        toks = " ".join("%s %s" % ("N" if l is None else l, enc(r)) for l, r in chain)
        reqs.append("lineno getlineno %s %s %s" % ("N" if leaf_line is None else leaf_line, enc(leaf_raw), toks))
        impls.append(out)
        pay.append({"leaf": [leaf_line, leaf_raw], "ancestors": chain})
        ctx.count("get-lineno-api:depth%d" % depth)
    compare(ctx, "get-lineno-api", reqs, impls, pay)


def stream_napoleon_map(ctx: Ctx) -> None:
    """napoleon's rewriting of a parameter section: line of every `:param` / `:type` in the converted text, and the line
    the entry is written on, against the model's closed form"""
    from pydoctor.napoleon.docstring import GoogleDocstring, NumpyDocstring
    rng = ctx.rng
    reqs, impls, pay = [], [], []
    n = 300 if ctx.quick else 5000
    for t in range(n):
        numpy = t % 2 == 1
        pre = ["Summary line."] + ([""] + ["More text %d." % i for i in range(rng.randint(1, 3))] if rng.random() < 0.6 else [])
        es = [(rng.random() < 0.5, rng.randint(1 if numpy else 0, 2)) for _ in range(rng.randint(1, 5))]
        lines = pre + [""]
        hdr = len(lines)
        inl = []
        if numpy:
            lines += ["Parameters", "----------"]
            for k, (typed, extra) in enumerate(es):
                inl.append(len(lines))
                lines.append("p%d%s" % (k, " : int" if typed else ""))
                lines += ["    desc %d %d" % (k, j) for j in range(extra)]
        else:
            lines += ["Args:"]
            for k, (typed, extra) in enumerate(es):
                inl.append(len(lines))
                lines.append("    p%d%s: desc %d" % (k, " (int)" if typed else "", k))
                lines += ["        cont %d %d" % (k, j) for j in range(extra)]
        text = "\n".join(lines)
        out = str((NumpyDocstring if numpy else GoogleDocstring)(text)).split("\n")
        par = [next((i for i, l in enumerate(out) if l.startswith(":param p%d:" % k)), -1) for k in range(len(es))]
        typ = [next((i for i, l in enumerate(out) if l.startswith(":type p%d:" % k)), -1) for k, e in enumerate(es) if e[0]]
        reqs.append("lineno napoleon %s %d %s" % ("n" if numpy else "g", hdr, ",".join(("t" if ty else "u") + str(ex) for ty, ex in es)))
        impls.append("in=%s param=%s type=%s" % (",".join(map(str, inl)), ",".join(map(str, par)), ",".join(map(str, typ)) or "-"))
        pay.append({"docstring": text, "converted": out})
        # lines before the section are copied one for one (what the model assumes of the rest)
        if out[:hdr] != lines[:hdr]:
            ctx.disagree("napoleon-map", pay[-1], "prefix copied", "prefix changed")
        ctx.count("napoleon-map:" + ("numpy" if numpy else "google"))
        if len(out) > len(lines):
            ctx.count("napoleon-map:converted-longer-than-written")
    compare(ctx, "napoleon-map", reqs, impls, pay)


# --------------------------------------------------------------------------- replay

def replay(ctx: Ctx, obj) -> int:
    inp = obj.get("input") or obj.get("request") or {}
    if "files" in inp:      # inherited-docstring case: a package
        fmt = {v: k for k, v in FMTS.items()}[inp.get("docformat", "restructuredtext")]
        res = run_driver(inp["files"], fmt, bool(inp.get("warnings_as_errors")), [])
        for fn, text in inp["files"].items():
            if text:
                print("== p/" + fn)
                for i, l in enumerate(text.split("\n"), 1):
                    print("%3d| %s" % (i, l))
        print("exit status:", res["rc"])
        bad = False
        for e in report_entries(res):
            flag = "" if e["path"] == inp.get("docstring_file", "p/base.py") else "   <-- not the file the docstring is written in"
            bad = bad or bool(flag)
            print("reported  : %s:%s on %s  %s %s%s" % (e["path"], e["line"], e["obj"], e["kind"], e["name"], flag))
        for k in ("object", "reported_on", "message", "planted"):
            if k in inp:
                print("%-10s: %s" % (k, inp[k]))
        print("recorded  :", obj.get("what", ""))
        rec = str(inp.get("message", "")).split("\n")[0]
        still = bad or (bool(rec) and rec in res["stdout"])
        print("now       :", "reproduced: property violated" if still else "not reproduced on this tree")
        return 1 if still else 0
    if "source" in inp:
        fmt = {v: k for k, v in FMTS.items()}[inp.get("docformat", "restructuredtext")]
        res = run_driver(inp["source"], fmt, bool(inp.get("warnings_as_errors")), [], inp.get("extra_args"))
        for i, l in enumerate(inp["source"].split("\n"), 1):
            print("%3d| %s" % (i, l))
        print("exit status:", res["rc"])
        for l, k in stdout_reports(res["stdout"]):
            print("reported  : m.py:%s  %s" % (l, k))
        for k in ("object", "reported", "expected", "planted_error_lines", "docstring_span", "message", "k", "differs"):
            if k in inp:
                print("%-10s: %s" % (k, inp[k]))
        print("recorded  :", obj.get("what", "see above"))
        # does the recorded observation still occur on the current tree?
        still = None
        lines = [l for l, _ in stdout_reports(res["stdout"])]
        if isinstance(inp.get("reported"), int) and "problem" in inp:
            still = (str(inp["reported"]), "%s:%s" % tuple(inp["problem"])) in stdout_reports(res["stdout"]) \
                and inp["reported"] not in inp.get("planted_error_lines", []) and inp["reported"] != inp.get("expected")
        elif isinstance(inp.get("reported"), int):
            still = str(inp["reported"]) in lines and ("expected" not in inp or inp["reported"] != inp["expected"])
        elif isinstance(inp.get("reported"), str) and inp["reported"].startswith("m.py:"):
            still = inp["reported"][5:] in lines
        elif "message" in inp:
            still = inp["message"].split("\n")[0] in res["stdout"]
        elif "k" in inp:
            k = inp["k"]
            r2 = run_driver("\n" * k + inp["source"], fmt, False, [])
            still = sorted((str(int(l) + k), x) for l, x in stdout_reports(res["stdout"])) != stdout_reports(r2["stdout"]) if all(l.isdigit() for l in lines) else True
        print("now       :", {True: "the recorded observation is reproduced: property violated", False: "not reproduced on this tree",
                              None: "exit status %s (compare with the recorded expectation above)" % res["rc"]}[still])
        return 1 if still or (still is None and obj.get("kind") == "oracle-failure") else 0
    if "string_lineno" in inp:
        req = "lineno literal %d %s" % (inp["string_lineno"], enc(inp["value"]))
        from pydoctor import astutils
        node = ast.Constant(value=inp["value"])
        node.lineno = inp["string_lineno"]
        print("request:", req)
        print("impl   :", astutils.extract_docstring(node))
        print("model  :", ctx.driver.run([req])[0])
        return 0
    print(obj)
    return 0
