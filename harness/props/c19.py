"""C19 — visitor extensions see a balanced, ordered walk whatever the main visitor prunes."""
from __future__ import annotations

import ast
import itertools
from typing import Dict, Any, List, Tuple

from ..core import Ctx

THEOREMS = ["Visitor.prune_meaning", "Visitor.escape_iff", "Visitor.nested", "Visitor.balanced",
            "Visitor.main_trace", "Visitor.enter_once", "Visitor.order_visit", "Visitor.order_depart",
            "Visitor.builder_stack_empty", "Visitor.dispatch_same_family", "Visitor.dispatch_unpaired_counterexample"]
RULE = ("exhaustive: every ordered tree of <=4 nodes (9 shapes) x every assignment of the 5 pruning actions x every "
        "subset of the 4 timings (one extension each) run through the real pydoctor.visitor.Visitor.walkabout/walk and "
        "through the Lean model; plus random trees of 5-9 nodes with repeated timings; plus the real ASTBuilder on "
        "generated modules. Non-trivial = at least one node prunes and at least one extension is registered "
        "(visitor stream) / module contains a scope the builder refuses (SkipNode) or a nested scope (builder stream).")
ASSUMPTIONS = [
    "pruning exceptions are raised by the main visitor's visit_* methods only (the property's quantifier); extensions do not raise",
    "SkipSiblings raised for the root of walkabout propagates to the caller (as in docutils); the model states this as `escape_iff`",
]
EXPLANATION = ("Theorems over the model of visitor.py hold for all trees/actions/timings; the correspondence compares the "
               "complete event trace of the real Visitor with the model's on the exhaustive space the property names.")

import re
EV = re.compile(r"^(M|E(\d+))([vd])(\d+)$")
ACTS = "ncskd"
TIMINGS = "baio"


def shapes(n: int) -> List[Any]:
    """all ordered trees with n nodes, as nested lists of children"""
    def forests(k):  # ordered forests with k nodes
        if k == 0:
            return [[]]
        res = []
        for first in range(1, k + 1):
            for t in trees(first):
                for rest in forests(k - first):
                    res.append([t] + rest)
        return res

    def trees(k):
        return [f for f in forests(k - 1)]
    return trees(n)


def label(shape, acts) -> Tuple[Any, int]:
    """shape (list of child shapes) -> (id, act, children) with preorder ids"""
    it = iter(acts)
    counter = itertools.count()

    def go(sh):
        i = next(counter)
        a = next(it)
        return (i, a, [go(c) for c in sh])
    return go(shape)


def tree_tokens(t) -> str:
    i, a, cs = t
    return "( %d %s %s)" % (i, a, "".join(tree_tokens(c) + " " for c in cs))


# ------------------------------------------------------------------ implementation adapter

def run_impl(tree, exts: str, mode: str, late: int = 0, kinds: str = "", pairs: Any = None) -> str:
    """`late` > 0: the last `late` extensions are registered AFTER a first complete walk of the same visitor
    instance (ExtList.add on a live visitor); the trace returned is that of the second walk.
    `kinds`: node class per preorder id — N (handlers visit_N / depart_N), L (class Low, handlers visit_low / depart_low:
    the lower-case lookup), S (a SUBCLASS of N without handlers of its own: generic handlers), O (unrelated class: generic
    handlers). Every handler behaves alike, so the trace does not depend on the dispatch; which handler FAMILY entered and
    left each node is recorded in `pairs` {(who, id): [enter family, leave family]}."""
    from pydoctor import visitor as V

    log: List[str] = []
    if pairs is None:
        pairs = {}

    class N:
        def __init__(self, t):
            self.id, self.act, kids = t
            self.children = [mknode(k) for k in kids]

    class SubN(N):
        pass

    class Other:
        def __init__(self, t):
            self.id, self.act, kids = t
            self.children = [mknode(k) for k in kids]

    class Low:                           # a class of its own, handled through the lower-case names
        def __init__(self, t):
            self.id, self.act, kids = t
            self.children = [mknode(k) for k in kids]

    def mknode(t):
        k = kinds[t[0]] if t[0] < len(kinds) else "N"
        return {"N": N, "L": Low, "S": SubN, "O": Other}[k](t)

    def enter(self, ob, fam):
        pairs.setdefault(("M", ob.id), [None, None])[0] = fam
        log.append("Mv%d" % ob.id)
        a = ob.act
        if a == "c":
            raise self.SkipChildren()
        if a == "s":
            raise self.SkipSiblings()
        if a == "k":
            raise self.SkipNode()
        if a == "d":
            raise self.SkipDeparture()

    def leave(self, ob, fam):
        pairs.setdefault(("M", ob.id), [None, None])[1] = fam
        log.append("Md%d" % ob.id)

    class Main(V.Visitor):
        @classmethod
        def get_children(cls, ob):
            return ob.children

        def visit_N(self, ob):
            enter(self, ob, "N")

        def depart_N(self, ob):
            leave(self, ob, "N")

        def visit_low(self, ob):
            enter(self, ob, "low")

        def depart_low(self, ob):
            leave(self, ob, "low")

        def unknown_visit(self, ob):
            enter(self, ob, "generic")

        def unknown_departure(self, ob):
            leave(self, ob, "generic")

    whens = {"b": V.When.BEFORE, "a": V.When.AFTER, "i": V.When.INNER, "o": V.When.OUTTER}
    classes = []
    for idx, ch in enumerate(exts):
        def mk(idx=idx, ch=ch):
            def ev(ob, fam):
                pairs.setdefault(("E%d" % idx, ob.id), [None, None])[0] = fam
                log.append("E%dv%d" % (idx, ob.id))

            def ed(ob, fam):
                pairs.setdefault(("E%d" % idx, ob.id), [None, None])[1] = fam
                log.append("E%dd%d" % (idx, ob.id))

            class E(V.VisitorExt):
                when = whens[ch]

                def visit_N(self, ob):
                    ev(ob, "N")

                def depart_N(self, ob):
                    ed(ob, "N")

                def visit_low(self, ob):
                    ev(ob, "low")

                def depart_low(self, ob):
                    ed(ob, "low")

                def unknown_visit(self, ob):
                    ev(ob, "generic")

                def unknown_departure(self, ob):
                    ed(ob, "generic")
            return E
        classes.append(mk())
    if late:
        vis = Main(V.ExtList(*classes[:len(classes) - late]))
        try:
            vis.walkabout(mknode(tree))
        except V.Visitor._TreePruningException:
            pass
        vis.extensions.add(*classes[len(classes) - late:])
        vis.extensions.attach_visitor(vis)
        del log[:]
    else:
        vis = Main(V.ExtList(*classes))
    root = mknode(tree)
    outcome = "return"
    try:
        if mode == "walkabout":
            vis.walkabout(root)
        else:
            vis.walk(root)
    except V.Visitor._TreePruningException as e:
        outcome = type(e).__name__
    except Exception as e:  # anything else is a crash of the walk
        outcome = "Crash:" + type(e).__name__
    return "ok " + " ".join(log) + " | " + outcome


# ------------------------------------------------------------------ direct oracle (from the docstrings)

def reached(tree) -> Any:
    """pruned tree per the docstrings: (id, main_departs, children)"""
    i, a, cs = tree
    if a in "ck":
        kids = []
    else:
        kids = []
        for c in cs:
            kids.append(reached(c))
            if c[1] == "s":
                break
    return (i, a not in "kd", kids)


def oracle(tree, exts: str, out: str) -> Tuple[str, str] | None:
    body, _, outcome = out[3:].rpartition(" | ")
    evs = body.split()
    if outcome.startswith("Crash"):
        return ("crash", outcome)
    if outcome != "return" and not (outcome == "SkipSiblings" and tree[1] == "s"):
        return ("escape:" + outcome, f"{outcome} escaped walkabout")
    # per extension: balanced, nested like the pruned tree, entered once
    pt = reached(tree)

    def word(p, who, main):
        i, md, kids = p
        w = [f"{who}v{i}"]
        for k in kids:
            w += word(k, who, main)
        if (not main) or md:
            w.append(f"{who}d{i}")
        return w
    for idx in range(len(exts)):
        who = f"E{idx}"
        mine = [e for e in evs if e.startswith(who + "v") or e.startswith(who + "d")]
        st = []
        for e in mine:
            if e[len(who)] == "v":
                st.append(e[len(who) + 1:])
            elif not st or st.pop() != e[len(who) + 1:]:
                return ("unbalanced", f"extension {idx} ({exts[idx]}) leaves a node it is not in")
        if st:
            acts = {n[1] for n in flatten(tree) if str(n[0]) in st}
            return ("unbalanced:never-leaves:" + "".join(sorted(acts)), f"extension {idx} ({exts[idx]}) entered node(s) {st} and never left")
        if mine != word(pt, who, False):
            return ("prune-meaning", f"extension {idx} walk differs from the documented pruning")
    mine = [e for e in evs if e[0] == "M"]
    if mine != word(pt, "M", True):
        return ("prune-meaning:main", "main visitor walk differs from the documented pruning")
    # order inside each enter/leave block
    rank_v = {"b": 0, "o": 1, "M": 2, "a": 3, "i": 4}
    rank_d = {"b": 0, "i": 1, "M": 2, "a": 3, "o": 4}
    prev = None
    for e in evs:
        m = EV.match(e)
        who = "M" if m.group(1) == "M" else exts[int(m.group(2))]
        kind, node = m.group(3), m.group(4)
        r = (rank_v if kind == "v" else rank_d)[who]
        if prev and prev[0] == kind and prev[1] == node and r < prev[2]:
            return ("order", f"{e} out of documented order")
        prev = (kind, node, r)
    return None


def flatten(t):
    yield t
    for c in t[2]:
        yield from flatten(c)


# ------------------------------------------------------------------ AST builder stream

MOD_SNIPPETS = [
    "class {n}:\n{b}",
    "def {n}(a, b=1):\n    '''doc'''\n    def inner(): pass\n    class Loc: pass\n",
    "async def {n}():\n    pass\n",
    "if True:\n{b}",
    "if __name__ == '__main__':\n{b}",
    "try:\n{b}except Exception:\n    pass\n",
    "for _i in range(1):\n{b}",
    "with open('x') as _f:\n{b}",
    "{n} = 1\n'''attr doc'''\n",
    "{n}: int = 2\n",
    "@property\ndef {n}(self):\n    return 1\n@{n}.setter\ndef {n}(self, v):\n    pass\n",
    "@overload\ndef {n}(a: int) -> int: ...\n@overload\ndef {n}(a: str) -> str: ...\ndef {n}(a): return a\n",
    "from typing import overload\n",
    "class {n}(Exception):\n    class Nested:\n        def m(self): pass\n",
    "@staticmethod\ndef {n}(): pass\n",
    "import os, sys as _s\nfrom os import path as {n}\n",
    "__all__ = ['{n}']\n",
    "lambda_{n} = lambda x: x\n",
]


def gen_module(rng, depth=0) -> str:
    parts = []
    for _ in range(rng.randint(1, 5)):
        sn = rng.choice(MOD_SNIPPETS)
        name = rng.choice(["f", "g", "C", "D", "x", "y", "p", "_h", "K2"])
        body = ""
        if "{b}" in sn:
            if depth < 3 and rng.random() < 0.8:
                body = gen_module(rng, depth + 1)
            else:
                body = "pass\n"
            body = "".join("    " + l + "\n" for l in body.splitlines())
        parts.append(sn.format(n=name, b=body))
    return "".join(parts)


def ast_tree_and_run(src: str):
    """process src with the real builder; return (model request, impl answer, final stack state)"""
    from pydoctor import model, astbuilder, visitor as V

    system = model.System()
    modast = ast.parse(src)
    ids = {}
    order = []

    def number(node):
        ids[id(node)] = len(ids)
        order.append(node)
        for ch in astbuilder.ModuleVistor.get_children(node):
            number(ch)
    number(modast)
    log: List[str] = []
    skipped = set()

    Base = astbuilder.ModuleVistor

    class Spy(Base):
        # Visitor.visit = extensions + `super().visit(ob)` (the main visitor's own dispatch, where the
        # pruning exception is raised): spy on that inner dispatch through the MRO.
        def visit(self, ob):
            if id(ob) in ids:
                log.append("Mv%d" % ids[id(ob)])
            try:
                Base.visit(self, ob)
            except V.Visitor._TreePruningException as ex:
                if id(ob) in ids:
                    skipped.add((ids[id(ob)], type(ex).__name__))
                raise

        def depart(self, ob, extensions_only=False):
            if not extensions_only and id(ob) in ids:
                log.append("Md%d" % ids[id(ob)])
            return Base.depart(self, ob, extensions_only)
    mod = system.Module(system, "m")
    system.addObject(mod)
    ab = system.defaultBuilder(system)
    ab.ModuleVistor = Spy
    outcome = None
    try:
        ab.processModuleAST(modast, mod)
    except Exception as e:
        outcome = "Crash:" + type(e).__name__ + ":" + str(e)[:80]
    acts = {i: {"SkipNode": "k", "SkipChildren": "c", "SkipSiblings": "s", "SkipDeparture": "d"}[n] for i, n in skipped}

    def tok(node):
        i = ids[id(node)]
        return "( %d %s %s)" % (i, acts.get(i, "n"), "".join(tok(c) + " " for c in Base.get_children(node)))
    scope = [ids[id(n)] for n in order if isinstance(n, (ast.Module, ast.ClassDef, ast.FunctionDef, ast.AsyncFunctionDef))]
    skip = sorted(i for i in acts if acts[i] == "k")
    req = "visitor stack %s %s %s" % (",".join(map(str, scope)) or "-", ",".join(map(str, skip)) or "-", tok(modast))
    if outcome:
        impl = "ok " + " ".join(log) + " | " + outcome
    else:
        depth = len(ab._stack)
        impl = "ok " + " ".join(log) + " | stack " + ("-" if depth == 0 and ab.current is None else f"depth={depth},current={ab.current!r}")
    nontriv = bool(skip) or len(scope) > 2
    return req, impl, nontriv, outcome, (len(ab._stack), ab.current)


# ------------------------------------------------------------------ run

def run(ctx: Ctx) -> None:
    reqs: List[str] = []
    impls: List[str] = []
    payload: List[Any] = []
    subsets = ["".join(s) for k in range(5) for s in itertools.combinations(TIMINGS, k)]
    cases = []
    for n in range(1, 5):
        for sh in shapes(n):
            for acts in itertools.product(ACTS, repeat=n):
                t = label(sh, acts)
                for ex in subsets:
                    cases.append((t, ex, "walkabout"))
    ctx.extra["exhaustive_cases"] = len(cases)
    # random larger trees, repeated timings, and walk()
    nrand = 2000 if ctx.quick else 60000
    for _ in range(nrand):
        n = ctx.rng.randint(1, 9)
        sh = rand_shape(ctx.rng, n)
        acts = [ctx.rng.choice(ACTS if ctx.rng.random() < 0.7 else "n") for _ in range(n)]
        ex = "".join(ctx.rng.choice(TIMINGS) for _ in range(ctx.rng.randint(0, 5)))
        cases.append((label(sh, acts), ex, ctx.rng.choice(["walkabout", "walk"])))
    # extensions registered on a visitor that has already walked once (ExtList.add on a live visitor)
    late_cases = []
    for _ in range(600 if ctx.quick else 8000):
        n = ctx.rng.randint(1, 6)
        sh = rand_shape(ctx.rng, n)
        acts = [ctx.rng.choice(ACTS if ctx.rng.random() < 0.6 else "n") for _ in range(n)]
        ex = "".join(ctx.rng.choice(TIMINGS) for _ in range(ctx.rng.randint(1, 4)))
        late_cases.append((label(sh, acts), ex, ctx.rng.randint(1, len(ex))))
    for t, ex, late in late_cases:
        req = "visitor walkabout %s %s" % (ex, tree_tokens(t))
        out = run_impl(t, ex, "walkabout", late=late)
        reqs.append(req)
        impls.append(out)
        payload.append({"tree": t, "exts": ex, "mode": "walkabout", "late": late})
        ctx.case(req + "#late%d" % late, True)
        ctx.count("mode:walkabout-after-late-add")
        v = oracle(t, ex, out)
        if v:
            ctx.fail("late-extension:" + v[0], {"tree": t, "exts": ex, "mode": "walkabout", "late": late, "impl": out}, v[1])
    # node classes: exact handler names, the lower-case lookup, a subclass of a handled class, an unrelated class.
    # Every handler behaves alike (same trace, same model request); what is checked on top is that a node is left
    # through the same handler family it was entered through, by the main visitor and by every extension
    for _ in range(1500 if ctx.quick else 20000):
        n = ctx.rng.randint(1, 6)
        sh = rand_shape(ctx.rng, n)
        acts = [ctx.rng.choice(ACTS if ctx.rng.random() < 0.5 else "n") for _ in range(n)]
        ex = "".join(ctx.rng.choice(TIMINGS) for _ in range(ctx.rng.randint(0, 4)))
        kinds = "".join(ctx.rng.choice("NNLSO") for _ in range(n))
        t = label(sh, acts)
        req = "visitor walkabout %s %s" % (ex or "-", tree_tokens(t))
        pairs: Dict[Any, Any] = {}
        out = run_impl(t, ex, "walkabout", kinds=kinds, pairs=pairs)
        reqs.append(req)
        impls.append(out)
        payload.append({"tree": t, "exts": ex, "mode": "walkabout", "kinds": kinds})
        ctx.case(req + "#kinds" + kinds, True)
        ctx.count("mode:walkabout-mixed-node-classes")
        v = oracle(t, ex, out)
        if v:
            ctx.fail("node-classes:" + v[0], {"tree": t, "exts": ex, "mode": "walkabout", "kinds": kinds, "impl": out}, v[1])
        want = {"N": "N", "L": "low", "S": "generic", "O": "generic"}
        for (who, nid), (fa, fb) in sorted(pairs.items()):
            if fb is not None and fa != fb:
                ctx.fail("dispatch:entered-and-left-through-different-handlers", {"tree": t, "exts": ex, "mode": "walkabout", "kinds": kinds, "impl": out},
                         f"{who}: node {nid} (class kind {kinds[nid]}) entered through the {fa} handler, left through the {fb} handler")
                break
            if fa is not None and fa != want[kinds[nid]]:
                ctx.fail("dispatch:handler-not-chosen-by-class-name", {"tree": t, "exts": ex, "mode": "walkabout", "kinds": kinds, "impl": out},
                         f"{who}: node {nid} of class kind {kinds[nid]} was entered through the {fa} handler (documented: 'visit_' + class name, else the generic one)")
                break
    for t, ex, mode in cases:
        req = "visitor %s %s %s" % (mode, ex or "-", tree_tokens(t))
        out = run_impl(t, ex, mode)
        reqs.append(req)
        impls.append(out)
        payload.append({"tree": t, "exts": ex, "mode": mode})
        nontriv = bool(ex) and any(nd[1] != "n" for nd in flatten(t))
        ctx.case(req, nontriv, {"request": req, "impl": out} if len(ctx.samples) < 3 and nontriv and len(req) > 60 else None)
        ctx.count("mode:" + mode)
        ctx.count("nodes:%d" % sum(1 for _ in flatten(t)))
        if mode == "walkabout":
            v = oracle(t, ex, out)
            if v:
                ctx.fail(v[0], {"tree": t, "exts": ex, "mode": mode, "impl": out}, v[1])
    ctx.compare("visitor-trace", reqs, impls, payload)
    # _BaseVisitor.visit / depart: which method handles a class, for visitors defining arbitrary subsets of handlers
    dreqs, dimpls, dpay = [], [], []
    from pydoctor import visitor as V
    pool = ["visit_N", "depart_N", "visit_n", "depart_n", "visit_Low", "depart_Low", "visit_low", "depart_low",
            "visit_SubN", "depart_subn", "visit_other", "depart_Other", "visit_", "depart_", "visit_NN"]
    clsnames = ["N", "Low", "SubN", "Other", "n", "NN", "low"]
    for _ in range(1200 if ctx.quick else 12000):
        defined = sorted(set(ctx.rng.sample(pool, ctx.rng.randint(0, 6))))
        cname = ctx.rng.choice(clsnames)
        got: List[str] = []
        ns: Dict[str, Any] = {}
        for mname in defined:
            ns[mname] = (lambda mname: (lambda self, ob: got.append(mname)))(mname)
        ns["unknown_visit"] = lambda self, ob: got.append("unknown")
        ns["unknown_departure"] = lambda self, ob: got.append("unknown")
        ns["get_children"] = classmethod(lambda cls, ob: [])
        Vis = type("Vis", (V.Visitor,), ns)
        base = type("N", (), {}) if cname == "SubN" else object
        ob = type(cname, (base,), {})()
        v = Vis()
        try:
            V._BaseVisitor.visit(v, ob)
            V._BaseVisitor.depart(v, ob)
            def fam(pre, m):
                if m == "unknown":
                    return "unknown"
                return ("exact:" if m == pre + cname else "lower:") + m
            impl = "ok %s %s" % (fam("visit_", got[0]), fam("depart_", got[1]))
        except Exception as e:
            impl = "Crash:" + type(e).__name__
        dreqs.append("visitor dispatch %s %s" % (cname, ",".join(defined) or "-"))
        dimpls.append(impl)
        dpay.append({"class": cname, "defined": defined})
        ctx.count("dispatch-cases")
        paired = all((("visit_" + x) in defined) == (("depart_" + x) in defined) for x in (cname, cname.lower()))
        if paired and impl.startswith("ok"):
            a, b = impl.split()[1:3]
            if a.split(":")[0] != b.split(":")[0]:
                ctx.fail("dispatch:entered-and-left-through-different-handlers", {"class": cname, "defined": defined},
                         f"handlers defined in pairs, yet {cname} is entered through {a} and left through {b}")
    ctx.compare("visitor-dispatch", dreqs, dimpls, dpay)
    ctx.exhaustive = True
    # builder stream
    nmods = 300 if ctx.quick else 5000
    breqs, bimpls, bpay = [], [], []
    for _ in range(nmods):
        src = gen_module(ctx.rng)
        try:
            ast.parse(src)
        except SyntaxError:
            ctx.count("builder:unparsable-generated")
            continue
        req, impl, nontriv, outcome, st = ast_tree_and_run(src)
        breqs.append(req)
        bimpls.append(impl)
        bpay.append({"source": src})
        ctx.case(req, nontriv, {"source": src, "impl": impl} if nontriv and ctx.dist.get("builder:modules", 0) < 2 else None)
        ctx.count("builder:modules")
        if outcome:
            ctx.fail("builder-crash:" + outcome.split(":")[1], {"source": src}, outcome)
        elif st != (0, None):
            ctx.fail("builder-stack-not-empty", {"source": src}, f"after walkabout: depth={st[0]} current={st[1]!r}")
    ctx.compare("builder-stack", breqs, bimpls, bpay)


def rand_shape(rng, n):
    """random ordered tree with n nodes as nested child lists"""
    parents = [None] + [rng.randrange(i) for i in range(1, n)]
    kids = {i: [] for i in range(n)}
    for i in range(1, n):
        kids[parents[i]].append(i)

    def build(i):
        return [build(k) for k in kids[i]]
    return build(0)


def replay(ctx: Ctx, obj) -> int:
    inp = obj.get("input") or obj.get("request") or {}
    if "tree" in inp:
        t = inp["tree"]
        t = tuple_tree(t)
        pairs = {}
        out = run_impl(t, inp["exts"], inp.get("mode", "walkabout"), late=inp.get("late", 0), kinds=inp.get("kinds", ""), pairs=pairs)
        if inp.get("kinds"):
            print("node classes:", inp["kinds"], " handler families (enter, leave):", {"%s@%d" % k: v for k, v in sorted(pairs.items())})
        req = "visitor %s %s %s" % (inp.get("mode", "walkabout"), inp["exts"] or "-", tree_tokens(t))
        print("request:", req)
        print("impl   :", out)
        try:
            print("model  :", ctx.driver.run([req])[0])
        except Exception as e:
            print("model  : unavailable", e)
        v = oracle(t, inp["exts"], out)
        print("oracle :", v or "property holds on this input")
        return 1 if v else 0
    if "source" in inp:
        req, impl, _, outcome, st = ast_tree_and_run(inp["source"])
        print("impl   :", impl)
        print("model  :", ctx.driver.run([req])[0])
        return 0 if st == (0, None) and not outcome else 1
    print(obj)
    return 0


def tuple_tree(t):
    return (t[0], t[1], [tuple_tree(c) for c in t[2]])
