"""C19 — visitor extensions see a balanced, ordered walk whatever the main visitor prunes."""
from __future__ import annotations

import ast
import itertools
from typing import Dict, Any, List, Tuple

from ..core import Ctx

THEOREMS = ["Visitor.prune_meaning", "Visitor.escape_iff", "Visitor.nested", "Visitor.balanced",
            "Visitor.main_trace", "Visitor.enter_once", "Visitor.order_visit", "Visitor.order_depart",
            "Visitor.builder_stack_empty", "Visitor.dispatch_same_family", "Visitor.dispatch_unpaired_counterexample",
            "Visitor.general_walk", "Visitor.balanced_general", "Visitor.escape_general", "Visitor.general_walk_plain",
            "Visitor.new_departure_prune_balanced", "Visitor.old_departure_prune_unbalanced", "Visitor.old_departure_prune_escape",
            "Visitor.inline_visit_unbalanced_counterexample", "Visitor.inline_visit_order_counterexample",
            "Visitor.walk_is_walkabout_visits", "Visitor.walk_meaning", "Visitor.walk_escape_iff", "Visitor.walk_visits_only",
            "Visitor.walk_ext_preorder", "Visitor.walk_main_preorder", "Visitor.walk_enter_once",
            "Visitor.walk_same_nodes_as_walkabout", "Visitor.walk_leaf",
            "Visitor.extsOf_append", "Visitor.late_add_ext_view", "Visitor.late_add_main_view", "Visitor.late_add_new_view",
            "Visitor.main_enter_once", "Visitor.same_nodes_entered",
            "Visitor.order_depart_ext_only", "Visitor.depart_ext_only_is_filter"]
RULE = ("exhaustive: every ordered tree of <=4 nodes (9 shapes) x every assignment of the 5 pruning actions x every "
        "subset of the 4 timings (one extension each) run through the real pydoctor.visitor.Visitor.walkabout/walk and "
        "through the Lean model; plus random trees of 5-9 nodes with repeated timings; plus the real ASTBuilder on "
        "generated modules WITH one tracing extension per timing that records every node it is handed (expression "
        "statements included); every tree of <=3 nodes x every visit action x one node whose depart_ raises x timing sets "
        "(+ random trees where several departures raise); small packages whose modules are processed from inside each "
        "other with re-exports (oracle only). Non-trivial = at least one node prunes and at least one extension is registered "
        "(visitor stream) / module contains a scope the builder refuses (SkipNode) or a nested scope (builder stream).")
ASSUMPTIONS = [
    "pruning exceptions are raised by the main visitor's visit_* and depart_* methods; extensions do not raise (a BEFORE extension raising SkipNode is the extension pruning, not the main visitor)",
    "what SkipChildren / SkipNode / SkipDeparture raised by a depart_ method should skip is not documented: the oracle asks only that the walk stays balanced and that they do not leave walkabout()",
    "SkipSiblings raised for the root of walkabout propagates to the caller (as in docutils); the model states this as `escape_iff`",
]
EXPLANATION = ("Theorems over the model of visitor.py hold for all trees/actions/timings; the correspondence compares the "
               "complete event trace of the real Visitor with the model's on the exhaustive space the property names.")

import re
EV = re.compile(r"^(M|E(\d+))([vd])(\d+)$")
ACTS = "ncskd"
TIMINGS = "baio"


def shapes(n: int) -> List[Any]:
    """all ordered trees with n nodes, as nested lists of children"""
    def forests(k):  # ordered forests with k nodes
        if k == 0:
            return [[]]
        res = []
        for first in range(1, k + 1):
            for t in trees(first):
                for rest in forests(k - first):
                    res.append([t] + rest)
        return res

    def trees(k):
        return [f for f in forests(k - 1)]
    return trees(n)


def label(shape, acts) -> Tuple[Any, int]:
    """shape (list of child shapes) -> (id, act, children) with preorder ids"""
    it = iter(acts)
    counter = itertools.count()

    def go(sh):
        i = next(counter)
        a = next(it)
        return (i, a, [go(c) for c in sh])
    return go(shape)


def tree_tokens(t) -> str:
    i, a, cs = t
    return "( %d %s %s)" % (i, a, "".join(tree_tokens(c) + " " for c in cs))


# ------------------------------------------------------------------ implementation adapter

def run_impl(tree, exts: str, mode: str, late: int = 0, kinds: str = "", pairs: Any = None, dacts: str = "") -> str:
    """`dacts`: per preorder id the pruning action the MAIN visitor's depart_ method raises for the node ('n' / missing:
    it returns) — `_TreePruningException`: "Raise subclasses from within visit_... or depart_... methods".
    `late` > 0: the last `late` extensions are registered AFTER a first complete walk of the same visitor
    instance (ExtList.add on a live visitor); the trace returned is that of the second walk.
    `kinds`: node class per preorder id — N (handlers visit_N / depart_N), L (class Low, handlers visit_low / depart_low:
    the lower-case lookup), S (a SUBCLASS of N without handlers of its own: generic handlers), O (unrelated class: generic
    handlers). Every handler behaves alike, so the trace does not depend on the dispatch; which handler FAMILY entered and
    left each node is recorded in `pairs` {(who, id): [enter family, leave family]}."""
    from pydoctor import visitor as V

    log: List[str] = []
    if pairs is None:
        pairs = {}

    class N:
        def __init__(self, t):
            self.id, self.act, kids = t
            self.children = [mknode(k) for k in kids]

    class SubN(N):
        pass

    class Other:
        def __init__(self, t):
            self.id, self.act, kids = t
            self.children = [mknode(k) for k in kids]

    class Low:                           # a class of its own, handled through the lower-case names
        def __init__(self, t):
            self.id, self.act, kids = t
            self.children = [mknode(k) for k in kids]

    def mknode(t):
        k = kinds[t[0]] if t[0] < len(kinds) else "N"
        return {"N": N, "L": Low, "S": SubN, "O": Other}[k](t)

    def enter(self, ob, fam):
        pairs.setdefault(("M", ob.id), [None, None])[0] = fam
        log.append("Mv%d" % ob.id)
        a = ob.act
        if a == "c":
            raise self.SkipChildren()
        if a == "s":
            raise self.SkipSiblings()
        if a == "k":
            raise self.SkipNode()
        if a == "d":
            raise self.SkipDeparture()

    def leave(self, ob, fam):
        pairs.setdefault(("M", ob.id), [None, None])[1] = fam
        log.append("Md%d" % ob.id)
        a = dacts[ob.id] if ob.id < len(dacts) else "n"
        if a == "c":
            raise self.SkipChildren()
        if a == "s":
            raise self.SkipSiblings()
        if a == "k":
            raise self.SkipNode()
        if a == "d":
            raise self.SkipDeparture()

    class Main(V.Visitor):
        @classmethod
        def get_children(cls, ob):
            return ob.children

        def visit_N(self, ob):
            enter(self, ob, "N")

        def depart_N(self, ob):
            leave(self, ob, "N")

        def visit_low(self, ob):
            enter(self, ob, "low")

        def depart_low(self, ob):
            leave(self, ob, "low")

        def unknown_visit(self, ob):
            enter(self, ob, "generic")

        def unknown_departure(self, ob):
            leave(self, ob, "generic")

    whens = {"b": V.When.BEFORE, "a": V.When.AFTER, "i": V.When.INNER, "o": V.When.OUTTER}
    classes = []
    for idx, ch in enumerate(exts):
        def mk(idx=idx, ch=ch):
            def ev(ob, fam):
                pairs.setdefault(("E%d" % idx, ob.id), [None, None])[0] = fam
                log.append("E%dv%d" % (idx, ob.id))

            def ed(ob, fam):
                pairs.setdefault(("E%d" % idx, ob.id), [None, None])[1] = fam
                log.append("E%dd%d" % (idx, ob.id))

            class E(V.VisitorExt):
                when = whens[ch]

                def visit_N(self, ob):
                    ev(ob, "N")

                def depart_N(self, ob):
                    ed(ob, "N")

                def visit_low(self, ob):
                    ev(ob, "low")

                def depart_low(self, ob):
                    ed(ob, "low")

                def unknown_visit(self, ob):
                    ev(ob, "generic")

                def unknown_departure(self, ob):
                    ed(ob, "generic")
            return E
        classes.append(mk())
    if late:
        vis = Main(V.ExtList(*classes[:len(classes) - late]))
        try:
            vis.walkabout(mknode(tree))
        except V.Visitor._TreePruningException:
            pass
        vis.extensions.add(*classes[len(classes) - late:])
        vis.extensions.attach_visitor(vis)
        del log[:]
    else:
        vis = Main(V.ExtList(*classes))
    root = mknode(tree)
    outcome = "return"
    try:
        if mode == "walkabout":
            vis.walkabout(root)
        else:
            vis.walk(root)
    except V.Visitor._TreePruningException as e:
        outcome = type(e).__name__
    except Exception as e:  # anything else is a crash of the walk
        outcome = "Crash:" + type(e).__name__
    return "ok " + " ".join(log) + " | " + outcome


# ------------------------------------------------------------------ direct oracle (from the docstrings)

def reached(tree) -> Any:
    """pruned tree per the docstrings: (id, main_departs, children)"""
    i, a, cs = tree
    if a in "ck":
        kids = []
    else:
        kids = []
        for c in cs:
            kids.append(reached(c))
            if c[1] == "s":
                break
    return (i, a not in "kd", kids)


def oracle(tree, exts: str, out: str) -> Tuple[str, str] | None:
    body, _, outcome = out[3:].rpartition(" | ")
    evs = body.split()
    if outcome.startswith("Crash"):
        return ("crash", outcome)
    if outcome != "return" and not (outcome == "SkipSiblings" and tree[1] == "s"):
        return ("escape:" + outcome, f"{outcome} escaped walkabout")
    # per extension: balanced, nested like the pruned tree, entered once
    pt = reached(tree)

    def word(p, who, main):
        i, md, kids = p
        w = [f"{who}v{i}"]
        for k in kids:
            w += word(k, who, main)
        if (not main) or md:
            w.append(f"{who}d{i}")
        return w
    for idx in range(len(exts)):
        who = f"E{idx}"
        mine = [e for e in evs if e.startswith(who + "v") or e.startswith(who + "d")]
        st = []
        for e in mine:
            if e[len(who)] == "v":
                st.append(e[len(who) + 1:])
            elif not st or st.pop() != e[len(who) + 1:]:
                return ("unbalanced", f"extension {idx} ({exts[idx]}) leaves a node it is not in")
        if st:
            acts = {n[1] for n in flatten(tree) if str(n[0]) in st}
            return ("unbalanced:never-leaves:" + "".join(sorted(acts)), f"extension {idx} ({exts[idx]}) entered node(s) {st} and never left")
        if mine != word(pt, who, False):
            return ("prune-meaning", f"extension {idx} walk differs from the documented pruning")
    mine = [e for e in evs if e[0] == "M"]
    if mine != word(pt, "M", True):
        return ("prune-meaning:main", "main visitor walk differs from the documented pruning")
    # order inside each enter/leave block
    rank_v = {"b": 0, "o": 1, "M": 2, "a": 3, "i": 4}
    rank_d = {"b": 0, "i": 1, "M": 2, "a": 3, "o": 4}
    prev = None
    for e in evs:
        m = EV.match(e)
        who = "M" if m.group(1) == "M" else exts[int(m.group(2))]
        kind, node = m.group(3), m.group(4)
        r = (rank_v if kind == "v" else rank_d)[who]
        if prev and prev[0] == kind and prev[1] == node and r < prev[2]:
            return ("order", f"{e} out of documented order")
        prev = (kind, node, r)
    return None


def oracle_walk(tree, exts: str, out: str) -> Tuple[str, str] | None:
    """`Visitor.walk` ("similar, except it also calls the depart() method": walk() enters only).  From the docstrings,
    on the trace alone: no departure is called for anybody; the main visitor and every extension enter exactly the
    nodes of the pruned tree, in preorder, each once (SkipDeparture "not applicable; ignore"); the order inside one
    node is BEFORE, OUTTER, main, AFTER, INNER; only a SkipSiblings of the walked node itself leaves walk().
    (Lean: Visitor.walk_meaning / walk_visits_only / walk_ext_preorder / walk_main_preorder / walk_escape_iff.)"""
    body, _, outcome = out[3:].rpartition(" | ")
    evs = body.split()
    if outcome.startswith("Crash"):
        return ("walk:crash", outcome)
    if outcome != "return" and not (outcome == "SkipSiblings" and tree[1] == "s"):
        return ("walk:escape:" + outcome, f"{outcome} escaped walk()")
    if outcome == "return" and tree[1] == "s":
        return ("walk:skip-siblings-swallowed", "SkipSiblings raised for the walked node did not reach the caller of walk()")
    pt = reached(tree)

    def pre(p):
        r = [str(p[0])]
        for k in p[2]:
            r += pre(k)
        return r
    want = pre(pt)
    for e in evs:
        m = EV.match(e)
        if m.group(3) == "d":
            return ("walk:departure-called", f"walk() called a departure: {e}")
    for idx in range(len(exts)):
        who = f"E{idx}v"
        mine = [e[len(who):] for e in evs if e.startswith(who)]
        if len(set(mine)) != len(mine):
            return ("walk:entered-twice", f"extension {idx} ({exts[idx]}) entered a node twice under walk(): {mine}")
        if mine != want:
            return ("walk:prune-meaning", f"extension {idx} ({exts[idx]}) entered {mine} under walk(); documented pruning gives {want}")
    mine = [e[2:] for e in evs if e.startswith("Mv")]
    if mine != want:
        return ("walk:prune-meaning:main", f"main visitor entered {mine} under walk(); documented pruning gives {want}")
    rank_v = {"b": 0, "o": 1, "M": 2, "a": 3, "i": 4}
    prev = None
    for e in evs:
        m = EV.match(e)
        who = "M" if m.group(1) == "M" else exts[int(m.group(2))]
        node = m.group(4)
        r = rank_v[who]
        if prev and prev[0] == node and r < prev[1]:
            return ("walk:order", f"{e} out of documented order under walk()")
        prev = (node, r)
    return None


def oracle_departure(tree, exts: str, dacts: str, out: str) -> Tuple[str, str] | None:
    """the main visitor prunes from depart_ methods as well.  Written from the statement, on the trace alone: every
    extension that entered a node leaves it, enter/leave nest like the tree, a node is entered at most once, main
    visitor and extensions see the same nodes, the block order is the documented one; SkipSiblings raised by the
    departure of a node keeps its right siblings from being entered (the only pruning exception with a documented
    meaning at that point; what the other three skip when raised by a departure is not judged).  Nothing but a
    SkipSiblings of the walked node itself may leave walkabout()."""
    body, _, outcome = out[3:].rpartition(" | ")
    evs = body.split()
    if outcome.startswith("Crash"):
        return ("crash", outcome)
    parent = {}
    right = {}
    for nd in flatten(tree):
        kids = [k[0] for k in nd[2]]
        for j, k in enumerate(kids):
            parent[k] = nd[0]
            right[k] = kids[j + 1:]
    parent[tree[0]] = None
    entered_by: Dict[str, List[int]] = {}
    for who in ["M"] + ["E%d" % i for i in range(len(exts))]:
        st: List[int] = []
        seen: List[int] = []
        for e in evs:
            m = EV.match(e)
            if m.group(1) != who:
                continue
            node = int(m.group(4))
            if m.group(3) == "v":
                if node in seen:
                    return ("entered-twice", f"{who} enters node {node} twice")
                if who == "M":
                    # the main visitor may have skipped departures: what it left open beside `node` is closed
                    while st and st[-1] != parent[node]:
                        st.pop()
                if (st[-1] if st else None) != parent[node]:
                    return ("nesting", f"{who} enters node {node} while inside {st[-1] if st else None}, its parent is {parent[node]}")
                seen.append(node)
                st.append(node)
            elif who == "M":
                # the main visitor may have skipped departures: drop what it left open below `node`
                while st and st[-1] != node:
                    st.pop()
                if not st:
                    return ("unbalanced", f"main visitor departs node {node} it is not in")
                st.pop()
            elif node in st[:-1]:
                return ("unbalanced:never-leaves", f"extension {who} ({exts[int(who[1:])]}) leaves node {node} while node(s) {st[st.index(node) + 1:]} it entered inside are still open: it never leaves them")
            elif not st or st.pop() != node:
                return ("unbalanced", f"extension {who} ({exts[int(who[1:])]}) leaves node {node} it is not in")
        if who != "M" and st:
            return ("unbalanced:never-leaves", f"extension {who} ({exts[int(who[1:])]}) entered node(s) {st} and never left")
        entered_by[who] = seen
    if any(v != entered_by["M"] for v in entered_by.values()):
        return ("prune-meaning", "main visitor and extensions do not enter the same nodes")
    departed = {int(e[2:]) for e in evs if e.startswith("Md")}
    for nd in flatten(tree):
        i = nd[0]
        if i in departed and i < len(dacts) and dacts[i] == "s" and any(r in entered_by["M"] for r in right.get(i, [])):
            return ("siblings-not-skipped", f"departure of node {i} raised SkipSiblings, a right sibling was entered")
    rank_v = {"b": 0, "o": 1, "M": 2, "a": 3, "i": 4}
    rank_d = {"b": 0, "i": 1, "M": 2, "a": 3, "o": 4}
    prev = None
    for e in evs:
        m = EV.match(e)
        who = "M" if m.group(1) == "M" else exts[int(m.group(2))]
        kind, node = m.group(3), m.group(4)
        r = (rank_v if kind == "v" else rank_d)[who]
        if prev and prev[0] == kind and prev[1] == node and r < prev[2]:
            return ("order", f"{e} out of documented order")
        prev = (kind, node, r)
    root = tree[0]
    root_s = tree[1] == "s" or (root in departed and root < len(dacts) and dacts[root] == "s")
    if outcome != "return" and not (outcome == "SkipSiblings" and root_s):
        return ("escape", f"{outcome} raised by a departure left walkabout()")
    return None


def flatten(t):
    yield t
    for c in t[2]:
        yield from flatten(c)


# ------------------------------------------------------------------ AST builder stream

MOD_SNIPPETS = [
    "class {n}:\n{b}",
    "def {n}(a, b=1):\n    '''doc'''\n    def inner(): pass\n    class Loc: pass\n",
    "async def {n}():\n    pass\n",
    "if True:\n{b}",
    "if __name__ == '__main__':\n{b}",
    "try:\n{b}except Exception:\n    pass\n",
    "for _i in range(1):\n{b}",
    "with open('x') as _f:\n{b}",
    "{n} = 1\n'''attr doc'''\n",
    "{n}: int = 2\n",
    "@property\ndef {n}(self):\n    return 1\n@{n}.setter\ndef {n}(self, v):\n    pass\n",
    "@overload\ndef {n}(a: int) -> int: ...\n@overload\ndef {n}(a: str) -> str: ...\ndef {n}(a): return a\n",
    "from typing import overload\n",
    "class {n}(Exception):\n    class Nested:\n        def m(self): pass\n",
    "@staticmethod\ndef {n}(): pass\n",
    "import os, sys as _s\nfrom os import path as {n}\n",
    "__all__ = ['{n}']\n",
    "lambda_{n} = lambda x: x\n",
    # clauses get_children walks after the body (99a6d9c): try-else, finally, loop-else
    "try:\n{b}except Exception:\n    pass\nelse:\n{b}finally:\n{b}",
    "for _j in ():\n{b}else:\n{b}",
    "while False:\n{b}else:\n{b}",
    # expression statements: the builder's visit_Expr hands their value to the extensions
    "{n}()\n",
    "'''a string statement'''\n",
    "{n}.register({n}, key=lambda v: v)\n",
    "(lambda: 0)\n",
    "1 if {n} else 2\n",
    "...\n",
    "[{n} for _ in ()]\n",
]

# fixed modules run before the generated ones (detection does not depend on the seed)
BUILDER_CORPUS = [
    '"""Module docstring."""\nfoo()\n',                                     # hunt/C19/1
    'class C:\n    """doc"""\n    x = 1\n    """attr doc"""\n    foo(lambda: 0)\n    (a if b else c)\n    def m(self):\n        """m"""\n        bar()\n',
    'if __name__ == "__main__":\n    main()\nelse:\n    other()\n',
    'try:\n    import x\n    x.y()\nexcept ImportError:\n    """s"""\n',
    'from zope.interface import implementer, Interface\nclass I(Interface):\n    pass\n@implementer(I)\nclass K:\n    """k"""\n',
]


def gen_module(rng, depth=0) -> str:
    parts = []
    for _ in range(rng.randint(1, 5)):
        sn = rng.choice(MOD_SNIPPETS)
        name = rng.choice(["f", "g", "C", "D", "x", "y", "p", "_h", "K2"])
        body = ""
        if "{b}" in sn:
            if depth < 3 and rng.random() < 0.8:
                body = gen_module(rng, depth + 1)
            else:
                body = "pass\n"
            body = "".join("    " + l + "\n" for l in body.splitlines())
        parts.append(sn.format(n=name, b=body))
    return "".join(parts)


BUILDER_EXTS = "baio"


def ast_tree_and_run(src: str):
    """process src with the real builder and FOUR TRACING EXTENSIONS (one per timing) that record every node they are
    handed, whatever its class; return (model request, impl answer, nontrivial, crash, final stack state, oracle verdict).

    The main visitor's own dispatch is observed exactly where Visitor.visit / Visitor.depart call it
    (`super().visit(ob)`): class Hook sits between Visitor and _BaseVisitor in the MRO of the spy class.  A node that
    is visited although the walk (get_children) does not lead to it - visited BY a visit_ method of the main visitor -
    gets a fresh id and is recorded as an inline child of the node whose visit_ method was running."""
    from pydoctor import model, astbuilder, astutils, visitor as V

    system = model.System()
    modast = ast.parse(src)
    ids: Dict[int, int] = {}
    order: List[ast.AST] = []

    def number(node):
        ids[id(node)] = len(ids)
        order.append(node)
        for ch in astbuilder.ModuleVistor.get_children(node):
            number(ch)
    number(modast)
    log: List[str] = []
    skipped = set()
    inl: List[Tuple[int, int]] = []
    cur: List[int] = []

    def nid(ob) -> int:
        k = ids.get(id(ob))
        if k is None:
            k = ids[id(ob)] = len(ids)
            order.append(ob)
            inl.append((cur[-1] if cur else -1, k))
        return k

    Base = astbuilder.ModuleVistor

    class Hook(V._BaseVisitor):           # MRO of Spy: ModuleVistor, NodeVisitor, PartialVisitor, Visitor, Hook, _BaseVisitor
        def visit(self, ob):
            k = nid(ob)
            log.append("Mv%d" % k)
            cur.append(k)
            try:
                super().visit(ob)
            except V.Visitor._TreePruningException as ex:
                skipped.add((k, type(ex).__name__))
                raise
            finally:
                cur.pop()

        def depart(self, ob):
            log.append("Md%d" % nid(ob))
            super().depart(ob)

    class Spy(Base, Hook):
        pass
    assert Spy.__mro__.index(Hook) == Spy.__mro__.index(V.Visitor) + 1
    whens = {"b": V.When.BEFORE, "a": V.When.AFTER, "i": V.When.INNER, "o": V.When.OUTTER}
    classes = []
    for idx, ch in enumerate(BUILDER_EXTS):
        def mk(idx=idx, ch=ch):
            class E(astutils.NodeVisitorExt):
                when = whens[ch]

                def unknown_visit(self, ob):
                    log.append("E%dv%d" % (idx, nid(ob)))

                def unknown_departure(self, ob):
                    log.append("E%dd%d" % (idx, nid(ob)))
            return E
        classes.append(mk())
    system._astbuilder_visitors.extend(classes)
    mod = system.Module(system, "m")
    system.addObject(mod)
    ab = system.defaultBuilder(system)
    ab.ModuleVistor = Spy
    outcome = None
    try:
        ab.processModuleAST(modast, mod)
    except Exception as e:
        outcome = "Crash:" + type(e).__name__ + ":" + str(e)[:80]
    acts = {i: {"SkipNode": "k", "SkipChildren": "c", "SkipSiblings": "s", "SkipDeparture": "d"}[n] for i, n in skipped}

    def tok(node):
        i = ids[id(node)]
        return "( %d %s %s)" % (i, acts.get(i, "n"), "".join(tok(c) + " " for c in Base.get_children(node)))
    scope = [ids[id(n)] for n in order if isinstance(n, (ast.Module, ast.ClassDef, ast.FunctionDef, ast.AsyncFunctionDef))
             and not any(c == ids[id(n)] for _, c in inl)]
    skip = sorted(i for i in acts if acts[i] == "k")
    req = "visitor bstack %s %s %s %s %s" % (",".join(map(str, scope)) or "-", ",".join(map(str, skip)) or "-",
                                            ",".join("%d:%d" % pc for pc in inl) or "-", BUILDER_EXTS, tok(modast))
    if outcome:
        impl = "ok " + " ".join(log) + " | " + outcome
    else:
        depth = len(ab._stack)
        impl = "ok " + " ".join(log) + " | return | stack " + ("-" if depth == 0 and ab.current is None else f"depth={depth},current={ab.current!r}")
    nontriv = bool(skip) or len(scope) > 2
    # ---- direct oracle on the extensions' view of the real walk: the walked tree (get_children) with the nodes a
    # visit_ method visited itself hung in as first children of the node they were visited from
    inl_of: Dict[int, List[int]] = {}
    for pnt, c in inl:
        inl_of.setdefault(pnt, []).append(c)

    def otree(node):
        i = ids[id(node)]
        return (i, acts.get(i, "n"), [(c, acts.get(c, "n"), []) for c in inl_of.get(i, [])] + [otree(c) for c in Base.get_children(node)])
    verdict = None
    if not outcome:
        t = otree(modast)
        trace = "ok " + " ".join(log) + " | return"
        never = set()
        for idx in range(len(BUILDER_EXTS)):
            who = "E%d" % idx
            ent = [int(e[len(who) + 1:]) for e in log if e.startswith(who + "v")]
            left = {int(e[len(who) + 1:]) for e in log if e.startswith(who + "d")}
            never |= {n for n in ent if n not in left}
        if never:
            def desc(n):
                node = order[n]
                for pnt, c in inl:
                    if c == n and pnt >= 0:
                        for fname, val in ast.iter_fields(order[pnt]):
                            if val is node or (isinstance(val, list) and any(x is node for x in val)):
                                return "%s.%s" % (type(order[pnt]).__name__, fname)
                return type(node).__name__
            kinds = sorted({desc(n) for n in never})
            verdict = ("never-leaves:" + ",".join(kinds),
                       "extensions enter node(s) %s and never leave them (%s)" % (sorted(never), ", ".join(kinds)))
        else:
            verdict = oracle_departure(t, BUILDER_EXTS, "", trace) or oracle(t, BUILDER_EXTS, trace)
    return req, impl, nontriv, outcome, (len(ab._stack), ab.current), verdict


# ------------------------------------------------------------------ builder on small packages (nested processing, re-exports)

PROJECT_CORPUS = [
    # hunt/C19/3: pkg.z is processed from INSIDE class C of pkg.a and takes C away (re-export); then C.f is entered again
    {"pkg": "", "pkg.a": "from typing import overload, TYPE_CHECKING\nclass C:\n    @overload\n    def f(self, x: int) -> int: ...\n"
                         "    if TYPE_CHECKING:\n        from pkg.z import Q\n    @overload\n    def f(self, x: str) -> str: ...\n    def f(self, x): return x\n",
     "pkg.z": "from pkg.a import C\n__all__ = ['C']\nQ = int\n"},
]

MEMBERS = [
    "    @overload\n    def f(self, x: int) -> int: ...\n",
    "    @overload\n    def f(self, x: str) -> str: ...\n",
    "    def f(self, x): return x\n",
    "    def g(self):\n        \"doc\"\n",
    "    class Inner:\n        v = 1\n",
    "    attr = 1\n    \"attr doc\"\n",
    "    @property\n    def p(self): return 1\n",
    "    @p.setter\n    def p(self, v): pass\n",
]


def gen_project(rng) -> Dict[str, str]:
    """package pkg with modules a (defines class C, and imports from z somewhere) and z (imports C from a and may
    re-export it): whichever is processed first, the other one is processed from inside it"""
    imp = rng.choice(["from pkg.z import Q\n", "import pkg.z\n", "from pkg.z import *\n", "from .z import Q as R\n"])
    guard = rng.random() < 0.6

    def at(ind: str) -> str:
        return (ind + "if TYPE_CHECKING:\n" + ind + "    " + imp) if guard else ind + imp
    members = [rng.choice(MEMBERS) for _ in range(rng.randint(1, 5))]
    if rng.random() < 0.6:
        members = [MEMBERS[0]] + members + [MEMBERS[1], MEMBERS[2]]
    where = rng.choice(["class", "class", "class", "module-before", "module-after", "method"])
    a = "from typing import overload, TYPE_CHECKING\n"
    if where == "module-before":
        a += at("")
    a += "class C:\n"
    pos = rng.randint(0, len(members))
    for j, m in enumerate(members):
        if where == "class" and j == pos:
            a += at("    ")
        a += m
    if where == "class" and pos == len(members):
        a += at("    ")
    if where == "method":
        a += "    def late(self):\n" + at("        ") + "        return 0\n"
    if where == "module-after":
        a += at("")
    a += rng.choice(["", "def top(): pass\n", "@overload\ndef h(a: int) -> int: ...\n@overload\ndef h(a: str) -> str: ...\ndef h(a): return a\n"])
    z = rng.choice(["from pkg.a import C\n", "from .a import C\n", "from pkg.a import *\n", "from pkg.a import C as D\n"])
    z += rng.choice(["__all__ = ['C']\n", "__all__ = ['C', 'Q']\n", "", "__all__ = ['D']\n"]) + "Q = int\n"
    init = rng.choice(["", "from pkg.z import C\n__all__ = ['C']\n", "from .a import C\n"])
    return {"pkg": init, "pkg.a": a, "pkg.z": z}


def run_project(units: Dict[str, str], order: List[str]):
    """build the package with the real system; every ASTBuilder created is kept, a BEFORE extension records what it
    enters and leaves per walked module.  Returns (crash or None, [(stack depth, current)], unbalanced modules)."""
    import traceback
    from pydoctor import model, astutils, visitor as V
    system = model.System()
    builders = []

    class Rec(system.defaultBuilder):           # type: ignore[name-defined,misc]
        def __init__(self, *a, **kw):
            super().__init__(*a, **kw)
            builders.append(self)
    system.defaultBuilder = Rec
    traces: Dict[int, List[Tuple[str, int]]] = {}
    names: Dict[int, str] = {}

    class T(astutils.NodeVisitorExt):
        when = V.When.BEFORE

        # statements only: what happens to the value of an expression statement is the single-module stream's business
        def unknown_visit(self, ob):
            if isinstance(ob, (ast.stmt, ast.mod)):
                names[id(self.visitor)] = self.visitor.module.fullName()
                traces.setdefault(id(self.visitor), []).append(("v", id(ob)))

        def unknown_departure(self, ob):
            if isinstance(ob, (ast.stmt, ast.mod)):
                traces.setdefault(id(self.visitor), []).append(("d", id(ob)))
    system._astbuilder_visitors.append(T)
    b = system.systemBuilder(system)
    for name in sorted(units):
        parent, _, short = name.rpartition(".")
        b.addModuleString(units[name], short, parent_name=parent or None, is_package=(name == "pkg"))
    mods = {m.fullName(): m for m in system.unprocessed_modules}
    system.unprocessed_modules[:] = [mods[n] for n in order]
    crash = None
    try:
        b.buildModules()
    except Exception as e:
        fr = [f for f in traceback.extract_tb(e.__traceback__) if "/pydoctor/" in f.filename]
        crash = "%s:%s" % (type(e).__name__, fr[-1].name if fr else "?")
    stacks = [(len(x._stack), repr(x.current)) for x in builders]
    open_mods = []
    for key, tr in traces.items():
        st: List[int] = []
        ok = True
        for kind, n in tr:
            if kind == "v":
                st.append(n)
            elif not st or st.pop() != n:
                ok = False
        if st or not ok:
            open_mods.append(names.get(key, "?"))
    return crash, stacks, sorted(open_mods)


# ------------------------------------------------------------------ run

def run(ctx: Ctx) -> None:
    reqs: List[str] = []
    impls: List[str] = []
    payload: List[Any] = []
    subsets = ["".join(s) for k in range(5) for s in itertools.combinations(TIMINGS, k)]
    cases = []
    for n in range(1, 5):
        for sh in shapes(n):
            for acts in itertools.product(ACTS, repeat=n):
                t = label(sh, acts)
                for ex in subsets:
                    cases.append((t, ex, "walkabout"))
    ctx.extra["exhaustive_cases"] = len(cases)
    # Visitor.walk (the departure-less traversal): every tree of <=3 nodes x every action assignment x every timing
    # subset, every tree of 4 nodes x every action assignment x {all four timings, none} (thorough: every subset)
    nwalk = 0
    for n in range(1, 5):
        for sh in shapes(n):
            for acts in itertools.product(ACTS, repeat=n):
                t = label(sh, acts)
                for ex in (subsets if (n < 4 or not ctx.quick) else ["baio", ""]):
                    cases.append((t, ex, "walk"))
                    nwalk += 1
    ctx.extra["exhaustive_walk_cases"] = nwalk
    # random larger trees, repeated timings, and walk()
    nrand = 2000 if ctx.quick else 60000
    for _ in range(nrand):
        n = ctx.rng.randint(1, 9)
        sh = rand_shape(ctx.rng, n)
        acts = [ctx.rng.choice(ACTS if ctx.rng.random() < 0.7 else "n") for _ in range(n)]
        ex = "".join(ctx.rng.choice(TIMINGS) for _ in range(ctx.rng.randint(0, 5)))
        cases.append((label(sh, acts), ex, ctx.rng.choice(["walkabout", "walk"])))
    # extensions registered on a visitor that has already walked once (ExtList.add on a live visitor)
    late_cases = []
    for _ in range(600 if ctx.quick else 8000):
        n = ctx.rng.randint(1, 6)
        sh = rand_shape(ctx.rng, n)
        acts = [ctx.rng.choice(ACTS if ctx.rng.random() < 0.6 else "n") for _ in range(n)]
        ex = "".join(ctx.rng.choice(TIMINGS) for _ in range(ctx.rng.randint(1, 4)))
        late_cases.append((label(sh, acts), ex, ctx.rng.randint(1, len(ex))))
    for t, ex, late in late_cases:
        req = "visitor walkabout %s %s" % (ex, tree_tokens(t))
        out = run_impl(t, ex, "walkabout", late=late)
        reqs.append(req)
        impls.append(out)
        payload.append({"tree": t, "exts": ex, "mode": "walkabout", "late": late})
        ctx.case(req + "#late%d" % late, True)
        ctx.count("mode:walkabout-after-late-add")
        v = oracle(t, ex, out)
        if v:
            ctx.fail("late-extension:" + v[0], {"tree": t, "exts": ex, "mode": "walkabout", "late": late, "impl": out}, v[1])
    # node classes: exact handler names, the lower-case lookup, a subclass of a handled class, an unrelated class.
    # Every handler behaves alike (same trace, same model request); what is checked on top is that a node is left
    # through the same handler family it was entered through, by the main visitor and by every extension
    for _ in range(1500 if ctx.quick else 20000):
        n = ctx.rng.randint(1, 6)
        sh = rand_shape(ctx.rng, n)
        acts = [ctx.rng.choice(ACTS if ctx.rng.random() < 0.5 else "n") for _ in range(n)]
        ex = "".join(ctx.rng.choice(TIMINGS) for _ in range(ctx.rng.randint(0, 4)))
        kinds = "".join(ctx.rng.choice("NNLSO") for _ in range(n))
        t = label(sh, acts)
        req = "visitor walkabout %s %s" % (ex or "-", tree_tokens(t))
        pairs: Dict[Any, Any] = {}
        out = run_impl(t, ex, "walkabout", kinds=kinds, pairs=pairs)
        reqs.append(req)
        impls.append(out)
        payload.append({"tree": t, "exts": ex, "mode": "walkabout", "kinds": kinds})
        ctx.case(req + "#kinds" + kinds, True)
        ctx.count("mode:walkabout-mixed-node-classes")
        v = oracle(t, ex, out)
        if v:
            ctx.fail("node-classes:" + v[0], {"tree": t, "exts": ex, "mode": "walkabout", "kinds": kinds, "impl": out}, v[1])
        want = {"N": "N", "L": "low", "S": "generic", "O": "generic"}
        for (who, nid), (fa, fb) in sorted(pairs.items()):
            if fb is not None and fa != fb:
                ctx.fail("dispatch:entered-and-left-through-different-handlers", {"tree": t, "exts": ex, "mode": "walkabout", "kinds": kinds, "impl": out},
                         f"{who}: node {nid} (class kind {kinds[nid]}) entered through the {fa} handler, left through the {fb} handler")
                break
            if fa is not None and fa != want[kinds[nid]]:
                ctx.fail("dispatch:handler-not-chosen-by-class-name", {"tree": t, "exts": ex, "mode": "walkabout", "kinds": kinds, "impl": out},
                         f"{who}: node {nid} of class kind {kinds[nid]} was entered through the {fa} handler (documented: 'visit_' + class name, else the generic one)")
                break
    for t, ex, mode in cases:
        req = "visitor %s %s %s" % (mode, ex or "-", tree_tokens(t))
        out = run_impl(t, ex, mode)
        reqs.append(req)
        impls.append(out)
        payload.append({"tree": t, "exts": ex, "mode": mode})
        nontriv = bool(ex) and any(nd[1] != "n" for nd in flatten(t))
        ctx.case(req, nontriv, {"request": req, "impl": out} if len(ctx.samples) < 3 and nontriv and len(req) > 60 else None)
        ctx.count("mode:" + mode)
        ctx.count("nodes:%d" % sum(1 for _ in flatten(t)))
        if mode == "walkabout":
            v = oracle(t, ex, out) or oracle_departure(t, ex, "", out)
            if v:
                ctx.fail(v[0], {"tree": t, "exts": ex, "mode": mode, "impl": out}, v[1])
        else:
            v = oracle_walk(t, ex, out)
            if v:
                ctx.fail(v[0], {"tree": t, "exts": ex, "mode": mode, "impl": out}, v[1])
    ctx.compare("visitor-trace", reqs, impls, payload)
    # the main visitor prunes from its depart_ methods as well ("Raise subclasses from within visit_... or depart_...
    # methods"): every tree of <=3 nodes x every visit action x ONE node whose departure raises x timing sets, and
    # random trees where several departures raise
    qreqs, qimpls, qpay = [], [], []
    dsets = subsets if not ctx.quick else ["", "b", "a", "i", "o", "baio"]
    dcases = []
    for n in range(1, 4):
        for sh in shapes(n):
            for acts in itertools.product(ACTS, repeat=n):
                t = label(sh, acts)
                for who in range(n):
                    for da in "cskd":
                        for ex in dsets:
                            dcases.append((t, ex, "n" * who + da + "n" * (n - who - 1)))
    ctx.extra["exhaustive_departure_cases"] = len(dcases)
    for _ in range(1500 if ctx.quick else 40000):
        n = ctx.rng.randint(1, 7)
        sh = rand_shape(ctx.rng, n)
        acts = [ctx.rng.choice(ACTS if ctx.rng.random() < 0.4 else "n") for _ in range(n)]
        ex = "".join(ctx.rng.choice(TIMINGS) for _ in range(ctx.rng.randint(0, 5)))
        da = "".join(ctx.rng.choice("cskd" if ctx.rng.random() < 0.3 else "n") for _ in range(n))
        dcases.append((label(sh, acts), ex, da))
    for t, ex, da in dcases:
        req = "visitor walkaboutd %s %s %s" % (ex or "-", da, tree_tokens(t))
        out = run_impl(t, ex, "walkabout", dacts=da)
        qreqs.append(req)
        qimpls.append(out)
        qpay.append({"tree": t, "exts": ex, "mode": "walkabout", "dacts": da})
        ctx.case(req, bool(ex) and da.strip("n") != "")
        ctx.count("mode:walkabout-departure-raises")
        v = oracle_departure(t, ex, da, out)
        if v:
            ctx.fail("depart-prune:" + v[0], {"tree": t, "exts": ex, "mode": "walkabout", "dacts": da, "impl": out}, v[1])
    ctx.compare("visitor-departure-trace", qreqs, qimpls, qpay)
    # _BaseVisitor.visit / depart: which method handles a class, for visitors defining arbitrary subsets of handlers
    dreqs, dimpls, dpay = [], [], []
    from pydoctor import visitor as V
    pool = ["visit_N", "depart_N", "visit_n", "depart_n", "visit_Low", "depart_Low", "visit_low", "depart_low",
            "visit_SubN", "depart_subn", "visit_other", "depart_Other", "visit_", "depart_", "visit_NN"]
    clsnames = ["N", "Low", "SubN", "Other", "n", "NN", "low"]
    for _ in range(1200 if ctx.quick else 12000):
        defined = sorted(set(ctx.rng.sample(pool, ctx.rng.randint(0, 6))))
        cname = ctx.rng.choice(clsnames)
        got: List[str] = []
        ns: Dict[str, Any] = {}
        for mname in defined:
            ns[mname] = (lambda mname: (lambda self, ob: got.append(mname)))(mname)
        ns["unknown_visit"] = lambda self, ob: got.append("unknown")
        ns["unknown_departure"] = lambda self, ob: got.append("unknown")
        ns["get_children"] = classmethod(lambda cls, ob: [])
        Vis = type("Vis", (V.Visitor,), ns)
        base = type("N", (), {}) if cname == "SubN" else object
        ob = type(cname, (base,), {})()
        v = Vis()
        try:
            V._BaseVisitor.visit(v, ob)
            V._BaseVisitor.depart(v, ob)
            def fam(pre, m):
                if m == "unknown":
                    return "unknown"
                return ("exact:" if m == pre + cname else "lower:") + m
            impl = "ok %s %s" % (fam("visit_", got[0]), fam("depart_", got[1]))
        except Exception as e:
            impl = "Crash:" + type(e).__name__
        dreqs.append("visitor dispatch %s %s" % (cname, ",".join(defined) or "-"))
        dimpls.append(impl)
        dpay.append({"class": cname, "defined": defined})
        ctx.count("dispatch-cases")
        paired = all((("visit_" + x) in defined) == (("depart_" + x) in defined) for x in (cname, cname.lower()))
        if paired and impl.startswith("ok"):
            a, b = impl.split()[1:3]
            if a.split(":")[0] != b.split(":")[0]:
                ctx.fail("dispatch:entered-and-left-through-different-handlers", {"class": cname, "defined": defined},
                         f"handlers defined in pairs, yet {cname} is entered through {a} and left through {b}")
    ctx.compare("visitor-dispatch", dreqs, dimpls, dpay)
    ctx.exhaustive = True
    # builder stream
    nmods = 300 if ctx.quick else 5000
    breqs, bimpls, bpay = [], [], []
    for k in range(nmods + len(BUILDER_CORPUS)):
        src = BUILDER_CORPUS[k] if k < len(BUILDER_CORPUS) else gen_module(ctx.rng)
        try:
            ast.parse(src)
        except SyntaxError:
            ctx.count("builder:unparsable-generated")
            continue
        req, impl, nontriv, outcome, st, verdict = ast_tree_and_run(src)
        breqs.append(req)
        bimpls.append(impl)
        bpay.append({"source": src})
        ctx.case(req, nontriv, {"source": src, "impl": impl} if nontriv and ctx.dist.get("builder:modules", 0) < 2 else None)
        ctx.count("builder:modules")
        if outcome:
            ctx.fail("builder-crash:" + outcome.split(":")[1], {"source": src}, outcome)
        elif st != (0, None):
            ctx.fail("builder-stack-not-empty", {"source": src}, f"after walkabout: depth={st[0]} current={st[1]!r}")
        if verdict:
            ctx.fail("builder-ext:" + verdict[0], {"source": src, "impl": impl}, verdict[1])
        if "Expr(" in ast.dump(ast.parse(src)):
            ctx.count("builder:modules-with-expression-statement")
    ctx.compare("builder-stack", breqs, bimpls, bpay)
    # small packages: a module processed from inside another one (imports), re-exports moving objects meanwhile.
    # No model stream (re-exports are not part of the Visitor model): the direct oracle only.
    nproj = 250 if ctx.quick else 4000
    for k in range(nproj + len(PROJECT_CORPUS)):
        units = PROJECT_CORPUS[k] if k < len(PROJECT_CORPUS) else gen_project(ctx.rng)
        try:
            for src in units.values():
                ast.parse(src)
        except SyntaxError:
            ctx.count("project:unparsable-generated")
            continue
        order = ["pkg"] + (["pkg.a", "pkg.z"] if k < len(PROJECT_CORPUS) or ctx.rng.random() < 0.5 else ["pkg.z", "pkg.a"])
        crash, stacks, open_mods = run_project(units, order)
        ctx.case("project %r %r" % (sorted(units.items()), order), True)
        ctx.count("project:packages")
        inp = {"units": units, "order": order}
        if crash:
            ctx.fail("builder-project:crash:" + crash, inp, f"walking the package aborts with {crash}; builder stacks (depth, current): {stacks}")
        elif any(st != (0, "None") for st in stacks):
            ctx.fail("builder-project:stack-not-empty", inp, f"builder stacks (depth, current) after the build: {stacks}")
        elif open_mods:
            ctx.fail("builder-project:ext-unbalanced", inp, f"a BEFORE extension did not leave what it entered while walking {open_mods}")


def rand_shape(rng, n):
    """random ordered tree with n nodes as nested child lists"""
    parents = [None] + [rng.randrange(i) for i in range(1, n)]
    kids = {i: [] for i in range(n)}
    for i in range(1, n):
        kids[parents[i]].append(i)

    def build(i):
        return [build(k) for k in kids[i]]
    return build(0)


def replay(ctx: Ctx, obj) -> int:
    inp = obj.get("input") or obj.get("request") or {}
    if "tree" in inp:
        t = inp["tree"]
        t = tuple_tree(t)
        pairs = {}
        out = run_impl(t, inp["exts"], inp.get("mode", "walkabout"), late=inp.get("late", 0), kinds=inp.get("kinds", ""), pairs=pairs,
                       dacts=inp.get("dacts", ""))
        if inp.get("kinds"):
            print("node classes:", inp["kinds"], " handler families (enter, leave):", {"%s@%d" % k: v for k, v in sorted(pairs.items())})
        req = "visitor %s %s %s" % (inp.get("mode", "walkabout"), inp["exts"] or "-", tree_tokens(t))
        if inp.get("dacts"):
            req = "visitor walkaboutd %s %s %s" % (inp["exts"] or "-", inp["dacts"], tree_tokens(t))
        print("request:", req)
        print("impl   :", out)
        try:
            print("model  :", ctx.driver.run([req])[0])
        except Exception as e:
            print("model  : unavailable", e)
        v = oracle_departure(t, inp["exts"], inp["dacts"], out) if inp.get("dacts") else oracle(t, inp["exts"], out)
        print("oracle :", v or "property holds on this input")
        return 1 if v else 0
    if "units" in inp:
        crash, stacks, open_mods = run_project(inp["units"], inp["order"])
        print("crash  :", crash)
        print("stacks :", stacks)
        print("modules with an unbalanced extension trace:", open_mods)
        return 1 if crash or open_mods or any(st != (0, "None") for st in stacks) else 0
    if "source" in inp:
        req, impl, _, outcome, st, verdict = ast_tree_and_run(inp["source"])
        print("request:", req)
        print("impl   :", impl)
        print("model  :", ctx.driver.run([req])[0])
        print("oracle :", verdict or "property holds on this input")
        return 0 if st == (0, None) and not outcome and not verdict else 1
    print(obj)
    return 0


def tuple_tree(t):
    return (t[0], t[1], [tuple_tree(c) for c in t[2]])
