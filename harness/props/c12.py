"""C12 — hidden objects leave no trace; private objects are always marked private."""
from __future__ import annotations

from typing import Any, Dict, List, Optional

from ..core import Ctx
from .. import outputcrawl as oc

THEOREMS = ["Privacy.hidden_inherits", "Output.hidden_inherits", "Output.hidden_inside", "Output.entry_visible",
            "Output.no_trace", "Output.no_trace_links", "Output.no_trace_files", "Output.private_marked",
            "Output.public_unmarked", "Output.marker_of",
            "Output.no_trace_writeDocsFor", "Output.no_trace_pages", "Output.no_trace_taglink", "Output.no_trace_ChildTable",
            "Output.no_trace_packageInitTable", "Output.no_trace_methods", "Output.no_trace_submodules",
            "Output.no_trace_unmasked_attrs", "Output.no_trace_baseTables", "Output.no_trace_inherited_members",
            "Output.no_trace_assembleList", "Output.no_trace_overriding_subclasses", "Output.no_trace_sidebar",
            "Output.no_trace_moduleIndex", "Output.no_trace_findRootClasses", "Output.no_trace_subclassesFrom",
            "Output.no_trace_classIndex", "Output.no_trace_nameIndex", "Output.no_trace_search", "Output.no_trace_inventory",
            "Output.no_trace_indexRoots",
            "Output.private_marked_ChildTable", "Output.private_marked_packageInitTable", "Output.private_marked_baseTables",
            "Output.private_marked_childlist", "Output.private_marked_sidebar", "Output.private_marked_moduleIndex",
            "Output.private_marked_allDocuments", "Output.private_marked_nameIndex", "Output.classIndex_marker",
            "Output.private_marked_classIndex", "Output.classRowPrivate_of_ctxPrivate", "Output.private_marked_classIndex_counterexample_old",
            "Output.classNodePrivate_sound", "Output.ctxPrivate_of_private",
            "Output.no_trace_texts_partial", "Output.no_trace_texts_counterexample", "Output.no_trace_named_file",
            "Output.private_marked_undocumentedSummary", "Output.no_trace_alias_counterexample_old",
            "Output.private_marked_undoc_counterexample_old",
            "Output.no_trace_counterexample_old", "Output.no_trace_counterexample_root_old"]
RULE = ("same runs as C11 (scenario projects: hidden base of a visible class, hidden module imported from, hidden member "
        "overridden and cross-referenced, private objects at every level and by rule, hidden roots, hidden nested classes "
        "and constructors, hidden class between a class and its base; plus random Gen projects) under random lists of "
        "--privacy rules (exact names and qnmatch patterns, HIDDEN/PRIVATE/PUBLIC, any order; the same exact name in two or "
        "three rules in both orders, exact-vs-pattern conflicts in both orders, rules for members of hidden containers, "
        "rules in setup.cfg alone or replaced by the command line) x theme x sidebar depth; 4 % of the runs are partial ones "
        "(--html-subject naming a module or class, often inside a hidden container; oracle only). The expected privacy of every "
        "object comes from the rule list through the Lean Privacy model, not from pydoctor. "
        "Direct oracle, from the facts of the real System only: for every object that is not visible - no file named for "
        "it, no anchor, no link whose address or title is the object, no listing cell showing its qualified name, no "
        "all-documents / lunr document, no objects.inv line; for every documented PRIVATE object - every entry found for "
        "it in member tables, member details, sidebar, module index and all-documents carries the private marker. "
        "Correspondence: per producer row the entries with their marker, search documents, inventory lines and the "
        "unlinked class-index root names vs the Lean Output model. Non-trivial = the project has a hidden or private "
        "object and a reference (base, cross-reference, annotation) that crosses a module boundary.")
ASSUMPTIONS = [
    "the expected privacyClass of every object is computed from the rule list the run was given by the Lean Privacy model "
    "(driver stream `privacy cli`: parse_privacy_tuple, exact rules newest first, then patterns newest first, default by "
    "underscore / dunder, `__main__`), propagated through containers by the harness (hidden container or superseded "
    "definition => not visible); pydoctor's own privacyClass / isVisible is only compared with it. The Output model "
    "(correspondence) still takes the privacyClass pydoctor computed as its input",
    "rules given in ./setup.cfg are replaced, not extended, by --privacy values on the command line (configargparse "
    "precedence, C20): the expected rule list is the command line's if it has any, else the configuration file's",
    "a mention = page file, anchor, link (by address or by title), listing cell whose text is the qualified name, search "
    "document, inventory line; source text quoted in a signature (e.g. the base name in `class Vis(_Hid)`) is not a mention",
    "zope.interface 'from' notes and extension-provided extra_info are not generated (unguarded in the code, see notes)",
]
PARTIAL = {
    "Output.no_trace_texts_partial": "the unlinked root nodes of classIndex.html, under: no listed class has an invisible base or an "
                                     "unresolved base expression naming an invisible object (counterexample: "
                                     "no_trace_texts_counterexample; open finding hidden-trace:classindex-root-name). "
                                     "Output.no_trace itself is full: all 30 producer rows, no hypothesis.",
}
EXPLANATION = ("The producer table of DESIGN C12 is a Lean function from the object table to the list of taglink requests and listing "
               "entries; `taglinkGuard` models the visibility guard inside taglink (aaed9bd). No hyperlink targets an invisible "
               "object, whatever the row, and every listing element is written for a visible object only (root rows since 4b6324b); "
               "the only remaining mention of a hidden object is the unlinked base node of classIndex.html: open finding.")

LISTING_NAMES = {"table": "member-table", "detail": "member-details", "sidebar": "sidebar", "sidebar-inherited": "sidebar",
                 "modindex": "module-index", "alldocs": "all-documents", "undoc": "undocumented-summary",
                 "classindex": "class-index", "nameindex": "name-index"}
# listings whose marker is the object's own privacy (undoccedSummary.html would use summary.isPrivate: the object or a container)
OWN_PRIVACY_LISTINGS = {"table", "detail", "sidebar", "sidebar-inherited", "modindex", "alldocs"}


def nontrivial(res) -> bool:
    t: oc.Truth = res["truth"]
    if not any(o["privacy"] in "HR" for o in t.objs):
        return False
    for o in t.objs:
        mo = t.module_of(o)
        refs = list(o.get("xrefs", [])) + list(o.get("annrefs", [])) + [b for b in o.get("bases", []) if b is not None]
        for r in refs:
            if t.module_of(t.objs[r]) is not mo:
                return True
    return False


def oracle(ctx: Ctx, res) -> None:
    t: oc.Truth = res["truth"]
    cr = res["crawl"]
    payload = res["case"]
    if not t.from_rules:
        # no verdict of the rule list (Lean Privacy model unavailable for this run): nothing else is taken as the truth
        ctx.count("oracle-skipped:no-expected-privacy")
        return
    # -- what pydoctor decided must be what the list of rules says (Lean Privacy model, C13), object by object
    words = {"H": "HIDDEN", "R": "PRIVATE", "U": "PUBLIC"}
    for o in t.objs:
        if o["impl_privacy"] != o["privacy"]:
            ctx.fail("privacy-differs-from-rule-list:%s-treated-as-%s" % (words[o["privacy"]], words[o["impl_privacy"]]), payload,
                     "%s is %s by the rules %r but pydoctor treats it as %s" % (
                         o["full"], words[o["privacy"]], oc.effective_rules(payload), words[o["impl_privacy"]]))
        elif o["impl_visible"] != o["visible"]:
            ctx.fail("privacy-differs-from-rule-list:visibility", payload,
                     "%s should be %svisible by the rules %r" % (o["full"], "" if o["visible"] else "in", oc.effective_rules(payload)))
    hidden = [o for o in t.objs if t.hidden(o)]
    hidden_full = {o["full"]: o for o in hidden}
    hidden_url = {oc.canon_url(o["url"]): o for o in hidden if o["url"] is not None}
    files = set(cr["files"])
    # -- pages and anchors
    for o in hidden:
        if o["kind"] in "PMC" and o["url"] is not None:
            fn = oc.unquote(o["url"])
            if fn in files and fn != "index.html":
                ctx.fail("hidden-trace:page-file", payload, "hidden %s has a page %s" % (o["full"], fn))
            # a file named after the object, whatever its address: the single-root alias <root>.html -> index.html
            named = o["full"] + ".html"
            if named != fn and (named in files or any(ln == named for ln, to, ok in cr["symlinks"])):
                ctx.fail("hidden-trace:page-file-alias", payload, "a file %s exists for hidden %s" % (named, o["full"]))
        if o["kind"] in "FA" and o["parent"] is not None:
            par = t.objs[o["parent"]]
            pfn = oc.unquote(par["url"]) if par.get("url") and par["kind"] in "PMC" else None
            pg = cr["pages"].get(pfn) if pfn else None
            if pg is not None and t.documented(par):
                for kind, ref, marked, extra in pg["entries"]:
                    if kind == "detail" and (o["full"] in extra.split("\t")):
                        ctx.fail("hidden-trace:anchor", payload, "hidden %s has member details on %s" % (o["full"], pfn))
    # -- links: by address and by title
    for fn, prod, href, label in oc.all_links(res):
        if not oc.is_relative(href):
            continue
        name = "all-documents" if prod == "alldocs" else oc.PRODUCER_NAMES.get(prod, prod)
        o = hidden_url.get(oc.abs_ref(fn, href))
        if o is None and label in hidden_full:
            o = hidden_full[label]
        if o is not None:
            ctx.fail("hidden-trace:" + name, payload, "%s: %s link %r (%s) targets hidden %s" % (fn, prod, href, label, o["full"]))
    # -- listing cells showing the qualified name without a link
    for fn, pg in cr["pages"].items():
        for where, text in pg["texts"]:
            if where == "interfaceinfo":
                # "overrides pkg.mod.V.hmeth" as plain text after taglink refused the link: counted, not a violation (the
                # property lists pages, anchors, rows of tables / sidebars / indexes, search and inventory entries, hyperlinks)
                if any(w in hidden_full for w in text.split()):
                    ctx.count("plain-text-mention:overrides-note")
                continue
            if text in hidden_full:
                ctx.fail("hidden-trace:%s-name" % where, payload, "%s shows the name of hidden %s" % (fn, text))
    # -- search documents and inventory
    for idx, refs in cr["search"].items():
        for r in refs:
            if r in hidden_full:
                ctx.fail("hidden-trace:search-index", payload, "%s has a document for hidden %s" % (idx, r))
    for name, typ, url in (cr["inventory"] or []):
        if name in hidden_full:
            ctx.fail("hidden-trace:inventory", payload, "objects.inv lists hidden %s" % name)
    # -- private objects are marked in every listing
    priv = {oc.canon_url(o["url"]): o for o in t.objs if o["privacy"] == "R" and t.documented(o) and o["url"] is not None}
    found = 0
    for fn, pg in cr["pages"].items():
        for kind, ref, marked, extra in pg["entries"]:
            if kind not in LISTING_NAMES:
                continue
            if kind == "detail":
                key = pg["page"] + "#" + oc.enc(ref)
            else:
                key = oc.abs_ref(fn, ref)
            o = priv.get(key)
            if o is None:
                continue
            found += 1
            if not marked:
                ctx.fail("private-unmarked:" + LISTING_NAMES[kind], payload,
                         "%s: the %s entry of PRIVATE %s has no private marker" % (fn, kind, o["full"]))
    ctx.count("private-entries-checked", found)
    # -- a property is one thing for the user (and for Python: C.secret.fset / .fdel): pydoctor stores its setter and
    # deleter as sibling functions 'secret.setter' / 'secret.deleter'; they are never more visible than the property
    by_parent_name = {(o["parent"], o["name"]): o for o in t.objs if o.get("incontents", True)}
    for o in t.objs:
        base, dot, acc = o["name"].rpartition(".")
        if not dot or acc not in ("setter", "deleter") or o["kind"] != "F" or o["parent"] is None:
            continue
        prop = by_parent_name.get((o["parent"], base))
        if prop is None or prop["kind"] != "A" or not t.documented(t.objs[o["parent"]]):
            continue
        # what pydoctor did with the accessor (its own isVisible / privacyClass), against what the rules say of the property
        shown = o.get("impl_visible", o["visible"]) and o["id"] in t.reachable
        if t.hidden(prop) and shown:
            ctx.fail("hidden-trace:property-accessor", payload,
                     "%s is documented (anchor, rows, search, inventory) although the property %s is hidden" % (o["full"], prop["full"]))
        elif prop["privacy"] == "R" and o.get("impl_privacy", o["privacy"]) == "U" and shown and not t.hidden(prop):
            ctx.fail("private-unmarked:property-accessor", payload,
                     "%s is listed as public although the property %s is PRIVATE" % (o["full"], prop["full"]))
    # -- and a PUBLIC object is not marked in the listings that use its own privacy
    pub = {oc.canon_url(o["url"]): o for o in t.objs if o["privacy"] == "U" and t.documented(o) and o["url"] is not None}
    for fn, pg in cr["pages"].items():
        for kind, ref, marked, extra in pg["entries"]:
            if kind in OWN_PRIVACY_LISTINGS and marked:
                key = pg["page"] + "#" + oc.enc(ref) if kind == "detail" else oc.abs_ref(fn, ref)
                if key in pub:
                    ctx.fail("public-marked-private:" + LISTING_NAMES[kind], payload,
                             "%s: the %s entry of PUBLIC %s carries the private marker" % (fn, kind, pub[key]["full"]))


def run(ctx: Ctx) -> None:
    total = 350 if ctx.quick else 3000
    rule_lists = 2 if ctx.quick else 3
    batch = 350
    done = 0
    first = True
    while done < total:
        n = min(batch, total - done)
        extra = oc.real_package_cases(ctx.rng) if first else ()
        good = oc.crawl_and_compare(ctx, n, rule_lists, extra_cases=extra, scenarios=first)
        first = False
        done += n
        _account(ctx, good)
        del good


def _account(ctx: Ctx, good) -> None:
    for res in good:
        t = res["truth"]
        nt = nontrivial(res)
        canon = repr((sorted(res["case"]["units"].items()), res["case"].get("path"), res["case"]["privacy"], sorted(res["case"]["opts"].items())))
        ctx.count("case-kind:" + ("corpus" if res["case"]["name"].startswith("corpus:") else "real" if res["case"].get("path")
                                  else "random" if res["case"]["name"].startswith("gen") else "scenario"))
        ctx.case(canon, nt, {"name": res["case"]["name"], "privacy": res["case"]["privacy"], "opts": res["case"]["opts"],
                             "modules": sorted(res["case"]["units"])} if nt else None)
        ctx.count("rules", len(res["case"]["privacy"]))
        for r in res["case"]["privacy"]:
            ctx.count("rule-level:" + r.split(":")[0])
            ctx.count("rule-form:" + ("pattern" if any(c in r for c in "*?[") else "exact"))
        ctx.count("objects", len(t.objs))
        ctx.count("hidden-objects", sum(1 for o in t.objs if t.hidden(o)))
        ctx.count("hidden-by-inheritance", sum(1 for o in t.objs if t.hidden(o) and o["privacy"] != "H"))
        ctx.count("private-objects", sum(1 for o in t.objs if o["privacy"] == "R" and o["visible"]))
        oracle(ctx, res)


def replay(ctx: Ctx, obj) -> int:
    print(obj.get("signature"), "-", obj.get("what"))
    res, secs = oc.replay_case(ctx, obj)
    if res is None:
        return 0
    sub = Ctx("C12", "quick", 0)
    oracle(sub, res)
    for f in sub.failures:
        print("ORACLE:", f["signature"], "x%d" % f["count"], "-", f["what"])
    if secs is not None:
        print("model: hiddenlinks =", secs.get("hiddenlinks", ""))
        print("model: unmarked =", secs.get("unmarked", ""))
    return 0
