"""C05 — inheritance is computed as Python computes it (C3 linearisation, reports, find, docstring sources)."""
from __future__ import annotations

import ast
import contextlib
import io
import inspect
import itertools
import sys
import types
from typing import Any, Dict, List, Optional, Sequence, Tuple

from ..core import Ctx

THEOREMS = [
    "Mro.merge_eq_pmerge", "Mro.pd_eq_cpython_same", "Mro.mro_withObject", "Mro.pd_eq_cpython",
    "Mro.mergeFuel_stable", "Mro.mroFuel_stable",
    "Mro.mro_head", "Mro.mro_nodup", "Mro.mro_mem_iff_ancestor", "Mro.mro_local_precedence",
    "Mro.mro_monotone", "Mro.duplicate_bases_reject", "Mro.reject_reports", "Mro.accept_no_report",
    "Mro.find_eq_lookup", "Mro.docsource_eq_getdoc", "Mro.report_iff_python_rejects",
    "Mro.pd_rejects_iff_cpython_rejects", "Mro.getdoc_is_not_the_mro_walk",
    "Mro.pd_eq_cpython_generic", "Mro.mroEntries_eq_localBases", "Mro.pd_eq_cpython_genericOld_counterexample",
    "Mro.classMro_accept", "Mro.classMro_no_external", "Mro.isException_iff", "Mro.findDunderConstructor_eq_lookup",
    "Mro.overrides_eq_super", "Mro.overriding_sound", "Mro.overriding_nodup", "Mro.overriding_duplicate_counterexample",
    "Mro.inherited_members_iff", "Mro.inherited_attribution",
    "Mro.early_eq_mro", "Mro.findEarly_eq_find", "Mro.findEarly_diamond_counterexample",
    "Mro.docsource_private_name_counterexample", "Mro.inherited_private_iff", "Mro.docsource_same_owns", "Mro.overrides_same_owns",
    "Mro.second_pass_swapped_order_counterexample", "Mro.second_pass_canonical", "Mro.second_pass_trigger_independent", "Mro.second_pass_wrong_scope_counterexample",
]
RULE = ("exhaustive: every hierarchy of n<=5 classes in which class i takes any ordered duplicate-free list of bases "
        "among classes 1..i-1 (10573 hierarchies, 10400 at n=5), plus every hierarchy of n<=4 classes with base lists of "
        "length <=3 containing a repeated base; each run through the real pydoctor.mro.mro, through type(name, bases, {}) "
        "and through both Lean models; random lists of lists through the real mro._merge; generated source trees of 3-12 "
        "classes over 1-3 modules (subscripted generic bases, member m with/without docstring at random levels) through "
        "the real System and through CPython executing the same source; and the same over packages of 2-4 modules that "
        "import each other (only layouts CPython's import system accepts), bases named through aliases bound only in the "
        "declaring module, every processing order of the modules; every hierarchy of n<=4 classes plus random ones as a module with "
        "Exception bases, m/__new__/__init__ members (functions or attributes) and hidden classes through Class.mro(flags), "
        "is_exception, _find_dunder_constructor, get_override_info, overriding_subclasses, inherited_members; hierarchies nested in a "
        "class body whose bases are sibling nested classes, with the same names also bound at module level (class statement "
        "before/after, import) and used there; probes that look a name up through a class during the visit; a deterministic corpus "
        "(corpus/C05: inputs of past findings, shapes of the seeded changes) runs first in each stream. Non-trivial = at least one class has two or "
        "more bases.")
ASSUMPTIONS = [
    "class objects and base-name strings are truthy (`if head and ...` in mro._merge only skips the heads of empty lists); "
    "Documentable defines neither __bool__ nor __len__",
    "hierarchies are acyclic (bases are defined before the class, as Python requires); compute_mro's cycle detection and "
    "the path check of init_finalbaseobjects are not modelled; the second pass of base resolution is modelled (Mro.secondPass) "
    "over the data the AST pass left behind and tied to the real _finalbaseobjects; the linearisation models take the resolved hierarchy",
    "generated classes are plain: object root, no metaclass, no __slots__, no builtin bases, so type() can only fail for MRO "
    "reasons or duplicate bases; a subscripted base is always a typing generic alias (`C[T]` of a Generic class, or `Generic[T]` at any position), "
    "so typing's __mro_entries__ is the filter modelled as PyMro.mroEntries",
    "the run-time docstring reference is attribute lookup along __mro__ (first later class defining the member with a "
    "docstring); inspect.getdoc itself looks the name up with getattr(base, name) per base and can differ — counted, not a failure",
    "in the `uses` stream the only builtin base is Exception (one external name in _STD_LIB_EXCEPTIONS): unresolved bases are opaque "
    "leaves for pydoctor, so relations between builtins (ValueError < Exception) are outside the property",
    "zopeinterface's extra docsources and Class._localNameToFullName/expandName's walk over the MRO (C04's layer) are not modelled here",
    "which class-body statements become members (contents) is the builder's business (C03): the `uses` stream hands the REAL contents to "
    "the model; the oracle judges the attribution against CPython's __dict__ (open findings override-by-name-assignment-not-a-member, "
    "override-by-non-literal-assignment-dropped); which class a base EXPRESSION denotes (Base[T][int], an alias of Base[int]) is "
    "likewise outside the models: direct oracle and CPython model only",
    "an explicit `object` base is an opaque leaf for pydoctor: `class O(object, A)` (Python: TypeError) is outside the property "
    "(its bases are not all documented classes)",
    "a class whose ancestor Python refused to create does not exist at run time; the oracle says nothing about it "
    "(pydoctor reports it too; both models agree on `reject`)",
]
PARTIAL = {
    "compute_mro.init_finalbaseobjects": "modelled as Mro.secondPass over the recorded AST-pass data (raw base names, "
                                         "_initialbaseobjects, resolveName table) and proved trigger independent; that the names "
                                         "denote the classes Python binds is checked by the direct oracle only (import cycles, all "
                                         "processing orders); the path-based cycle check is not modelled",
}
EXPLANATION = ("Theorems over the models of mro.py/model.py and of typeobject.c hold for every acyclic hierarchy; two "
               "correspondences tie the pydoctor model to pydoctor and the CPython model to CPython on the exhaustive "
               "space the property names, a third compares pydoctor with CPython directly.")
MSG = "Cannot compute linearization of the class inheritance hierarchy"


# ------------------------------------------------------------------ generators

def base_choices(k: int) -> List[Tuple[int, ...]]:
    """every ordered duplicate-free list over classes 1..k"""
    res: List[Tuple[int, ...]] = []
    for r in range(k + 1):
        res.extend(itertools.permutations(range(1, k + 1), r))
    return res


def hierarchies(n: int):
    """class i in 1..n takes any ordered duplicate-free list of bases among 1..i-1"""
    return itertools.product(*[base_choices(i - 1) for i in range(1, n + 1)])


def dup_hierarchies(n: int):
    """base lists of length <=3 with repetition allowed; at least one class repeats a base"""
    def seqs(k):
        res = []
        for r in range(4):
            res.extend(itertools.product(range(1, k + 1), repeat=r))
        return res
    for h in itertools.product(*[seqs(i - 1) for i in range(1, n + 1)]):
        if any(len(set(b)) != len(b) for b in h):
            yield h


def htoken(h: Sequence[Sequence[int]]) -> str:
    """hierarchy token: index 0 is `object`"""
    return ";".join(["-"] + [",".join(map(str, b)) or "-" for b in h])


def ltoken(ls: Sequence[Sequence[int]]) -> str:
    return ";".join(",".join(map(str, b)) or "-" for b in ls)


def show(l: Optional[Sequence[int]]) -> str:
    if l is None:
        return "reject"
    return ",".join(map(str, l)) or "-"


def random_hierarchy(rng, n: int, first: int = 1) -> List[Tuple[int, ...]]:
    """bases of classes first..first+n-1 (ids), each among the earlier classes"""
    h: List[Tuple[int, ...]] = []
    for i in range(n):
        earlier = list(range(first, first + i))
        k = min(len(earlier), rng.choice([0, 1, 1, 2, 2, 2, 3, 3, 4]))
        h.append(tuple(rng.sample(earlier, k)))
    return h


# ------------------------------------------------------------------ implementation adapters (bare functions)

class K:
    __slots__ = ("i", "bases")

    def __init__(self, i):
        self.i = i
        self.bases: List["K"] = []


def pd_bare(h: Sequence[Sequence[int]]) -> List[Optional[List[int]]]:
    """real pydoctor.mro.mro on small objects; None = ValueError"""
    from pydoctor import mro as M
    objs = {i + 1: K(i + 1) for i in range(len(h))}
    for i, b in enumerate(h):
        objs[i + 1].bases = [objs[j] for j in b]
    out: List[Optional[List[int]]] = []
    for i in range(1, len(h) + 1):
        try:
            out.append([o.i for o in M.mro(objs[i], lambda o: o.bases)])
        except ValueError:
            out.append(None)
    return out


def py_bare(h: Sequence[Sequence[int]]) -> Tuple[List[Optional[List[int]]], List[str]]:
    """real CPython: type(name, bases, {}).__mro__ with object = 0; None = the class cannot be created"""
    made: Dict[int, type] = {}
    ident: Dict[type, int] = {object: 0}
    out: List[Optional[List[int]]] = []
    why: List[str] = []
    for i, b in enumerate(h):
        c = i + 1
        if any(j not in made for j in b):
            out.append(None)
            why.append("ancestor")
            continue
        try:
            t = type("C%d" % c, tuple(made[j] for j in b), {})
        except TypeError as e:
            out.append(None)
            why.append("duplicate" if "duplicate base" in str(e) else "mro" if "MRO" in str(e) else "other:" + str(e)[:40])
            continue
        made[c] = t
        ident[t] = c
        out.append([ident[k] for k in t.__mro__])
        why.append("ok")
    return out, why


def bare_oracle(ctx: Ctx, h, pd, py, why) -> None:
    """S: pydoctor's linearisation is Python's (object dropped), rejection coincides"""
    for c, (a, b, w) in enumerate(zip(pd, py, why), start=1):
        if w.startswith("other"):
            ctx.fail("cpython-unexpected-error", {"hierarchy": list(map(list, h)), "class": c}, w)
        elif w == "ancestor":
            continue
        elif b is None:
            if a is not None:
                ctx.fail("accepts-what-python-rejects:" + w, {"hierarchy": list(map(list, h)), "class": c},
                         f"Python rejects class {c} ({w}) but pydoctor.mro.mro returns {a}")
        elif a is None:
            ctx.fail("rejects-what-python-accepts", {"hierarchy": list(map(list, h)), "class": c},
                     f"Python's MRO of class {c} is {b} but pydoctor.mro.mro raises ValueError")
        elif a + [0] != b:
            ctx.fail("mro-differs", {"hierarchy": list(map(list, h)), "class": c},
                     f"class {c}: pydoctor {a}, Python {b}")


# ------------------------------------------------------------------ full path

def DOCTEXT(rng, c: int, empty: bool) -> str:
    if empty:
        return rng.choice(['""', "'''   '''", '"""\n        """', "''"])
    return "'''doc of C%d'''" % c


GENERIC = 1   # class id of typing.Generic in the full-path streams (object = 0, own classes from 2)


def gen_project(rng, nclasses: int, generic_anywhere: bool = False, h=None, variant: Optional[str] = None) -> Dict[str, Any]:
    """a hierarchy spread over modules, as source text.  ids: 0 object, 1 typing.Generic, 2.. classes C2..
    `h` (bases over classes 1..n, as the exhaustive enumeration yields them) is shifted by one when given."""
    first = 2
    if h is None:
        h = random_hierarchy(rng, nclasses, first)
    else:
        h = [tuple(j + 1 for j in b) for b in h]
    ids = list(range(first, first + nclasses))
    generic = {c: rng.random() < 0.35 for c in ids}
    nmod = rng.randint(1, 3)
    cuts = sorted(rng.randrange(nclasses + 1) for _ in range(nmod - 1))
    modof = {}
    for idx, c in enumerate(ids):
        modof[c] = sum(1 for x in cuts if x <= idx)
    own = {c: rng.random() < 0.5 for c in ids}
    doc = {c: own[c] and rng.random() < 0.6 for c in ids}
    # an override with an explicitly empty / whitespace-only docstring (the idiom that suppresses an inherited one)
    empty = {c: doc[c] and rng.random() < 0.3 for c in ids}
    nvariant = 0
    if variant:
        generic = {c: rng.random() < 0.7 for c in ids}
    bases: Dict[int, List[int]] = {}
    subs: Dict[int, List[int]] = {}
    mods: Dict[int, List[str]] = {m: ["from typing import Generic, TypeVar\n", "T = TypeVar('T')\n"] for m in range(nmod)}
    imported: Dict[int, Dict[int, str]] = {m: {} for m in range(nmod)}   # module -> class id -> local spelling
    for c, b in zip(ids, h):
        m = modof[c]
        exprs = []
        for j in b:
            if modof[j] == m:
                name = "C%d" % j
            else:
                if j not in imported[m]:
                    style = rng.randrange(3)
                    if style == 0:
                        mods[m].append("from m%d import C%d\n" % (modof[j], j))
                        imported[m][j] = "C%d" % j
                    elif style == 1:
                        mods[m].append("import m%d\n" % modof[j])
                        imported[m][j] = "m%d.C%d" % (modof[j], j)
                    else:
                        mods[m].append("from m%d import C%d as B%d\n" % (modof[j], j, j))
                        imported[m][j] = "B%d" % j
                name = imported[m][j]
            if generic[j] and variant == "twice" and rng.random() < 0.7:
                name += "[T][int]"            # subscripted twice: the same class as C[int]
                nvariant += 1
            elif generic[j] and variant == "alias" and rng.random() < 0.7:
                mods[m].append("A%d_%d = %s[int]\n" % (j, c, name))     # an alias of the subscripted generic
                name = "A%d_%d" % (j, c)
                nvariant += 1
            elif generic[j] and rng.random() < 0.6:
                name += rng.choice(["[T]", "[int]"])
            exprs.append(name)
        blist = list(b)
        if generic[c]:
            pos = rng.randrange(len(exprs) + 1) if generic_anywhere else len(exprs)
            exprs.insert(pos, "Generic[T]")
            blist.insert(pos, GENERIC)
        bases[c] = blist
        subs[c] = [1 if e.endswith("]") else 0 for e in exprs]
        head = "class C%d%s:\n" % (c, "(%s)" % ", ".join(exprs) if exprs else "")
        if own[c]:
            body = "    def m(self):\n        %s\n" % (DOCTEXT(rng, c, empty[c]) if doc[c] else "pass")
        else:
            body = "    pass\n"
        mods[m].append(head + body)
    return {"n": nclasses, "bases": {str(c): bases[c] for c in ids}, "subs": {str(c): subs[c] for c in ids}, "modules": {"m%d" % m: "".join(mods[m]) for m in range(nmod)},
            "own": [c for c in ids if own[c]], "doc": [c for c in ids if doc[c]], "empty": [c for c in ids if empty[c]],
            "order": rng.sample(["m%d" % m for m in range(nmod)], nmod), "variant": variant if nvariant else None}


def project_tokens(p) -> Tuple[str, str, str]:
    """H and SUB (which bases are written as subscripts) as one string `H SUB`, OWN, DOC"""
    ids = sorted(int(c) for c in p["bases"])
    h = [[], []] + [p["bases"][str(c)] for c in ids]
    subs = p.get("subs") or {str(c): [1 if b == GENERIC else 0 for b in p["bases"][str(c)]] for c in ids}
    sb = [[], []] + [subs[str(c)] for c in ids]
    return (ltoken(h) + " " + ltoken(sb), ",".join(map(str, p["own"])) or "-",
            (",".join(map(str, p["doc"])) or "-") + " " + (",".join(map(str, p.get("empty", []))) or "-"))


def pd_full(p, order: Optional[Sequence[str]] = None) -> Tuple[Dict[int, Dict[str, Any]], Optional[str]]:
    """the real pydoctor on the source text; `order` = the order in which System.process meets the modules
    (system.unprocessed_modules is permuted before buildModules; a package stays before its modules)"""
    from pydoctor import model
    from pydoctor.templatewriter import util
    get_docstring = getattr(model, "get_docstring", None)
    if get_docstring is None:
        from pydoctor.epydoc2stan import get_docstring
    reports: List[Tuple[str, str, str]] = []
    orig = model.Documentable.report

    def spy(self, descr, section="parsing", lineno_offset=0, thresh=-1):
        reports.append((self.fullName(), section, descr))
        return orig(self, descr, section, lineno_offset, thresh)
    model.Documentable.report = spy   # type: ignore
    try:
        system = model.System()
        builder = system.systemBuilder(system)
        pkg = p.get("package")
        if pkg:
            builder.addModuleString("", pkg, is_package=True)
        for name in (order or p["order"]):
            builder.addModuleString(p["modules"][name], name, parent_name=pkg)
        builder.buildModules()
    except Exception as e:
        return {}, "Crash:" + type(e).__name__ + ":" + str(e)[:80]
    finally:
        model.Documentable.report = orig   # type: ignore

    def ident(o) -> int:
        if isinstance(o, str):
            return GENERIC if o == "typing.Generic" else -1
        return int(o.name[1:]) if o.name[1:].isdigit() else -2     # -2: a decoy class that only rebinds a name
    res: Dict[int, Dict[str, Any]] = {}
    # what compute_mro's second pass (init_finalbaseobjects) started from and what it left behind
    allcls = list(system.objectsOfType(model.Class))
    cidx = {o: i for i, o in enumerate(allcls)}
    scopes = list(dict.fromkeys(o.parent for o in allcls))
    names: Dict[str, int] = {}
    for o in allcls:
        for nm, _ in o.rawbases:
            names.setdefault(nm, len(names))
    triples = []
    for si, sc in enumerate(scopes):
        for nm, ni in names.items():
            r = sc.resolveName(nm)
            if isinstance(r, model.Class) and r in cidx:
                triples.append("%d,%d,%d" % (si, ni, cidx[r]))

    def found(nm):
        # what the second pass tries first: system.find_object(expanded name), LookupError -> None
        try:
            return system.find_object(nm)
        except LookupError:
            return None

    for o in allcls:
        if o._finalbaseobjects is not None:
            for nm, ini, fin in zip(o._initialbases, o._initialbaseobjects, o._finalbaseobjects):
                if ini is None and isinstance(fin, model.Class):
                    COUNTS["second-pass:base resolved by " + ("find_object(expanded name)" if isinstance(found(nm), model.Class)
                                                                else "parent.resolveName(raw name)")] += 1

    def cell(b) -> str:
        return "0" if not isinstance(b, model.Class) or b not in cidx else str(cidx[b] + 1)
    res[-1] = {"second": (
        "mro second %s %s %s %s %s %s" % (
            ",".join(str(scopes.index(o.parent)) for o in allcls) or "-",
            ";".join(",".join(str(names[nm]) for nm, _ in o.rawbases) or "-" for o in allcls) or "-",
            ";".join(",".join(cell(b) for b in o._initialbaseobjects) or "-" for o in allcls) or "-",
            ";".join(",".join(cell(found(nm)) for nm in o._initialbases) or "-" for o in allcls) or "-",
            ";".join(triples) or "-",
            ",".join(str(i) for i in range(len(allcls))) or "-"),
        "|".join("N" if o._finalbaseobjects is None else (",".join(cell(b) for b in o._finalbaseobjects) or "-")
                 for o in allcls))}
    by_name = {o.name: o for o in system.objectsOfType(model.Class)}
    for cs in p["bases"]:
        c = int(cs)
        o = by_name.get("C%d" % c)
        if o is None:
            res[c] = {"missing": True}
            continue
        found = o.find("m")
        src = "x"
        if "m" in o.contents:
            s = get_docstring(o.contents["m"])[1]
            src = ident(s.parent) if s is not None else None
        res[c] = {
            "mro": [ident(x) for x in o.mro(True)],
            "mro_internal": [ident(x) for x in o.mro()],
            "reports": [r for r in reports if r[0] == o.fullName() and r[1] == "mro"],
            "find": ident(found.parent) if found is not None else None,
            "docsrc": src,
            "documented": o.fullName() in system.allobjects and o.isVisible,
            "late": any(b is None for b in o._initialbaseobjects),   # a base only resolved by compute_mro's second pass
            # the class page's "inherited from" tables: templatewriter.util.inherited_members
            "inherited": [ident(x.parent) for x in util.inherited_members(o) if x.name == "m"],
        }
    return res, None


def py_full(p) -> Dict[int, Dict[str, Any]]:
    """CPython on the same source: synthetic modules, each top-level statement executed on its own so that a
    refused class statement does not hide the rest"""
    names = sorted(p["modules"])
    saved = {n: sys.modules.get(n) for n in names}
    status: Dict[int, str] = {}
    mods = {}
    try:
        for n in names:          # m0 first: a module only imports from lower-numbered ones
            mod = types.ModuleType(n)
            sys.modules[n] = mod
            mods[n] = mod
            for st in ast.parse(p["modules"][n]).body:
                code = compile(ast.Module(body=[st], type_ignores=[]), n, "exec")
                try:
                    exec(code, mod.__dict__)
                    if isinstance(st, ast.ClassDef):
                        status[int(st.name[1:])] = "ok"
                except TypeError as e:
                    if isinstance(st, ast.ClassDef):
                        s = str(e)
                        status[int(st.name[1:])] = ("duplicate" if "duplicate base" in s else "mro" if "MRO" in s
                                                    else "other:" + s[:60])
                except (NameError, ImportError, AttributeError):
                    if isinstance(st, ast.ClassDef):
                        status[int(st.name[1:])] = "ancestor"
        return _py_results(p, mods, status)
    finally:
        for n in names:
            if saved[n] is None:
                sys.modules.pop(n, None)
            else:
                sys.modules[n] = saved[n]


def _py_results(p, mods, status) -> Dict[int, Dict[str, Any]]:
    """what CPython made of the classes (must run while the modules are still in sys.modules: inspect.getdoc)"""
    if True:
        import typing
        classes: Dict[int, type] = {}
        for n, mod in mods.items():
            for k, v in mod.__dict__.items():
                if isinstance(v, type) and v.__module__ == mod.__name__ and k == v.__name__ and k[0] == "C":
                    classes[int(k[1:])] = v
        ident = {v: k for k, v in classes.items()}
        ident[object] = 0
        ident[typing.Generic] = GENERIC
        res: Dict[int, Dict[str, Any]] = {}
        for cs in p["bases"]:
            c = int(cs)
            st = status.get(c, "ancestor")
            if st != "ok":
                res[c] = {"status": st}
                continue
            t = classes[c]
            owner = next((k for k in t.__mro__ if "m" in k.__dict__), None)
            src: Any = "x"
            getdoc: Any = "x"
            if "m" in t.__dict__:
                # attribute lookup along the order: own docstring, else the next definition that has one
                src = next((ident[k] for k in t.__mro__ if "m" in k.__dict__ and k.__dict__["m"].__doc__ is not None), None)
                d = inspect.getdoc(t.__dict__["m"])
                getdoc = None if d is None else int(d.split("C")[1]) if d.strip() else "e"   # "e": an empty docstring
            res[c] = {"status": "ok", "mro": [ident[k] for k in t.__mro__],
                      "find": ident[owner] if owner is not None else None, "docsrc": src, "getdoc": getdoc}
        return res


# ------------------------------------------------------------------ full path, modules that import each other

PKG = "c05pkg"
import collections
COUNTS: Dict[str, int] = collections.Counter()     # measured inside the adapters, copied to ctx.count at the end of run()


def gen_cyclic(rng, nclasses: int, h=None, spread: bool = False) -> Dict[str, Any]:
    """like gen_project, but the classes are dealt to the modules of a package at random (not in definition
    order), the modules import each other at their top (`from pkg import mod` / `import pkg.mod`) and a base from
    another module is reached through a name bound only in the declaring module (`from pkg.mod import C as Base_c`
    written just before the class that needs it, `C`, `mod.C` or `pkg.mod.C`)."""
    first = 2
    if h is None:
        h = random_hierarchy(rng, nclasses, first)
    else:
        h = [tuple(j + 1 for j in b) for b in h]
    ids = list(range(first, first + nclasses))
    if spread:
        # one class per module (module numbers shuffled), every module imports the modules of its direct subclasses
        # at its top: whichever module pydoctor starts with, it tends to meet a subclass before its base
        nmod = nclasses
        nums = rng.sample(range(nmod), nmod)
        modof = {c: nums[i] for i, c in enumerate(ids)}
    else:
        nmod = rng.randint(2, 4)
        modof = {c: rng.randrange(nmod) for c in ids}
    generic = {c: rng.random() < 0.2 for c in ids}
    own = {c: rng.random() < 0.6 for c in ids}
    doc = {c: own[c] and rng.random() < 0.6 for c in ids}
    # an override with an explicitly empty / whitespace-only docstring (the idiom that suppresses an inherited one)
    empty = {c: doc[c] and rng.random() < 0.3 for c in ids}
    tops: Dict[int, List[str]] = {m: [] for m in range(nmod)}
    body: Dict[int, List[str]] = {m: [] for m in range(nmod)}
    modimp: Dict[int, Dict[int, str]] = {m: {} for m in range(nmod)}     # module -> other module -> spelling of it
    submods = {m: set() for m in range(nmod)}
    for c, b in zip(ids, h):
        for j in b:
            submods[modof[j]].add(modof[c])
    for m in range(nmod):
        for o in range(nmod):
            if o != m and rng.random() < ((0.85 if o in submods[m] else 0.15) if spread else 0.5):
                if rng.random() < 0.7:
                    tops[m].append("from %s import m%d\n" % (PKG, o))
                    modimp[m][o] = "m%d" % o
                else:
                    tops[m].append("import %s.m%d\n" % (PKG, o))
                    modimp[m][o] = "%s.m%d" % (PKG, o)
    imported: Dict[int, Dict[int, str]] = {m: {} for m in range(nmod)}
    bases: Dict[int, List[int]] = {}
    subs: Dict[int, List[int]] = {}
    rebound: List[int] = []
    spent: Dict[Tuple[int, int], List[str]] = {}
    for c, b in zip(ids, h):
        m = modof[c]
        exprs = []
        for j in b:
            if modof[j] == m:
                name = "C%d" % j
            elif j in imported[m]:
                name = imported[m][j]
            else:
                style = rng.choice([1, 4, 4, 4, 0, 3]) if spread else rng.randrange(5)
                via = [o for o in range(nmod) if o != m and o != modof[j]]
                if style == 4 and via:
                    # two hops: a third module re-imports the class under another name; the name as expanded in the
                    # declaring module (pkg.mi.Via_j) is then no object's full name, only resolveName gets there
                    mi = rng.choice(via)
                    name = "Base_%d" % j if (m, j) not in spent else "Base_%d_%d" % (j, len(spent[(m, j)]))
                    body[mi].append("from %s.m%d import C%d as Via_%d_%d\n" % (PKG, modof[j], j, j, c))
                    body[m].append("from %s.m%d import Via_%d_%d as %s\n" % (PKG, mi, j, c, name))
                elif style == 3 and modof[j] in modimp[m]:
                    name = "%s.C%d" % (modimp[m][modof[j]], j)      # attribute of the module imported at the top
                elif style == 0:
                    body[m].append("from %s.m%d import C%d\n" % (PKG, modof[j], j))
                    name = "C%d" % j
                else:
                    # a fresh alias after the previous one was rebound by a def/class/assignment: pydoctor's scope keeps
                    # a definition in front of a later import of the same name (name resolution, C04's layer)
                    name = "Base_%d" % j if (m, j) not in spent else "Base_%d_%d" % (j, len(spent[(m, j)]))
                    body[m].append("from %s.m%d import C%d as %s\n" % (PKG, modof[j], j, name))
                imported[m][j] = name
            if generic[j] and rng.random() < 0.5:
                name += rng.choice(["[T]", "[int]"])
            exprs.append(name)
        blist = list(b)
        if generic[c]:
            exprs.append("Generic[T]")
            blist.append(GENERIC)
        bases[c] = blist
        subs[c] = [1 if e.endswith("]") else 0 for e in exprs]
        head = "class C%d%s:\n" % (c, "(%s)" % ", ".join(exprs) if exprs else "")
        if own[c]:
            text = "    def m(self):\n        %s\n" % (DOCTEXT(rng, c, empty[c]) if doc[c] else "pass")
        else:
            text = "    pass\n"
        body[m].append(head + text)
        # the name the class statement used for a base is bound again further down in the same scope: Python took the
        # class the name denoted at the statement; pydoctor's post-processing sees the final state of the scope
        aliases = [j for j in b if imported[m].get(j, "").startswith("Base_")]
        if aliases and rng.random() < 0.35:
            j = rng.choice(aliases)
            name = imported[m].pop(j)
            spent.setdefault((m, j), []).append(name)
            others = [q for q in ids if q < c and q != j and modof[q] != m]
            kind = rng.randrange(4)
            if kind == 0 and others:
                q = rng.choice(others)
                body[m].append("from %s.m%d import C%d as %s\n" % (PKG, modof[q], q, name))
            elif kind == 1:
                body[m].append("class %s:\n    def m(self):\n        '''decoy'''\n" % name)
            elif kind == 2:
                body[m].append("def %s():\n    pass\n" % name)
            else:
                body[m].append("%s = None\n" % name)
            rebound.append(c)
    mods = {"m%d" % m: "".join(tops[m]) + "from typing import Generic, TypeVar\nT = TypeVar('T')\n" + "".join(body[m])
            for m in range(nmod)}
    return {"n": nclasses, "package": PKG, "bases": {str(c): bases[c] for c in ids}, "subs": {str(c): subs[c] for c in ids}, "modules": mods,
            "own": [c for c in ids if own[c]], "doc": [c for c in ids if doc[c]], "empty": [c for c in ids if empty[c]], "order": sorted(mods),
            "rebound": rebound}


def py_cyclic(p, rng) -> Optional[Tuple[Dict[int, Dict[str, Any]], List[str]]]:
    """CPython's own import system on the package (sources served by a meta-path finder).  Tries module orders as
    entry points until every module imports; None = Python cannot import this layout.  A class statement Python
    refuses (TypeError) is recorded and execution goes on, anything else aborts the import."""
    import importlib
    import importlib.abc
    import importlib.util
    pkg = p["package"]
    sources = {pkg: ""}
    sources.update({"%s.%s" % (pkg, n): src for n, src in p["modules"].items()})
    status: Dict[int, str] = {}

    class Loader(importlib.abc.Loader):
        def __init__(self, name):
            self.name = name

        def create_module(self, spec):
            return None

        def exec_module(self, module):
            for st in ast.parse(sources[self.name]).body:
                code = compile(ast.Module(body=[st], type_ignores=[]), self.name, "exec")
                try:
                    exec(code, module.__dict__)
                    if isinstance(st, ast.ClassDef):
                        status[int(st.name[1:])] = "ok"
                except TypeError as e:
                    if not isinstance(st, ast.ClassDef):
                        raise
                    t = str(e)
                    status[int(st.name[1:])] = ("duplicate" if "duplicate base" in t else "mro" if "MRO" in t
                                                else "other:" + t[:60])

    class Finder(importlib.abc.MetaPathFinder):
        def find_spec(self, fullname, path, target=None):
            if fullname in sources:
                return importlib.util.spec_from_loader(fullname, Loader(fullname), is_package=(fullname == pkg))
            return None

    def purge():
        for k in [k for k in sys.modules if k == pkg or k.startswith(pkg + ".")]:
            del sys.modules[k]
    names = sorted(p["modules"])
    orders = list(itertools.permutations(names))
    rng.shuffle(orders)
    finder = Finder()
    sys.meta_path.insert(0, finder)
    try:
        for od in orders[:12]:
            purge()
            status.clear()
            try:
                for n in od:
                    importlib.import_module("%s.%s" % (pkg, n))
            except Exception:
                continue
            mods = {n: sys.modules["%s.%s" % (pkg, n)] for n in names}
            return _py_results(p, mods, dict(status)), list(od)
        return None
    finally:
        purge()
        sys.meta_path.remove(finder)


# ------------------------------------------------------------------ consumers of the linearisation

NAMES = ["m", "__new__", "__init__", "__p"]      # __p: a class-private name (mangled by Python)
USES_SIG = {"name": "override-by-name-assignment-not-a-member", "call": "override-by-non-literal-assignment-dropped",
            "private": "class-private-name-related-across-classes"}
EXC = 1     # class id of the builtin `Exception` in the `uses` stream (object = 0, own classes from 2)


def gen_uses(rng, nclasses: int, h=None, flavour: Optional[str] = None) -> Dict[str, Any]:
    """one module; some classes derive from the builtin Exception (last base), members m / __new__ / __init__ as
    functions or plain attributes at random levels, some classes hidden through the privacy option"""
    first = 2
    if h is None:
        h = random_hierarchy(rng, nclasses, first)
    else:
        h = [tuple(j + 1 for j in b) for b in h]
    ids = list(range(first, first + nclasses))
    lines = []
    phantom: List[int] = []
    bases, contents, funcs = {}, {}, {}
    for c, b in zip(ids, h):
        bl = list(b)
        exprs = ["C%d" % j for j in b]
        if rng.random() < (0.35 if not b else 0.1):
            bl.append(EXC)
            exprs.append("Exception")
        bases[c] = bl
        names = [n for n in rng.sample(range(3), 3) if rng.random() < (0.5 if n == 0 else 0.3)]
        contents[c], funcs[c] = names, []
        body = []
        for n in names:
            if rng.random() < 0.75:
                funcs[c].append(n)
                if n == 0:
                    body.append("    def m(self):\n        \"doc of C%d\"\n" % c)
                elif n == 1:
                    body.append("    def __new__(cls, a: int):\n        return super().__new__(cls)\n")
                else:
                    body.append("    def __init__(self, b: str):\n        pass\n")
            elif flavour == "name" and n == 0 and rng.random() < 0.8:
                body.append("    %s = %s\n" % (NAMES[n], "modf" if n == 0 and rng.random() < 0.5 else "K0"))   # value is a NAME
            elif flavour == "call" and n == 0 and rng.random() < 0.8:
                body.append("    %s = make()\n" % NAMES[n])                                            # value is a call
            else:
                body.append("    %s = None\n" % NAMES[n])
        if flavour == "private" and rng.random() < 0.6:
            names.append(3)
            funcs[c].append(3)
            body.append("    def __p(self):\n        %s\n" % ('"doc of C%d"' % c if rng.random() < 0.5 else "pass"))
        if flavour is None and 0 not in names and rng.random() < 0.06:
            # epytext field naming a member the class does not define: pydoctor creates a hidden phantom Attribute
            phantom.append(c)
            body.insert(0, '    """\n    @type m: int\n    """\n')
        lines.append("class C%d%s:\n%s" % (c, "(%s)" % ", ".join(exprs) if exprs else "", "".join(body) or "    pass\n"))
    hidden = [c for c in ids if rng.random() < 0.12]
    if flavour:
        lines.insert(0, "K0 = 1\ndef modf(self):\n    \"doc of modf\"\ndef make():\n    return lambda self: None\n")
    return {"n": nclasses, "phantom": phantom, "flavour": flavour, "bases": {str(c): bases[c] for c in ids}, "contents": {str(c): contents[c] for c in ids},
            "funcs": {str(c): funcs[c] for c in ids}, "hidden": hidden, "modules": {"m0": "".join(lines)}}


def uses_request(p, order: List[int], cont: Dict[int, List[int]], funcs: Dict[int, List[int]]) -> str:
    """CONT / FUNC are what the real class bodies recorded (which assignment becomes a member is the builder's business,
    C03); the model is about what the consumers of the linearisation make of these contents"""
    ids = sorted(int(c) for c in p["bases"])
    h = [[], []] + [p["bases"][str(c)] for c in ids]
    sb = [[], []] + [[0] * len(p["bases"][str(c)]) for c in ids]
    ph = p.get("phantom", [])
    ct = [[], []] + [cont[c] for c in ids]
    fn = [[], []] + [funcs[c] for c in ids]
    return "mro uses %s %s %d %d %s %s %s %s %s 3" % (ltoken(h), ltoken(sb), EXC, EXC, ltoken(ct), ltoken(fn),
                                                      ",".join(map(str, p["hidden"])) or "-", ",".join(map(str, order)) or "-",
                                                      ",".join(map(str, ph)) or "-")


def pd_uses(p) -> Tuple[Optional[str], List[int], Dict[int, Dict[str, Any]], Optional[str]]:
    """the real functions: Class.mro flags, is_exception, _find_dunder_constructor, get_override_info,
    overriding_subclasses, inherited_members"""
    from pydoctor import model
    from pydoctor.templatewriter import util, pages
    try:
        system = model.System()
        system.options.privacy = [(model.PrivacyClass.HIDDEN, "m0.C%d" % c) for c in p["hidden"]]
        builder = system.systemBuilder(system)
        builder.addModuleString(p["modules"]["m0"], "m0")
        builder.buildModules()
    except Exception as e:
        return None, [], {}, "Crash:" + type(e).__name__ + ":" + str(e)[:80]

    def ident(o) -> int:
        if isinstance(o, str):
            return EXC if o == "Exception" else -1
        return int(o.name[1:])
    allcls = list(system.objectsOfType(model.Class))
    order = [ident(o) for o in allcls]
    by = {ident(o): o for o in allcls}
    out, res = [], {}
    for cs in sorted(int(c) for c in p["bases"]):
        o = by[cs]
        saved = o._mro
        o._mro = None
        try:
            early1 = [ident(x) for x in o.mro(True, True)]
            early0 = [ident(x) for x in o.mro(include_self=False)]
        finally:
            o._mro = saved
        ctor = model._find_dunder_constructor(o)
        ov = None
        for t in pages.get_override_info(o, "m"):
            kids = t.children
            if kids and kids[0] == "overrides ":
                ov = kids[1].children[0].children[0].rsplit(".", 2)[-2]
        over = [ident(x) for x in util.overriding_subclasses(o, "m")]
        inh = [(ident(x.parent), NAMES.index(x.name)) for x in util.inherited_members(o) if x.name in NAMES]
        r_cont = [NAMES.index(n) for n in o.contents if n in NAMES]
        r_func = [NAMES.index(n) for n, x in o.contents.items() if n in NAMES and isinstance(x, model.Function)]
        if "__p" in o.contents and o.contents["__p"].docstring is not None:
            r_func.append(103)      # protocol: name + 100 in FUNC = that member has a docstring
        povr, pdoc, pfield = None, "x", "x"
        if "__p" in o.contents:
            import re

            def texts(node):
                if isinstance(node, str):
                    yield node
                elif isinstance(node, (list, tuple)):
                    for k in node:
                        yield from texts(k)
                elif hasattr(node, "children"):
                    yield from texts(node.children)
            p_ovr, p_in = None, []
            for t in pages.get_override_info(o, "__p"):
                tx = list(texts(t))
                povr = " ".join(tx)[:40]
                cls_ids = [int(m.group(1)) for x in tx for m in [re.search(r"C(\d+)", x)] if m]
                if tx and tx[0].startswith("overrides"):
                    p_ovr = cls_ids[0] if cls_ids else -1
                else:
                    p_in = cls_ids
            sd = model.get_docstring(o.contents["__p"])[1]
            pdoc = ident(sd.parent) if sd is not None else None
            pfield = "%s;%s;%s" % (opt(p_ovr), show(sorted(p_in)), opt(pdoc))

        r = {"exc": bool(model.is_exception(o)), "kind_exc": o.kind is model.DocumentableKind.EXCEPTION,
             "ctor": (ident(ctor.parent), NAMES.index(ctor.name)) if ctor is not None else None,
             "overrides": int(ov[1:]) if ov else None, "over": over, "inh": inh,
             "params": list(o.constructor_params), "cont": r_cont, "func": r_func, "p_override_info": povr, "p_docsrc": pdoc}
        res[cs] = r
        out.append(":".join([
            show([ident(x) for x in o.mro(False, True)]), show([ident(x) for x in o.mro(True, False)]),
            show([ident(x) for x in o.mro(False, False)]), show(early1), show(early0),
            "1" if r["exc"] else "0", "%d.%d" % r["ctor"] if r["ctor"] else "-", opt(r["overrides"]), show(over),
            ",".join("%d.%d" % x for x in inh) or "-", pfield]))
    return "|".join(out), order, res, None


def py_uses(p) -> Dict[int, Dict[str, Any]]:
    """what CPython makes of the same module, read off __mro__ / __dict__ / __bases__ (the property's meaning)"""
    mod = types.ModuleType("m0")
    status: Dict[int, str] = {}
    for st in ast.parse(p["modules"]["m0"]).body:
        if not isinstance(st, ast.ClassDef):
            exec(compile(ast.Module(body=[st], type_ignores=[]), "m0", "exec"), mod.__dict__)
            continue
        try:
            exec(compile(ast.Module(body=[st], type_ignores=[]), "m0", "exec"), mod.__dict__)
            status[int(st.name[1:])] = "ok"
        except TypeError as e:
            status[int(st.name[1:])] = "mro" if "MRO" in str(e) else "other:" + str(e)[:60]
        except NameError:
            status[int(st.name[1:])] = "ancestor"
    classes = {int(k[1:]): v for k, v in mod.__dict__.items() if isinstance(v, type) and k[0] == "C"}
    ident = {v: k for k, v in classes.items()}
    hidden = set(p["hidden"])
    res: Dict[int, Dict[str, Any]] = {}
    all_ok = all(v == "ok" for v in status.values())
    # `@type m:` in the docstring of a class that inherits a *variable* m declares (re-types) that variable for the
    # class, like @ivar would (pydoctor's own test_ivar_overriding_attribute): such a class counts as defining m.
    # For an inherited method, or nothing, the field declares nothing.
    declared: set = set()

    def defines(k, name):
        return name in k.__dict__ or (name == "m" and ident.get(k) in declared)
    for c in sorted(p.get("phantom", [])):
        t = classes.get(c)
        if t is not None:
            k = next((k for k in t.__mro__[1:] if k in ident and defines(k, "m")), None)
            if k is not None and 0 not in p["funcs"][str(ident[k])]:
                declared.add(c)
    for c, t in classes.items():
        gens = [k for k in t.__mro__ if k in ident]

        def owner(name, seq):
            return next((k for k in seq if defines(k, name)), None)
        pname = "_%s__p" % t.__name__
        ctor = None
        k = owner("__new__", gens)
        if k is not None:
            if isinstance(k.__dict__["__new__"], staticmethod):
                ctor = (ident[k], 1)
        else:
            k = owner("__init__", gens)
            if k is not None and isinstance(k.__dict__["__init__"], types.FunctionType):
                ctor = (ident[k], 2)
        ov = owner("m", gens[1:])
        inh = set()
        for i, n in enumerate(NAMES[:3]):
            k = owner(n, gens)
            if k is not None and k is not t and ident[k] not in hidden:
                inh.add((ident[k], i))
        for k in gens[1:]:      # a class-private name is a different attribute in every class: nothing masks it
            if "_%s__p" % k.__name__ in k.__dict__ and ident[k] not in hidden:
                inh.add((ident[k], 3))
        pdoc: Any = "x"
        if pname in t.__dict__:
            pdoc = c if t.__dict__[pname].__doc__ is not None else None
        over = None
        if all_ok:
            # D overrides c.m: D defines m, and some chain of class statements c <- p1 <- ... <- D has no class in
            # between that defines m; every class on the way down is visible
            over = set()

            def down(k):
                for d in classes.values():
                    if k in d.__bases__ and ident[d] not in hidden:
                        if defines(d, "m"):
                            over.add(ident[d])
                        else:
                            down(d)
            down(t)
        res[c] = {"exc": issubclass(t, BaseException), "ctor": ctor, "overrides": ident[ov] if ov else None,
                  "inh": inh, "over": over, "p_docsrc": pdoc}
    return res


def uses_oracle(ctx: Ctx, p, pd, py) -> None:
    real_ctx = ctx
    if p.get("flavour"):
        sig0 = USES_SIG[p["flavour"]]

        class _Fl:
            def fail(self, sig, inp, what):
                real_ctx.fail(sig0, inp, what + " [" + sig + "]")
        ctx = _Fl()   # type: ignore
    elif p.get("phantom"):
        # a hidden phantom Attribute made from an `@type name:` field masks the inherited member of that name:
        # every attribution failure in such a project is classified under that cause
        class _Ph:
            def fail(self, sig, inp, what):
                real_ctx.fail("inherited-member-masked-by-type-field-phantom", inp, what + " [" + sig + "]")
        ctx = _Ph()   # type: ignore
    for c, b in py.items():
        a = pd[c]
        inp = {"project": p, "class": c}
        if a["exc"] != b["exc"] or a["kind_exc"] != b["exc"]:
            ctx.fail("uses:exception-kind", inp, f"C{c}: is_exception={a['exc']} kind={a['kind_exc']}, issubclass(BaseException)={b['exc']}")
        if a["ctor"] != b["ctor"]:
            ctx.fail("uses:constructor", inp, f"C{c}: _find_dunder_constructor {a['ctor']}, Python runs {b['ctor']}")
        if a["overrides"] != b["overrides"]:
            ctx.fail("uses:overrides", inp, f"C{c}.m 'overrides' {a['overrides']}, super() finds {b['overrides']}")
        if set(a["inh"]) != b["inh"] or len(set(a["inh"])) != len(a["inh"]):
            ctx.fail("uses:inherited-member-attribution", inp, f"C{c}: inherited table {a['inh']}, attribute lookup {sorted(b['inh'])}")
        if a["p_docsrc"] != b["p_docsrc"]:
            ctx.fail("uses:private-docsource", inp, f"C{c}.__p: docstring taken from {a['p_docsrc']}, Python's _C{c}__p has {b['p_docsrc']}")
        if a["p_override_info"]:
            ctx.fail("uses:private-override-info", inp, f"C{c}.__p is shown as '{a['p_override_info']}…' but _C{c}__p is unrelated to any other class")
        if b["over"] is not None:
            if set(a["over"]) != b["over"]:
                ctx.fail("uses:overridden-in", inp, f"C{c}.m overridden in {a['over']}, by the class statements {sorted(b['over'])}")
            elif len(set(a["over"])) != len(a["over"]):
                ctx.fail("overridden-in:listed-twice", inp, f"C{c}.m: overriding_subclasses yields {a['over']} (a subclass reached through two bases is listed twice)")


# ------------------------------------------------------------------ names looked up through a class DURING the visit

def gen_visit(rng, nclasses: int, h=None) -> Dict[str, Any]:
    """one module: some classes define a nested class `Inner` and a member `w` (method or plain attribute); after the
    hierarchy come probes that make pydoctor look a name up through a class while `_mro` is still None:
    `class Xk(Ck.Inner)`, `alias_k = Ck.Inner`, and `class Pk(Ck): w = staticmethod(len)` (astbuilder._maybeAttribute)"""
    first = 2
    if h is None:
        h = random_hierarchy(rng, nclasses, first)
    else:
        h = [tuple(j + 1 for j in b) for b in h]
    ids = list(range(first, first + nclasses))
    inner = [c for c in ids if rng.random() < 0.45]
    wkind = {c: rng.choice("fa") for c in ids if rng.random() < 0.45}
    return visit_project({str(c): list(b) for c, b in zip(ids, h)}, inner, wkind)


def visit_project(bases: Dict[str, List[int]], inner: List[int], wkind: Dict[Any, str]) -> Dict[str, Any]:
    wkind = {int(k): v for k, v in wkind.items()}
    ids = sorted(int(c) for c in bases)
    lines = []
    for c in ids:
        body = ""
        if c in inner:
            body += "    class Inner:\n        def f(self):\n            \"Inner of C%d\"\n" % c
        if c in wkind:
            body += "    def w(self):\n        pass\n" if wkind[c] == "f" else "    w = 1\n"
        lines.append("class C%d%s:\n%s" % (c, "(%s)" % ", ".join("C%d" % j for j in bases[str(c)]) if bases[str(c)] else "",
                                             body or "    pass\n"))
    src = "".join(lines)
    # which probes are legal Python is CPython's call
    ns: Dict[str, Any] = {}
    for st in ast.parse(src).body:
        try:
            exec(compile(ast.Module(body=[st], type_ignores=[]), "m0", "exec"), ns)
        except (TypeError, NameError):
            pass
    probes = []
    for c in ids:
        k = ns.get("C%d" % c)
        if k is None:
            continue
        if hasattr(k, "Inner"):
            probes.append("class X%d(C%d.Inner):\n    pass\nalias_%d = C%d.Inner\n" % (c, c, c, c))
        probes.append("class P%d(C%d):\n    w = staticmethod(len)\n" % (c, c))
    return {"n": len(ids), "bases": bases, "inner": inner, "wkind": {str(k): v for k, v in wkind.items()},
            "modules": {"m0": src + "".join(probes)}}


def run_visit(p) -> Tuple[Optional[str], str, Dict[int, Dict[str, Any]], Optional[str]]:
    """(model request, pydoctor's answer line, per class pydoctor/CPython readings, crash)"""
    from pydoctor import model
    try:
        system = model.System()
        builder = system.systemBuilder(system)
        builder.addModuleString(p["modules"]["m0"], "m0")
        builder.buildModules()
    except Exception as e:
        return None, "", {}, "Crash:" + type(e).__name__ + ":" + str(e)[:80]
    mod = system.allobjects["m0"]
    ns: Dict[str, Any] = {"__name__": "m0"}
    for st in ast.parse(p["modules"]["m0"]).body:
        try:
            exec(compile(ast.Module(body=[st], type_ignores=[]), "m0", "exec"), ns)
        except (TypeError, NameError):
            pass
    ids = sorted(int(c) for c in p["bases"])
    wkind = {int(k): v for k, v in p["wkind"].items()}
    res: Dict[int, Dict[str, Any]] = {}
    out = []
    for c in ids:
        o = mod.contents["C%d" % c]
        post = o.find("Inner")
        r: Dict[str, Any] = {"post": int(post.parent.name[1:]) if post is not None else None, "early": None}
        x = mod.contents.get("X%d" % c)
        if x is not None:
            b = x.baseobjects[0]
            r["early"] = int(b.parent.name[1:]) if b is not None else -1
            r["alias"] = mod.expandName("alias_%d" % c)
            k = ns.get("X%d" % c)
            if k is not None:
                r["py"] = int(k.__bases__[0].__qualname__.split(".")[0][1:])
        pk, pp = ns.get("P%d" % c), mod.contents.get("P%d" % c)
        if pk is not None and pp is not None:
            owner = next((kk for kk in pk.__mro__[1:] if "w" in kk.__dict__), None)
            r["w_py_owner_is_method"] = owner is not None and wkind.get(int(owner.__name__[1:])) == "f"
            r["w_documented"] = "w" in pp.contents
        res[c] = r
        out.append("%s:%s" % (opt(r["early"]) if x is not None else "?", opt(r["post"])))
    h = [[], []] + [p["bases"][str(c)] for c in ids]
    req = "mro earlyfind %s 1 %s" % (ltoken(h), ",".join(map(str, p["inner"])) or "-")
    return req, "|".join(out), res, None


def visit_oracle(ctx: Ctx, p, res) -> None:
    for c, r in res.items():
        inp = {"project": p, "class": c}
        if "py" in r:
            if r["early"] != r["py"]:
                ctx.fail("visit-time-lookup:allbases-order-not-mro", inp,
                         f"class X{c}(C{c}.Inner): Python's base is C{r['py']}.Inner, pydoctor resolved C{r['early']}.Inner")
            elif r["alias"] != "m0.C%d.Inner" % r["py"]:
                ctx.fail("visit-time-lookup:allbases-order-not-mro", inp,
                         f"alias_{c} = C{c}.Inner: Python binds C{r['py']}.Inner, pydoctor expands to {r['alias']}")
            if r["post"] != r["py"]:
                ctx.fail("find-differs", inp, f"C{c}.find('Inner') after post-processing: C{r['post']}, Python C{r['py']}")
        if "w_documented" in r and r["w_documented"] == r["w_py_owner_is_method"]:
            ctx.fail("visit-time-lookup:allbases-order-not-mro", inp,
                     f"class P{c}(C{c}): w = staticmethod(len): the w Python inherits is "
                     f"{'a method' if r['w_py_owner_is_method'] else 'an attribute or nothing'} but P{c}.w is "
                     f"{'documented as a new attribute' if r['w_documented'] else 'not documented'} (_maybeAttribute looked along allbases())")


# ------------------------------------------------------------------ visit-time lookups across an import cycle (round 6)

VCP = "c05vc"


def gen_visit_cyclic(rng, nclasses: int, h=None, fixed: Optional[Dict[str, Any]] = None) -> Dict[str, Any]:
    """the hierarchy of `gen_visit` split over two modules that import each other: `a` (analysed first) starts with
    `from c05vc.z import helper`, which makes pydoctor analyse `z` while `a` is still in progress; `z` imports some
    base-less classes back from `a` - not known yet when the classes of `z` that derive from them are visited, so those
    have an unresolved base and an incomplete visit-time linearisation.  Probes in `z`: `class Xk(Ck.Inner)`.
    (seeded C05-r6-2: the `stop at an incomplete class` guard of expandName hoisted out of the MRO loop.)"""
    if fixed is not None:
        return fixed
    first = 2
    if h is None:
        h = random_hierarchy(rng, nclasses, first)
    else:
        h = [tuple(j + 1 for j in b) for b in h]
    ids = list(range(first, first + nclasses))
    bases = {str(c): list(b) for c, b in zip(ids, h)}
    roots = [c for c in ids if not bases[str(c)]]
    away = sorted(c for c in roots if rng.random() < 0.6) or roots[:1]
    inner = sorted(set(c for c in ids if rng.random() < 0.5))
    return {"n": len(ids), "bases": bases, "inner": inner, "away": away}


def vc_sources(p) -> Tuple[str, str, str]:
    """(a.py, z.py, the same classes in one module for CPython)"""
    ids = sorted(int(c) for c in p["bases"])

    def cls(c: int) -> str:
        b = p["bases"][str(c)]
        body = "    class Inner:\n        def f(self):\n            \"Inner of C%d\"\n" % c if c in p["inner"] else "    pass\n"
        return "class C%d%s:\n%s" % (c, "(%s)" % ", ".join("C%d" % j for j in b) if b else "", body)
    away = [c for c in ids if c in p["away"]]
    here = [c for c in ids if c not in p["away"]]
    flat = "".join(cls(c) for c in away) + "".join(cls(c) for c in here)
    ns: Dict[str, Any] = {}
    legal = set()
    for st in ast.parse(flat).body:
        try:
            exec(compile(ast.Module(body=[st], type_ignores=[]), "m0", "exec"), ns)
            legal.add(st.name)
        except (TypeError, NameError):
            pass
    probes = "".join("class X%d(C%d.Inner):\n    pass\n" % (c, c) for c in ids if "C%d" % c in legal and hasattr(ns["C%d" % c], "Inner"))
    a_src = "from %s.z import helper\n" % VCP + "".join(cls(c) for c in away)
    z_src = "def helper():\n    pass\n" + ("from %s.a import %s\n" % (VCP, ", ".join("C%d" % c for c in away)) if away else "") \
        + "".join(cls(c) for c in here) + probes
    return a_src, z_src, flat + probes


def run_visit_cyclic(p) -> Tuple[Dict[int, Dict[str, Any]], Optional[str]]:
    from pydoctor import model
    a_src, z_src, flat = vc_sources(p)
    try:
        system = model.System()
        builder = system.systemBuilder(system)
        builder.addModuleString("", VCP, is_package=True)
        builder.addModuleString(a_src, "a", parent_name=VCP)
        builder.addModuleString(z_src, "z", parent_name=VCP)
        with contextlib.redirect_stdout(io.StringIO()):
            builder.buildModules()
    except Exception as e:
        return {}, "Crash:" + type(e).__name__ + ":" + str(e)[:80]
    ns: Dict[str, Any] = {"__name__": "m0"}
    for st in ast.parse(flat).body:
        try:
            exec(compile(ast.Module(body=[st], type_ignores=[]), "m0", "exec"), ns)
        except (TypeError, NameError):
            pass
    res: Dict[int, Dict[str, Any]] = {}
    z = system.allobjects[VCP + ".z"]
    for c in sorted(int(c) for c in p["bases"]):
        x, k = z.contents.get("X%d" % c), ns.get("X%d" % c)
        if x is None or k is None:
            continue
        b = x.baseobjects[0] if x.baseobjects else None
        res[c] = {"pd": b.fullName() if b is not None else None,
                  "py": k.__bases__[0].__qualname__,
                  "mro": [m.fullName().split(".", 2)[-1] if hasattr(m, "fullName") else str(m) for m in x.mro(True)][1:],
                  "pymro": [m.__qualname__ for m in k.__mro__[1:-1]]}
    return res, None


def visit_cyclic_oracle(ctx: Ctx, p, res) -> None:
    a_src, z_src, _flat = vc_sources(p)
    for c, r in res.items():
        inp = {"project": p, "class": c, "files": {VCP + "/a.py": a_src, VCP + "/z.py": z_src}}
        if r["pd"] is None:
            continue            # unresolved: incomplete, not wrong (and not what this stream judges)
        if r["pd"].split(".", 2)[-1] != r["py"]:
            ctx.fail("visit-time-lookup:incomplete-linearisation-trusted", inp,
                     f"class X{c}(C{c}.Inner) in a module analysed while a base of the hierarchy is not resolved yet: "
                     f"Python's base is {r['py']}, pydoctor's is {r['pd']}")


# ------------------------------------------------------------------ hierarchies nested in a class body

NM0, NM1 = "c05n0", "c05n1"


def gen_nested(rng, nclasses: int, h=None) -> Dict[str, Any]:
    """classes nested in the body of `Outer` whose bases are sibling nested classes (looked up in the class body first);
    some of the names are ALSO bound at module level - by a class statement before or after Outer, or by an import -
    and used there by module-level classes; a module-level-only class G may be a base of nested classes too.
    ids: 0 object, 1 unused, 2 = G, 3.. nested siblings N3.., then the module-level classes."""
    first = 3
    if h is None:
        h = random_hierarchy(rng, nclasses, first)
    else:
        h = [tuple(j + 2 for j in b) for b in h]
    nested = list(range(first, first + nclasses))
    bases: Dict[int, List[int]] = {2: []}
    qual: Dict[int, List[str]] = {2: [NM0, "G"]}
    own: Dict[int, bool] = {2: True}
    doc: Dict[int, bool] = {2: True}

    def member(c: int, indent: str) -> str:
        if not own[c]:
            return indent + "pass\n"
        return indent + "def m(self):\n" + indent + "    " + ('"doc of C%d"' % c if doc[c] else "pass") + "\n"
    inner = []
    for c, b in zip(nested, h):
        bl = list(b)
        if rng.random() < 0.2:
            bl.append(2)
        bases[c] = bl
        qual[c] = [NM0, "Outer.N%d" % c]
        own[c] = rng.random() < 0.5
        doc[c] = own[c] and rng.random() < 0.5
        inner.append("    class N%d%s:\n%s" % (c, "(%s)" % ", ".join("G" if j == 2 else "N%d" % j for j in bl) if bl else "",
                                              member(c, "        ")))
    nxt = first + nclasses
    before, after, imports, m1 = [], [], [], []
    users = []
    for c in nested:
        if rng.random() < 0.4:
            k = nxt
            nxt += 1
            bases[k], own[k], doc[k] = [], True, True
            how = rng.randrange(3)
            if how == 0:
                qual[k] = [NM1, "N%d" % c]
                m1.append("class N%d:\n%s" % (c, member(k, "    ")))
                imports.append("from %s import N%d\n" % (NM1, c))
            else:
                qual[k] = [NM0, "N%d" % c]
                (before if how == 1 else after).append("class N%d:\n%s" % (c, member(k, "    ")))
            if rng.random() < 0.6:
                u = nxt
                nxt += 1
                bases[u], own[u], doc[u] = [k], rng.random() < 0.3, False
                qual[u] = [NM0, "P%d" % c]
                users.append("class P%d(N%d):\n%s" % (c, c, member(u, "    ")))
    src0 = ("".join(imports) + "class G:\n" + member(2, "    ") + "".join(before) + "class Outer:\n" + "".join(inner)
            + "".join(after) + "".join(users))
    ids = sorted(bases)
    return {"n": len(ids), "bases": {str(c): bases[c] for c in ids}, "subs": {str(c): [0] * len(bases[c]) for c in ids},
            "own": [c for c in ids if own[c]], "doc": [c for c in ids if doc[c]], "empty": [],
            "qual": {str(c): qual[c] for c in ids}, "modules": {NM0: src0, NM1: "".join(m1)},
            "clash": sum(1 for c in ids if qual[c][1].startswith("N") and "." not in qual[c][1])}


def run_nested(p) -> Tuple[Dict[int, Dict[str, Any]], Dict[int, Dict[str, Any]], Optional[str]]:
    """the real System and CPython on a nested-hierarchy project; results in the shape pd_full / py_full give"""
    from pydoctor import model
    from pydoctor.templatewriter import util
    get_docstring = getattr(model, "get_docstring", None)
    if get_docstring is None:
        from pydoctor.epydoc2stan import get_docstring
    reports: List[Tuple[str, str, str]] = []
    orig = model.Documentable.report

    def spy(self, descr, section="parsing", lineno_offset=0, thresh=-1):
        reports.append((self.fullName(), section, descr))
        return orig(self, descr, section, lineno_offset, thresh)
    model.Documentable.report = spy   # type: ignore
    try:
        system = model.System()
        builder = system.systemBuilder(system)
        for name in (NM0, NM1):
            builder.addModuleString(p["modules"][name], name)
        builder.buildModules()
    except Exception as e:
        return {}, {}, "Crash:" + type(e).__name__ + ":" + str(e)[:80]
    finally:
        model.Documentable.report = orig   # type: ignore
    full = {"%s.%s" % tuple(q): int(c) for c, q in p["qual"].items()}

    def ident(o) -> int:
        if isinstance(o, str):
            return -1
        return full.get(o.fullName(), -2)
    pd: Dict[int, Dict[str, Any]] = {}
    for cs, q in p["qual"].items():
        c = int(cs)
        o = system.allobjects.get("%s.%s" % tuple(q))
        if not isinstance(o, model.Class):
            pd[c] = {"missing": True}
            continue
        found = o.find("m")
        src: Any = "x"
        if "m" in o.contents:
            sd = get_docstring(o.contents["m"])[1]
            src = ident(sd.parent) if sd is not None else None
        pd[c] = {"mro": [ident(x) for x in o.mro(True)], "reports": [r for r in reports if r[0] == o.fullName() and r[1] == "mro"],
                 "find": ident(found.parent) if found is not None else None, "docsrc": src,
                 "documented": o.fullName() in system.allobjects and o.isVisible,
                 "inherited": [ident(x.parent) for x in util.inherited_members(o) if x.name == "m"]}
    # CPython
    saved = {n: sys.modules.get(n) for n in (NM0, NM1)}
    py: Dict[int, Dict[str, Any]] = {}
    try:
        mods = {}
        for n in (NM1, NM0):
            mod = types.ModuleType(n)
            sys.modules[n] = mod
            mods[n] = mod
            try:
                exec(compile(p["modules"][n], n, "exec"), mod.__dict__)
            except TypeError:
                pass        # a refused class statement inside Outer takes the rest of the module with it
        objs: Dict[int, Any] = {}
        for cs, q in p["qual"].items():
            t: Any = mods[q[0]]
            for part in q[1].split("."):
                t = getattr(t, part, None) if not isinstance(t, types.ModuleType) else t.__dict__.get(part)
                if t is None:
                    break
            if isinstance(t, type) and t.__module__ == q[0] and t.__qualname__ == q[1]:
                objs[int(cs)] = t
        ident2 = {v: k for k, v in objs.items()}
        ident2[object] = 0
        for cs in p["qual"]:
            c = int(cs)
            t = objs.get(c)
            if t is None:
                py[c] = {"status": "ancestor"}      # not created: nothing to compare
                continue
            owner = next((k for k in t.__mro__ if "m" in k.__dict__), None)
            src2: Any = "x"
            getdoc: Any = "x"
            if "m" in t.__dict__:
                src2 = next((ident2[k] for k in t.__mro__ if "m" in k.__dict__ and k.__dict__["m"].__doc__ is not None), None)
                d = inspect.getdoc(t.__dict__["m"])
                getdoc = None if d is None else int(d.split("C")[1]) if d.strip() else "e"
            py[c] = {"status": "ok", "mro": [ident2.get(k, -3) for k in t.__mro__], "find": ident2[owner] if owner is not None else None,
                     "docsrc": src2, "getdoc": getdoc}
    finally:
        for n in (NM0, NM1):
            if saved[n] is None:
                sys.modules.pop(n, None)
            else:
                sys.modules[n] = saved[n]
    return pd, py, None


def opt(x) -> str:
    return "-" if x is None else str(x)


def full_lines(p, pd, py) -> Tuple[str, str]:
    """canonical implementation answers in the format of `mro full` / `mro pyfull`"""
    ids = sorted(int(c) for c in p["bases"])
    a = []
    for c in ids:
        r = pd[c]
        if r.get("missing"):
            a.append("missing")
        else:
            a.append("%s:%d:%s:%s" % (show(r["mro"]), len(r["reports"]), opt(r["find"]), opt(r["docsrc"])))
    b = ["1,0:-:x:x"]   # typing.Generic itself
    for c in ids:
        r = py[c]
        if r["status"] != "ok":
            b.append("reject")
        else:
            b.append("%s:%s:%s:%s" % (show(r["mro"]), opt(r["find"]), opt(r["docsrc"]), opt(r["getdoc"])))
    return "|".join(a), "|".join(b)


def full_oracle(ctx: Ctx, p, pd, py, stream: str) -> None:
    if p.get("variant"):
        # the base expression is lost by the builder: every consequence in such a project is one finding
        real_ctx, sig0 = ctx, {"twice": "generic-base-subscripted-twice-lost", "alias": "generic-base-via-alias-of-subscript-lost"}[p["variant"]]

        class _V:
            def fail(self, sig, inp, what):
                real_ctx.fail(sig0, inp, what + " [" + sig + "]")

            def count(self, *a):
                real_ctx.count(*a)
        ctx = _V()   # type: ignore
    for cs in p["bases"]:
        c = int(cs)
        a, b = pd[c], py[c]
        inp = {"project": p, "class": c}
        pre = "" if stream == "full" else stream + ":"

        if a.get("missing"):
            ctx.fail(pre + "class-not-documented", inp, f"C{c} is not in the system")
            continue
        if b["status"].startswith("other"):
            ctx.fail(pre + "cpython-unexpected-error", inp, b["status"])
            continue
        if b["status"] == "ancestor":
            continue
        if not a["documented"] or not a["mro"] or a["mro"][0] != c:
            ctx.fail(pre + "class-not-documented", inp, f"C{c}: documented={a['documented']} mro={a['mro']}")
        msgs = [r for r in a["reports"] if MSG in r[2]]
        if b["status"] in ("mro", "duplicate"):
            if len(msgs) != 1 or len(a["reports"]) != 1:
                ctx.fail(pre + "inconsistency-not-reported-once:" + b["status"], inp,
                         f"Python rejects C{c} ({b['status']}); pydoctor made {len(a['reports'])} 'mro' reports")
            continue
        if a["reports"]:
            ctx.fail(pre + "reports-what-python-accepts", inp,
                     f"Python's MRO of C{c} is {b['mro']}; pydoctor reports {a['reports'][0][2]!r}")
            continue
        if a["mro"] + [0] != b["mro"]:
            ctx.fail(pre + "mro-differs", inp, f"C{c}: pydoctor {a['mro']}, Python {b['mro']}")
            continue
        if a["find"] != b["find"]:
            ctx.fail(pre + "find-differs", inp, f"C{c}.find('m'): pydoctor owner {a['find']}, Python owner {b['find']}")
        want = [] if c in p["own"] or b["find"] is None else [b["find"]]
        if a["inherited"] != want:
            ctx.fail(pre + "inherited-member-attribution", inp,
                     f"C{c}: class page lists m as inherited from {a['inherited']}, attribute lookup finds it in {want}")
        if a["docsrc"] != b["docsrc"]:
            ctx.fail(pre + "docsource-differs", inp, f"C{c}.m docstring: pydoctor from {a['docsrc']}, Python from {b['docsrc']}")
        if b["docsrc"] != "x":
            ctx.count("getdoc:" + ("same-as-mro-walk" if b["getdoc"] == b["docsrc"] else "differs-from-mro-walk"))


# ------------------------------------------------------------------ run

def run(ctx: Ctx) -> None:
    # ---- bare functions, exhaustive n <= 5
    reqs_pd: List[str] = []
    reqs_py: List[str] = []
    out_pd: List[str] = []
    out_py: List[str] = []
    pay: List[Any] = []

    def bare(h, tag: str) -> None:
        tok = htoken(h)
        pd = pd_bare(h)
        py, why = py_bare(h)
        reqs_pd.append("mro pd " + tok)
        reqs_py.append("mro py " + tok)
        out_pd.append("|".join(show(x) for x in pd))
        out_py.append("|".join(show(x) for x in py))
        pay.append({"hierarchy": [list(b) for b in h]})
        nontriv = any(len(b) >= 2 for b in h)
        ctx.case(tok, nontriv, {"request": "mro pd " + tok, "pydoctor": out_pd[-1], "cpython": out_py[-1]}
                 if nontriv and len(h) == 5 and len(ctx.samples) < 2 and None in py else None)
        ctx.count(tag + ":n=%d" % len(h))
        for w in why:
            ctx.count("cpython:" + w.split(":")[0])
        bare_oracle(ctx, h, pd, py, why)

    nex = 0
    for n in range(1, 6):
        for h in hierarchies(n):
            bare(h, "exhaustive")
            nex += 1
    ctx.extra["exhaustive_cases"] = nex
    for n in range(1, 5):
        for h in dup_hierarchies(n):
            bare(h, "duplicate-bases")
    nrand = 700 if ctx.quick else 20000
    for _ in range(nrand):
        h = random_hierarchy(ctx.rng, ctx.rng.randint(6, 12))
        bare(h, "random")
    ctx.compare("pydoctor.mro.mro~Mro", reqs_pd, out_pd, pay)
    ctx.compare("type().__mro__~PyMro", reqs_py, out_py, pay)
    ctx.exhaustive = True

    # ---- mro._merge on arbitrary lists of lists (not only those a hierarchy produces)
    from pydoctor import mro as M
    mreq, mout, mpay = [], [], []
    for _ in range(2000 if ctx.quick else 40000):
        k = ctx.rng.randint(0, 4)
        alpha = ctx.rng.randint(1, 5)
        ls = [[ctx.rng.randint(1, alpha) for _ in range(ctx.rng.randint(0, 4))] for _ in range(k)]
        if ctx.rng.random() < 0.5:
            ls = [list(dict.fromkeys(l)) for l in ls]
        try:
            r = "ok " + show(M._merge(*ls))
        except ValueError as e:
            r = "reject" if MSG in str(e) else "ValueError:" + str(e)
        mreq.append("mro merge " + (ltoken(ls) if ls else "-"))
        mout.append(r)
        mpay.append({"lists": ls})
        ctx.count("merge:" + r.split()[0])
    # `mro merge -` is the single empty list, not no list at all: keep k >= 1 in the comparison
    keep = [i for i, p in enumerate(mpay) if p["lists"]]
    ctx.compare("mro._merge~Mro.merge", [mreq[i] for i in keep], [mout[i] for i in keep], [mpay[i] for i in keep])
    ctx.compare("Mro.merge~PyMro.pmerge(model only)", [mreq[i].replace("mro merge", "mro pmerge") for i in keep],
                [mout[i] for i in keep], [mpay[i] for i in keep])

    # ---- full path
    nfull = 300 if ctx.quick else 4000
    freq, fout, greq, gout, fpay = [], [], [], [], []
    sreq, sout, spay = [], [], []      # compute_mro's second pass
    projects = load_corpus("full")
    ctx.count("corpus:full", len(projects))
    if not ctx.quick:     # thorough: the whole exhaustive space once more, as source text through the real System
        for n in range(1, 6):
            for h in hierarchies(n):
                projects.append(gen_project(ctx.rng, n, h=h))
        ctx.extra["exhaustive_cases_full_path"] = len(projects)
    for k in range(nfull):
        projects.append(gen_project(ctx.rng, ctx.rng.randint(3, 12)))
    for p in projects:
        pd, crash = pd_full(p)
        if crash:
            ctx.fail("crash:" + crash.split(":")[1], {"project": p}, crash)
            continue
        py = py_full(p)
        sreq.append(pd[-1]["second"][0])
        sout.append(pd[-1]["second"][1])
        spay.append({"project": p})
        h, own, doc = project_tokens(p)
        a, b = full_lines(p, pd, py)
        freq.append("mro full %s %d %s %s" % (h, GENERIC, own, doc))
        fout.append(a)
        greq.append("mro pyfull %s %d %s %s" % (h, GENERIC, own, doc))
        gout.append(b)
        fpay.append({"project": p})
        nontriv = any(len(b_) >= 2 for b_ in p["bases"].values())
        ctx.case("full " + h + own + doc, nontriv,
                 {"modules": p["modules"], "pydoctor": a, "cpython": b} if nontriv and ctx.dist.get("full:projects", 0) < 2 and "reject" in b else None)
        ctx.count("full:projects")
        ctx.count("full:modules=%d" % len(p["modules"]))
        for r in py.values():
            ctx.count("full:cpython:" + r["status"].split(":")[0])
        full_oracle(ctx, p, pd, py, "full")
    ctx.compare("System~Mro(full path)", freq, fout, fpay)
    ctx.compare("exec~PyMro(full path)", greq, gout, fpay)

    # ---- full path, modules importing each other (legal Python: CPython's import system decides), bases named
    #      through names bound only in the declaring module, every order in which pydoctor can meet the modules
    cprojects: List[Tuple[Dict[str, Any], int]] = [(p, 24) for p in load_corpus("cyclic")]
    ctx.count("corpus:cyclic", len(cprojects))
    if not ctx.quick:
        for n in range(2, 6):
            for h in hierarchies(n):
                cprojects.append((gen_cyclic(ctx.rng, n, h=h, spread=(n <= 4 and ctx.rng.random() < 0.5)), 2 if n == 5 else 6))
    for _ in range(150 if ctx.quick else 600):
        cprojects.append((gen_cyclic(ctx.rng, ctx.rng.randint(2, 8)), 6 if ctx.quick else 24))
    for _ in range(300 if ctx.quick else 800):
        cprojects.append((gen_cyclic(ctx.rng, ctx.rng.randint(3, 4), spread=True), 8 if ctx.quick else 24))
    creq, cout, cpay = [], [], []
    for p, maxorders in cprojects:
        r = py_cyclic(p, ctx.rng)
        if r is None:
            ctx.count("cyclic:python-cannot-import(skipped)")
            continue
        py, entry = r
        p["entry"] = entry
        ctx.count("cyclic:projects")
        ctx.count("cyclic:projects-rebinding-a-base-name-after-the-class", int(bool(p.get("rebound"))))
        ctx.count("cyclic:modules=%d" % len(p["modules"]))
        orders = list(itertools.permutations(sorted(p["modules"])))
        ctx.rng.shuffle(orders)
        h, own, doc = project_tokens(p)
        nontriv = any(len(b_) >= 2 for b_ in p["bases"].values())
        for od in orders[:maxorders]:
            q = dict(p, order=list(od))
            pd, crash = pd_full(q, od)
            if crash:
                ctx.fail("crash:" + crash.split(":")[1], {"project": q}, crash)
                continue
            sreq.append(pd[-1]["second"][0])
            sout.append(pd[-1]["second"][1])
            spay.append({"project": q})
            a, _b = full_lines(q, pd, py)
            creq.append("mro full %s %d %s %s" % (h, GENERIC, own, doc))
            cout.append(a)
            cpay.append({"project": q})
            ctx.case("cyclic " + h + own + doc + ",".join(od) + repr(sorted(p["modules"].items())), nontriv,
                     {"modules": p["modules"], "processing_order": list(od), "cpython_entry": entry, "pydoctor": a}
                     if nontriv and ctx.dist.get("cyclic:orders", 0) < 1 else None)
            ctx.count("cyclic:orders")
            ctx.count("cyclic:classes-with-a-base-resolved-only-in-the-second-pass", sum(1 for r_ in pd.values() if r_.get("late")))
            full_oracle(ctx, q, pd, py, "full")
    ctx.compare("System~Mro(import cycles, all orders)", creq, cout, cpay)
    ctx.compare("init_finalbaseobjects~Mro.secondPass", sreq, sout, spay)

    # ---- generic bases written Base[T][int] or through an alias `A = Base[int]` (which class the base expression denotes
    #      is the builder's / name resolution's business: direct oracle and the CPython model only)
    gq, go, gp = [], [], []
    vprojs = load_corpus("variant")
    ctx.count("corpus:variant", len(vprojs))
    for variant in ("twice", "alias"):
        for _ in range(40 if ctx.quick else 1000):
            vprojs.append(gen_project(ctx.rng, ctx.rng.randint(2, 6), variant=variant))
    for p in vprojs:
        variant = p["variant"]
        if True:
            if not p["variant"]:
                continue
            pd, crash = pd_full(p)
            if crash:
                ctx.fail("crash:" + crash.split(":")[1], {"project": p}, crash)
                continue
            py = py_full(p)
            h, own, doc = project_tokens(p)
            gq.append("mro pyfull %s %d %s %s" % (h, GENERIC, own, doc))
            go.append(full_lines(p, pd, py)[1])
            gp.append({"project": p})
            ctx.case("generic-variant " + repr(sorted(p["modules"].items())), any(len(b_) >= 2 for b_ in p["bases"].values()))
            ctx.count("generic-variant:" + variant)
            full_oracle(ctx, p, pd, py, "full")
    ctx.compare("exec~PyMro(generic base subscripted twice / aliased)", gq, go, gp)

    # ---- consumers of the linearisation: mro() flags, is_exception, constructors, overrides / overridden in,
    #      inherited-member tables (real functions ~ model `mro uses`; CPython as direct oracle)
    uprojects = load_corpus("uses")
    ctx.count("corpus:uses", len(uprojects))
    for n in range(1, 5):
        for h in hierarchies(n):
            uprojects.append(gen_uses(ctx.rng, n, h=h))
    ctx.extra["exhaustive_cases_uses"] = len(uprojects)
    for _ in range(200 if ctx.quick else 3000):
        uprojects.append(gen_uses(ctx.rng, ctx.rng.randint(5, 10)))
    for fl in ("name", "call", "private"):     # member forms / names whose run-time meaning the builder does not record
        for n in range(2, 4 if ctx.quick else 5):
            for h in hierarchies(n):
                uprojects.append(gen_uses(ctx.rng, n, h=h, flavour=fl))
        for _ in range(40 if ctx.quick else 400):
            uprojects.append(gen_uses(ctx.rng, ctx.rng.randint(3, 7), flavour=fl))
    ureq, uout, upay = [], [], []
    for p in uprojects:
        line, order, pd, crash = pd_uses(p)
        if crash:
            ctx.fail("crash:" + crash.split(":")[1], {"project": p}, crash)
            continue
        ureq.append(uses_request(p, order, {c: r["cont"] for c, r in pd.items()}, {c: r["func"] for c, r in pd.items()}))
        uout.append(line)
        upay.append({"project": p})
        py = py_uses(p)
        ctx.case(ureq[-1], any(len(b_) >= 2 for b_ in p["bases"].values()))
        ctx.count("uses:projects")
        ctx.count("uses:flavour:" + (p.get("flavour") or "plain"))
        for r in pd.values():
            ctx.count("uses:exception-classes", int(r["exc"]))
            ctx.count("uses:constructor:" + (NAMES[r["ctor"][1]] if r["ctor"] else "none"))
            ctx.count("uses:overrides:" + ("some" if r["overrides"] else "none"))
            ctx.count("uses:inherited-members", len(r["inh"]))
            ctx.count("uses:overridden-in", len(r["over"]))
        ctx.count("uses:projects-with-type-field-phantom", int(bool(p.get("phantom"))))
        uses_oracle(ctx, p, pd, py)
    ctx.compare("mro()/is_exception/constructor/override/inherited~Mro(uses)", ureq, uout, upay)

    # ---- hierarchies nested in a class body: bases are sibling nested classes, some names also bound at module level
    nprojects = load_corpus("nested")
    ctx.count("corpus:nested", len(nprojects))
    for n in range(1, 5):
        for h in hierarchies(n):
            nprojects.append(gen_nested(ctx.rng, n, h=h))
    for _ in range(120 if ctx.quick else 3000):
        for _try in range(6):       # a class statement Python refuses aborts the body of Outer: draw again
            q = gen_nested(ctx.rng, ctx.rng.randint(4, 8))
            if all(x is not None for x in py_bare([tuple(j - 2 for j in q["bases"][str(c)] if j != 2)
                                                   for c in sorted(int(k) for k in q["bases"]) if q["qual"][str(c)][1].startswith("Outer.")])[0]):
                break
        nprojects.append(q)
    nreq, nout, nreq2, nout2, npay = [], [], [], [], []
    for p in nprojects:
        pd, py, crash = run_nested(p)
        if crash:
            ctx.fail("crash:" + crash.split(":")[1], {"project": p}, crash)
            continue
        if any(r["status"] != "ok" for r in py.values()):
            ctx.count("nested:python-refuses-a-class(skipped)")     # the refused statement aborts the body of Outer
            continue
        h, own, doc = project_tokens(p)
        a, b = full_lines(p, pd, py)
        nreq.append("mro full %s 1 %s %s" % (h, own, doc))
        nout.append(a)
        nreq2.append("mro pyfull %s 1 %s %s" % (h, own, doc))
        nout2.append(b)
        npay.append({"project": p})
        ctx.case("nested " + p["modules"][NM0] + p["modules"][NM1], any(len(b_) >= 2 for b_ in p["bases"].values()))
        ctx.count("nested:projects")
        ctx.count("nested:projects-with-a-name-also-bound-at-module-level", int(p["clash"] > 0))
        full_oracle(ctx, p, pd, py, "full")
    ctx.compare("System~Mro(nested class hierarchies)", nreq, nout, npay)
    ctx.compare("exec~PyMro(nested class hierarchies)", nreq2, nout2, npay)

    # ---- names looked up through a class while the modules are visited (`_mro` is None: Class.mro() = allbases order)
    vprojects = load_corpus("visit")
    ctx.count("corpus:visit", len(vprojects))
    for n in range(1, 5):
        for h in hierarchies(n):
            vprojects.append(gen_visit(ctx.rng, n, h=h))
    for _ in range(100 if ctx.quick else 3000):
        vprojects.append(gen_visit(ctx.rng, ctx.rng.randint(5, 9)))
    vreq, vout, vpay = [], [], []
    for p in vprojects:
        req, line, res, crash = run_visit(p)
        if crash:
            ctx.fail("crash:" + crash.split(":")[1], {"project": p}, crash)
            continue
        ctx.case("visit " + p["modules"]["m0"], any(len(b_) >= 2 for b_ in p["bases"].values()))
        ctx.count("visit:projects")
        ctx.count("visit:base-through-inherited-nested-class", sum(1 for r in res.values() if "py" in r))
        ctx.count("visit:early-owner-differs-from-final", sum(1 for r in res.values() if "py" in r and r["early"] != r["post"]))
        ctx.count("visit:_maybeAttribute-probes", sum(1 for r in res.values() if "w_documented" in r))
        # the model answers for every class; pydoctor's visit-time owner is only observable where a probe exists
        vreq.append(req)
        vout.append(line)
        vpay.append({"project": p})
        visit_oracle(ctx, p, res)
    if ctx.model_ok and vreq:
        outs = ctx.driver.run_parallel(vreq)
        for rq, mo, io, pl in zip(vreq, outs, vout, vpay):
            ctx.traces_validated += 1
            ok = all(i.startswith("?:") and m.split(":")[1] == i.split(":")[1] or m == i
                     for m, i in zip(mo.split("|"), io.split("|"))) and mo.count("|") == io.count("|")
            if not ok:
                ctx.disagree("expandName-at-visit-time~Mro.findEarly", pl, mo, io)

    # ---- the same lookups in a module analysed while a base class (imported back from the module in progress) is unresolved
    vcp = [gen_visit_cyclic(ctx.rng, 0, fixed={"n": 4, "bases": {"2": [], "3": [], "4": [2], "5": [4, 3]}, "inner": [2, 3], "away": [2]}),
           gen_visit_cyclic(ctx.rng, 0, fixed={"n": 4, "bases": {"2": [], "3": [], "4": [2], "5": [3, 4]}, "inner": [2, 3], "away": [2]})]
    for n in range(2, 5):
        for h in hierarchies(n):
            vcp.append(gen_visit_cyclic(ctx.rng, n, h=h))
    for _ in range(150 if ctx.quick else 4000):
        vcp.append(gen_visit_cyclic(ctx.rng, ctx.rng.randint(4, 8)))
    for p in vcp:
        res, crash = run_visit_cyclic(p)
        if crash:
            ctx.fail("crash:" + crash.split(":")[1], {"project": p}, crash)
            continue
        ctx.case("visit-cyclic %s %s %s" % (p["bases"], p["inner"], p["away"]), any(len(b_) >= 2 for b_ in p["bases"].values()))
        ctx.count("visit-cyclic:projects")
        ctx.count("visit-cyclic:probes", len(res))
        ctx.count("visit-cyclic:probes-resolved", sum(1 for r in res.values() if r["pd"] is not None))
        ctx.count("visit-cyclic:probes-through-an-incomplete-class", sum(1 for r in res.values() if any(q.split(".")[0] in ["C%d" % a for a in p["away"]] for q in r["pymro"])))
        visit_cyclic_oracle(ctx, p, res)

    # ---- Generic[T] at any position among the bases (typing drops it when a later base is subscripted; so does
    #      compute_mro.getbases since commit 749fc3a): models (localBases / mroEntries) and direct oracle
    areq, aout, breq, bout, apay = [], [], [], [], []
    for k in range(150 if ctx.quick else 2000):
        p = gen_project(ctx.rng, ctx.rng.randint(2, 6), generic_anywhere=True)
        pd, crash = pd_full(p)
        if crash:
            ctx.fail("crash:" + crash.split(":")[1], {"project": p}, crash)
            continue
        py = py_full(p)
        # Python's own bases after __mro_entries__ decide what the hierarchy is here
        ctx.count("generic-anywhere:projects")
        h, own, doc = project_tokens(p)
        a, b = full_lines(p, pd, py)
        areq.append("mro full %s %d %s %s" % (h, GENERIC, own, doc))
        aout.append(a)
        breq.append("mro pyfull %s %d %s %s" % (h, GENERIC, own, doc))
        bout.append(b)
        apay.append({"project": p})
        ctx.case("generic-anywhere " + h + own + doc, any(len(b_) >= 2 for b_ in p["bases"].values()))
        full_oracle(ctx, p, pd, py, "generic-anywhere")
    ctx.compare("System~Mro(Generic[T] anywhere)", areq, aout, apay)
    ctx.compare("exec~PyMro(Generic[T] anywhere)", breq, bout, apay)
    flush_counts(ctx)


def load_corpus(kind: str) -> List[Dict[str, Any]]:
    """deterministic corpus: the inputs of past findings and the shapes the seeded changes need (corpus/C05/*.json);
    runs first in its stream on every run, whatever the seed"""
    import json
    from ..core import VERIF
    res = []
    for f in sorted((VERIF / "corpus" / "C05").glob("*.json")):
        d = json.loads(f.read_text())
        if d.get("kind") == kind:
            res.append(visit_project(**d["project"]) if kind == "visit" else d["project"])
    return res


def flush_counts(ctx: Ctx) -> None:
    for k, v in COUNTS.items():
        ctx.count(k, v)
    COUNTS.clear()


def replay(ctx: Ctx, obj) -> int:
    inp = obj.get("input") or obj.get("request") or {}
    if "hierarchy" in inp:
        h = [tuple(b) for b in inp["hierarchy"]]
        tok = htoken(h)
        pd = pd_bare(h)
        py, why = py_bare(h)
        print("hierarchy:", tok)
        print("pydoctor :", "|".join(show(x) for x in pd))
        print("cpython  :", "|".join(show(x) for x in py), why)
        try:
            print("Mro      :", ctx.driver.run(["mro pd " + tok])[0])
            print("PyMro    :", ctx.driver.run(["mro py " + tok])[0])
        except Exception as e:
            print("model    : unavailable", e)
        bare_oracle(ctx, h, pd, py, why)
    elif "lists" in inp:
        from pydoctor import mro as M
        try:
            print("pydoctor :", M._merge(*inp["lists"]))
        except ValueError as e:
            print("pydoctor : ValueError", e)
        print("Mro      :", ctx.driver.run(["mro merge " + ltoken(inp["lists"])])[0])
        print("PyMro    :", ctx.driver.run(["mro pmerge " + ltoken(inp["lists"])])[0])
    elif "project" in inp and "away" in inp["project"]:
        p = inp["project"]
        a_src, z_src, _flat = vc_sources(p)
        print("# ---- %s/a.py (analysed first)\n%s# ---- %s/z.py\n%s" % (VCP, a_src, VCP, z_src))
        res, crash = run_visit_cyclic(p)
        if crash:
            print("pydoctor :", crash)
            return 1
        for c, r in sorted(res.items()):
            print("X%d: pydoctor base %s, CPython base %s" % (c, r["pd"], r["py"]))
        visit_cyclic_oracle(ctx, p, res)
    elif "project" in inp:
        p = inp["project"]
        for n, s in sorted(p["modules"].items()):
            print("# ---- %s.py\n%s" % (n, s))
        import contextlib
        import io
        if p.get("package"):
            print("# processing order:", p["order"], " CPython entry order:", p.get("entry"))
        with contextlib.redirect_stdout(io.StringIO()):
            pd, crash = pd_full(p, p["order"] if p.get("package") else None)
        if crash:
            print("pydoctor :", crash)
            return 1
        if p.get("package"):
            import random
            r = py_cyclic(p, random.Random(0))
            if r is None:
                print("cpython  : cannot import this layout")
                return 0
            py = r[0]
        else:
            py = py_full(p)
        h, own, doc = project_tokens(p)
        a, b = full_lines(p, pd, py)
        print("pydoctor :", a)
        print("cpython  :", b)
        try:
            print("Mro      :", ctx.driver.run(["mro full %s %d %s %s" % (h, GENERIC, own, doc)])[0])
            print("PyMro    :", ctx.driver.run(["mro pyfull %s %d %s %s" % (h, GENERIC, own, doc)])[0])
        except Exception as e:
            print("model    : unavailable", e)
        full_oracle(ctx, p, pd, py, "generic-anywhere" if obj.get("signature", "").startswith("generic-anywhere") else "full")
    else:
        print(obj)
        return 0
    for f in ctx.failures:
        print("oracle   :", f["signature"], "-", f["what"])
    if not ctx.failures:
        print("oracle   : property holds on this input")
    return 1 if ctx.failures else 0
