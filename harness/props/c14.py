"""C14 — the displayed signature is the signature that was written."""
from __future__ import annotations

import ast
import html
import io
import itertools
import re
import tokenize
from typing import Any, Dict, Iterator, List, Optional, Sequence, Tuple

from ..core import Ctx

THEOREMS = [
    # round trip of the displayed signature
    "Signature.roundtrip_args", "Signature.roundtrip", "Signature.render_layout", "Signature.parseSig_render_layout",
    # construction of the parameter list
    "Signature.build_eq_spec", "Signature.build_shape", "Signature.build_total", "Signature.default_alignment",
    "Signature.default_alignment_parser",
    # inspect.Signature's validation / the ValueError branch
    "Signature.valid_always", "Signature.valid_iff_nodup", "Signature.duplicate_counterexample",
    # unstring_annotation
    "Signature.unstring_only_quotes", "Signature.unstring_result", "Signature.unstring_idempotent",
    "Signature.value_strings_kept", "Signature.literal_args_verbatim", "Signature.annotated_metadata_verbatim",
    "Signature.other_subscript_unquoted", "Signature.unstring_failure_in_place",
    "Signature.value_strings_unquoted_counterexample",
    # which defs get a signature, overload recognition
    "Signature.overload_by_resolution", "Signature.property_iff", "Signature.module_level_function",
    # overload bookkeeping and what the page shows
    "Signature.overloads_own", "Signature.overloads_displayed", "Signature.records_sound", "Signature.never_broken", "Signature.broken_signature_unreadable",
    "Signature.shownName_spec",
]
PARTIAL: Dict[str, str] = {}
RULE = ("FIRST a deterministic corpus (the shapes of the seeded C14 changes: aliased @overload, annotated positional-only "
        "parameters, a string annotation shared under an operator, right operands of equal precedence, Literal reached through "
        "a module alias, equal constants in one module, operator expressions as subscripted/called operands; direct oracle only), "
        "every operator expression (unary, binary, boolean, comparison, conditional, lambda, walrus) as the operand of a subscript / "
        "call / attribute access in default, annotation, string annotation, keyword-only default and return position (oracle "
        "only), and the format_signature fallbacks. Then exhaustive: every sequence of <=4 "
        "(quick: <=3) parameter items over {name, *name, **name} x with/without annotation x with/without default, with `/` "
        "and bare `*` placed at every position, written as `def f(<items>) [-> r | -> None]: pass`; those ast.parse accepts go "
        "through the real pipeline (System, systemBuilder, addModuleString, buildModules, Function.signature, "
        "pages.format_signature / format_function_def / format_overloads, flatten_text) and are compared with the Lean model "
        "(parameter objects, display tokens, ValueError branch) and judged by the direct oracle: ast.parse('def f' + displayed "
        "+ ': pass') must give the same ast.arguments/returns as the source (names, kinds, order, default positions; ast.dump "
        "of defaults and of annotations after unquoting string annotations on both sides, Literal[...] arguments left alone; a "
        "`-> None` may be missing). ALL candidate texts (accepted or not) are also read by the model's parser and compared "
        "with CPython's verdict. Plus methods/classmethods/staticmethods/async defs; @overload groups with the decorator "
        "spelled in every way that resolves to typing.overload / typing_extensions.overload (bare, dotted module, module "
        "alias, renamed import, class-local import) and two look-alikes that do not; string / Literal annotations in every "
        "parameter position; duplicate names (ValueError branch, correspondence only); random signatures of 5-10 parameters "
        "with small expression defaults/annotations; astutils.unstring_annotation called directly on every annotation tree of "
        "depth <=2 over {name, Literal, None, string, non-expression string, attribute, subscript, 2-tuple, a|b} and random "
        "deeper ones (model + oracle: only quoting changes, no forward reference left quoted, Literal arguments verbatim); the "
        "decorator loop on every single decorator of 30 spellings x {module, class, inner}, every ordered pair in a class and "
        "random longer lists (object made, its name, kind, overload flag, name shown after `def`); whole modules with several "
        "functions / methods whose defaults are constants that compare equal but differ (0/False/0.0/-0.0/0j, 1/True/1.0, ''/b'' "
        "...: every ordered pair of 24 constants across two functions and within one, plus random modules), every signature "
        "rendered in source order and read back (oracle only). "
        "Non-trivial = at least two different parameter kinds or a default after a positional-only marker (signature streams); "
        "a string under a subscript/attribute (unstring); a decorated method (decorators).")
ASSUMPTIONS = [
    "defaults and the string-free leaves of annotations are opaque atoms in the model; their own rendering is property C15 (the "
    "generators use atoms and small expressions; the corpus adds operator shapes judged by the direct oracle only)",
    "parameter names are identifiers (guaranteed by CPython's parser), so Parameter.__init__ never raises",
    "a `def` with duplicate parameter names is accepted by ast.parse but rejected by the compiler: it is not a function definition "
    "in the property's sense; `valid_iff_nodup` shows it is the only way into the ValueError branch; `build_shape` / "
    "`default_alignment_parser` hold without the distinct-names hypothesis",
    "the model's parser does not accept a trailing comma (never produced by inspect.Signature.__str__)",
    "whether a name spelled otherwise designates typing.Literal / typing.Annotated (ctx.expandName in _is_typing_name) is a parameter of "
    "the model (`AnnE.aliasRef`), computed by the harness from the module's imports; what visit_Subscript decides with it is modelled "
    "and proved (`value_strings_kept`)",
    "name RESOLUTION of a decorator (parent.expandName) is a parameter of the model (flag `resolvesToOverload` / `isOverload`): the "
    "harness computes it from the source by Python's import rules (own resolver, independent of pydoctor), for every spelling; "
    "what the decorator loop decides with it is modelled and proved (`overload_by_resolution`)",
    "`from typing import *` followed by a bare `@overload` is not generated: pydoctor cannot see through a star import of a module "
    "outside the documented system (name resolution, C04's subject), the defs become plain redefinitions",
    "ast.NodeTransformer's in-place behaviour (single children assigned one by one, lists assigned at the end) is transcribed in "
    "`AnnE.visit` and tied by the `unstring` stream; annotation nodes other than Name/Attribute/Subscript/2-Tuple/BitOr/Constant "
    "are opaque atoms when string-free and are not generated with strings inside",
    "signatures whose default/annotation text is cut by the colorizer (long generic-path expressions, marked `...`: C15 wrap_marked) or "
    "that fall back to `(...)` because html2stan rejects the HTML (U+00A0 -> &nbsp;: C09/C10 finding) are not generated; the oracle's "
    "unquoting keeps strings that are values (Literal arguments through any import alias, Annotated metadata)",
    "a definition whose visit is given up half-way (recursion limit; 6b608e9) keeps signature None and shows `(...)`: `never_broken` is about "
    "completed _handleFunctionDef runs",
    "html2stan / flatten_text (HTML of the signature -> text) are seen through their output only (C10); `str(signature)` raising is the "
    "parameter `strRaises` of `formatSignatureX`, exercised by the `fallback` stream",
]
EXPLANATION = ("Theorems: for every ast.arguments-shaped input with the parser's shape and distinct names, CPython's reading of "
               "Signature.__str__'s layout of the parameters pydoctor builds is the source's ast.arguments (annotations unquoted, "
               "`-> None` dropped); unstring_annotation changes nothing but quoting and keeps Literal arguments; which defs get a "
               "signature and which are overloads depends on resolved decorator names only; every overload record and every shown "
               "signature is the own signature of a def of that name. The correspondence ties build/render/unstring/decorator loop/"
               "format_* to pydoctor+inspect and parse to CPython's parser; the direct oracle is CPython's parser on the real "
               "displayed text.")

KINDS = {0: "PO", 1: "PK", 2: "VP", 3: "KO", 4: "VK"}

# ------------------------------------------------------------------ atoms and encodings

NAME_RE = re.compile(r"^p(\d+)$")
SPECIAL_NAMES = {"self": 900, "cls": 901}
DMARK = re.compile(r"\bd(\d+)\b|\b7(\d\d\d)\b")
AMARK = re.compile(r"\ba(\d+)\b")


def name_id(s: str) -> str:
    m = NAME_RE.match(s)
    if m:
        return "n%d" % int(m.group(1))
    if s in SPECIAL_NAMES:
        return "n%d" % SPECIAL_NAMES[s]
    return "n?"


def default_text(k: int) -> str:
    """source text of the default atom number k (names and ints alternate)"""
    return "d%d" % k if k % 2 == 0 else str(7000 + k)


def dmarker(text: str) -> str:
    ms = {int(a or b) for a, b in DMARK.findall(text)}
    return "d%d" % ms.pop() if len(ms) == 1 else "d?"


def amarker(text: str) -> str:
    ms = {int(a) for a in AMARK.findall(text)}
    return str(ms.pop()) if len(ms) == 1 else "?"


def _parse_str_expr(value: str) -> Optional[ast.expr]:
    """the content of a string annotation as one expression, or None"""
    try:
        body = ast.parse(value).body
    except (SyntaxError, ValueError):
        return None
    if len(body) == 1 and isinstance(body[0], ast.Expr):
        return body[0].value
    return None


def _strings_outside_literal(node: ast.AST) -> Iterator[str]:
    if isinstance(node, ast.Subscript):
        v = node.value
        if (isinstance(v, ast.Name) and v.id == "Literal") or (isinstance(v, ast.Attribute) and v.attr == "Literal"):
            yield from _strings_outside_literal(v)
            return
    if isinstance(node, ast.Constant) and isinstance(node.value, str):
        yield node.value
        return
    for ch in ast.iter_child_nodes(node):
        yield from _strings_outside_literal(ch)


def _fully_parses(value: str) -> bool:
    e = _parse_str_expr(value)
    return e is not None and all(_fully_parses(s) for s in _strings_outside_literal(e))


ATOM_RE = re.compile(r"^a(\d+)$")
ATTR_NAMES = {"Literal": 0, "T": 1, "Annotated": 2}


def _crc(text: str, mod: int) -> int:
    import zlib
    return zlib.crc32(text.encode("utf-8", "backslashreplace")) % mod


def _has_string(node: ast.AST) -> bool:
    return any(isinstance(n, ast.Constant) and isinstance(n.value, str) for n in ast.walk(node))


def enc_ann(node: ast.expr) -> str:
    """annotation expression -> the model's AnnE prefix code: a<k> name, L the name Literal, N None, s<e> string holding the
    expression e, b<k> string that is no expression, A<n><v> attribute, S<v><slice>, T<a><b> 2-tuple, O<a><b> `a | b`;
    any other string-free expression is an opaque atom."""
    if isinstance(node, ast.Constant) and node.value is None:
        return "N"
    if isinstance(node, ast.Constant) and isinstance(node.value, str):
        inner = _parse_str_expr(node.value)
        if inner is None:
            return "b%d" % (int(amarker(node.value)) if amarker(node.value) != "?" else 800 + _crc(node.value, 100))
        return "s" + enc_ann(inner)
    if isinstance(node, ast.Name):
        if node.id == "Literal":
            return "L"
        if node.id == "Annotated":
            return "M"
        if node.id in _ENV["literal"]:          # a name bound to typing.Literal by an import ... as
            return "l%d" % _crc(node.id, 1000)
        if node.id in _ENV["annotated"]:
            return "m%d" % _crc(node.id, 1000)
        m = ATOM_RE.match(node.id)
        return "a%d" % (int(m.group(1)) if m else 1000 + _crc(node.id, 9000))
    if isinstance(node, ast.Attribute):
        n = ATTR_NAMES.get(node.attr)
        if n is None:
            n = 3 + _crc(node.attr, 97)
        return "A%d%s" % (n, enc_ann(node.value))
    if isinstance(node, ast.Subscript):
        return "S" + enc_ann(node.value) + enc_ann(node.slice)
    if isinstance(node, ast.Tuple) and len(node.elts) == 2:
        return "T" + enc_ann(node.elts[0]) + enc_ann(node.elts[1])
    if isinstance(node, ast.BinOp) and isinstance(node.op, ast.BitOr):
        return "O" + enc_ann(node.left) + enc_ann(node.right)
    if _has_string(node):
        return "?"          # a string inside a node the model has no constructor for: never generated
    return "a%d" % (10000 + _crc(ast.dump(node), 90000))


def enc_ann_text(text: str) -> str:
    try:
        return enc_ann(ast.parse(text.strip(), mode="eval").body)
    except (SyntaxError, ValueError):
        return "?"


def fields_of(fn: ast.AST) -> str:
    """the model's 8 request fields for a FunctionDef"""
    a = fn.args

    def arg(x: ast.arg) -> str:
        return name_id(x.arg) + (":" + enc_ann(x.annotation) if x.annotation is not None else "")

    def lst(l: Sequence[str]) -> str:
        return ",".join(l) if l else "-"
    return " ".join([
        lst([arg(x) for x in a.posonlyargs]), lst([arg(x) for x in a.args]),
        arg(a.vararg) if a.vararg else "-",
        lst([arg(x) for x in a.kwonlyargs]),
        lst(["_" if d is None else dmarker(ast.unparse(d))[1:] for d in a.kw_defaults]),
        arg(a.kwarg) if a.kwarg else "-",
        lst([dmarker(ast.unparse(d))[1:] for d in a.defaults]),
        enc_ann(fn.returns) if fn.returns is not None else "-"])


# ------------------------------------------------------------------ display text -> model tokens

_SKIP = {tokenize.NEWLINE, tokenize.NL, tokenize.ENDMARKER, tokenize.INDENT, tokenize.DEDENT, tokenize.COMMENT}


def display_tokens(text: str) -> List[str]:
    """map the displayed signature text to the model's token alphabet; '?' marks what does not fit"""
    if "\n" in text:
        return ["?newline"]
    try:
        toks = [t for t in tokenize.generate_tokens(io.StringIO(text).readline) if t.type not in _SKIP]
    except (tokenize.TokenError, SyntaxError, IndentationError):
        return ["?untokenizable"]
    if not toks or toks[0].string != "(":
        return ["?"]

    def sub(ts: Sequence[tokenize.TokenInfo]) -> str:
        return text[ts[0].start[1]:ts[-1].end[1]] if ts else ""
    depth = 0
    segs: List[List[tokenize.TokenInfo]] = []
    cur: List[tokenize.TokenInfo] = []
    rest: Optional[List[tokenize.TokenInfo]] = None
    for i, t in enumerate(toks):
        if t.type == tokenize.OP and t.string in "([{":
            depth += 1
            if i == 0:
                continue
        elif t.type == tokenize.OP and t.string in ")]}":
            depth -= 1
            if depth == 0:
                rest = toks[i + 1:]
                break
        if depth == 1 and t.type == tokenize.OP and t.string == ",":
            segs.append(cur)
            cur = []
            continue
        cur.append(t)
    if rest is None:
        return ["?unbalanced"]
    if cur or segs:
        segs.append(cur)
    out = ["("]
    for si, seg in enumerate(segs):
        if si:
            out.append(",")
        out += _seg_tokens(seg, sub)
    out.append(")")
    if rest:
        if rest[0].string == "->" and len(rest) > 1:
            out += ["->", "@" + enc_ann_text(sub(rest[1:]))]
        else:
            out.append("?")
    return out


def _seg_tokens(seg: List[tokenize.TokenInfo], sub) -> List[str]:
    if not seg:
        return ["?empty"]
    if len(seg) == 1 and seg[0].string in ("/", "..."):
        return [seg[0].string]
    out: List[str] = []
    if seg[0].string in ("*", "**"):
        out.append(seg[0].string)
        seg = seg[1:]
        if not seg:
            return out
    if seg[0].type != tokenize.NAME:
        return out + ["?"]
    out.append(name_id(seg[0].string))
    seg = seg[1:]
    if seg and seg[0].string == ":":
        depth, j = 0, len(seg)
        for idx in range(1, len(seg)):
            s = seg[idx].string
            if seg[idx].type == tokenize.OP and s in "([{":
                depth += 1
            elif seg[idx].type == tokenize.OP and s in ")]}":
                depth -= 1
            elif depth == 0 and seg[idx].type == tokenize.OP and s == "=":
                j = idx
                break
        out += [":", "@" + enc_ann_text(sub(seg[1:j]))]
        seg = seg[j:]
    if seg and seg[0].string == "=":
        out += ["=", dmarker(sub(seg[1:]))]
        seg = []
    if seg:
        out.append("?")
    return out


# ------------------------------------------------------------------ the real pipeline

_TAG = re.compile(r"<[^>]*>")


def _plain(htmltext: str) -> str:
    return html.unescape(_TAG.sub("", htmltext))


class Reports:
    """collect Documentable.report() calls: (fullName, description)"""

    def __enter__(self):
        from pydoctor import model
        self.model = model
        self.orig = model.Documentable.report
        self.seen: List[Tuple[str, str]] = []
        seen = self.seen
        orig = self.orig

        def report(obj, descr, *a, **kw):
            seen.append((obj.fullName(), descr))
            return orig(obj, descr, *a, **kw)
        model.Documentable.report = report
        return self

    def __exit__(self, *exc):
        self.model.Documentable.report = self.orig


def build_system(src: str, modname: str = "m"):
    from pydoctor import model
    system = model.System()
    builder = system.systemBuilder(system)
    builder.addModuleString(src, modname=modname)
    builder.buildModules()
    return system


def impl_params(sig) -> str:
    import inspect
    ps = []
    for p in sig.parameters.values():
        d = "_" if p.default is inspect.Parameter.empty else dmarker(_plain(repr(p.default)))
        a = "_" if p.annotation is inspect.Parameter.empty else enc_ann_text(_plain(repr(p.annotation)))
        ps.append("%s/%s/%s/%s" % (name_id(p.name), KINDS[int(p.kind)], d, a))
    return ",".join(ps) if ps else "-"


DEF_RE = re.compile(r"^(async def|def) ([A-Za-z_0-9]+)(.*):$", re.S)


def shown_signature(func, via_def: bool) -> Tuple[str, str]:
    """(displayed signature text, def keyword shown or '')"""
    from pydoctor.templatewriter import pages
    from pydoctor.stanutils import flatten_text
    if not via_def:
        return flatten_text(pages.format_signature(func)), ""
    t = flatten_text(pages.format_function_def(func.name, func.is_async, func))
    m = DEF_RE.match(t)
    if not m:
        return t, "?"
    return m.group(3), m.group(1)


def shown_overloads(func) -> List[Tuple[str, str]]:
    """what format_overloads puts on the page: one (signature text, def keyword) per overload"""
    from pydoctor.templatewriter import pages
    from pydoctor.stanutils import flatten_text
    from twisted.web.template import Tag
    res = []
    for item in pages.format_overloads(func):
        if isinstance(item, Tag) and item.tagName == "div":
            t = flatten_text(item)
            m = DEF_RE.match(t)
            res.append((m.group(3), m.group(1)) if m else (t, "?"))
    return res


# ------------------------------------------------------------------ direct oracle (independent of the model)

# bare names that mean typing.Literal / typing.Annotated in the module being judged (Python's import rules);
# `x.Literal` / `x.Annotated` count under any prefix
_ENV: Dict[str, set] = {"literal": {"Literal"}, "annotated": {"Annotated"}}


def set_env_from_source(src: Optional[str]) -> None:
    lit, ann = {"Literal"}, {"Annotated"}
    if src:
        for st in ast.walk(ast.parse(src)):
            if isinstance(st, ast.ImportFrom) and st.module in ("typing", "typing_extensions"):
                for al in st.names:
                    if al.name == "Literal":
                        lit.add(al.asname or al.name)
                    if al.name == "Annotated":
                        ann.add(al.asname or al.name)
    _ENV["literal"], _ENV["annotated"] = lit, ann


def _unquote(node: Optional[ast.expr], strict: bool = True) -> Optional[ast.expr]:
    """'string annotations shown unquoted': every string constant that is a forward reference and holds one expression
    is replaced by that expression, recursively. Strings that are VALUES stay: the arguments of Literal[...] and the
    metadata of Annotated[T, ...] (strict=False: only what is spelled `Literal` / `x.Literal` counts as a value context —
    the reading pydoctor implements today)."""
    if node is None:
        return None

    def is_ref(v: ast.AST, kind: str) -> bool:
        names = _ENV[kind] if strict else {"Literal"} if kind == "literal" else set()
        attr = "Literal" if kind == "literal" else "Annotated"
        return (isinstance(v, ast.Name) and v.id in names) or \
            (isinstance(v, ast.Attribute) and v.attr == attr and (strict or kind == "literal"))

    class T(ast.NodeTransformer):
        def visit_Subscript(self, n: ast.Subscript) -> ast.AST:
            v = self.visit(n.value)          # a quoted "Literal" / "typing.Literal" is a forward reference to it
            if is_ref(v, "literal"):
                return ast.Subscript(v, n.slice, n.ctx)
            if is_ref(v, "annotated") and isinstance(n.slice, ast.Tuple) and n.slice.elts:
                return ast.Subscript(v, ast.Tuple([self.visit(n.slice.elts[0])] + list(n.slice.elts[1:]), ast.Load()), n.ctx)
            return ast.Subscript(v, self.visit(n.slice), n.ctx)

        def visit_Constant(self, n: ast.Constant) -> ast.AST:
            if isinstance(n.value, str):
                e = _parse_str_expr(n.value)
                if e is not None:
                    return self.visit(e)
            return n
    return T().visit(ast.parse(ast.unparse(node), mode="eval").body)


def _set_spelling(node: Optional[ast.AST]) -> Optional[ast.AST]:
    """`set([a, b])` and the set display `{a, b}` are the same documented spelling: normalise to the display"""
    if node is None:
        return None

    class T(ast.NodeTransformer):
        def visit_Call(self, n: ast.Call) -> ast.AST:
            self.generic_visit(n)
            if isinstance(n.func, ast.Name) and n.func.id == "set" and len(n.args) == 1 and not n.keywords \
                    and isinstance(n.args[0], ast.List) and n.args[0].elts:
                return ast.Set(elts=n.args[0].elts)
            return n
    return T().visit(ast.parse(ast.unparse(node), mode="eval").body)


def _regex_verdict(sd: Optional[ast.AST], bd: Optional[ast.AST]) -> Any:
    """both are re.compile(<constant pattern>[, flags]) calls: True when the two patterns parse (sre) to the same
    structure under the same flags -- the displayed regex is then equivalent although spelled differently --, a text
    saying how they differ otherwise; None when this is not a pair of re.compile calls."""
    def parts(n: Optional[ast.AST]) -> Any:
        if not (isinstance(n, ast.Call) and isinstance(n.func, ast.Attribute) and n.func.attr == "compile"
                and isinstance(n.func.value, ast.Name) and n.func.value.id == "re" and n.args
                and isinstance(n.args[0], ast.Constant) and isinstance(n.args[0].value, (str, bytes))):
            return None
        import re as _re
        flags = 0
        extra = list(n.args[1:]) + [k.value for k in n.keywords if k.arg == "flags"]
        for e in extra:
            try:
                flags |= int(eval(compile(ast.Expression(e), "<flags>", "eval"), {"re": _re}))
            except Exception:
                return None
        return n.args[0].value, flags
    ps, pb = parts(sd), parts(bd)
    if ps is None or pb is None:
        return None
    import re as _re
    try:
        import re._parser as sre_parse          # Python >= 3.11
    except ImportError:                          # pragma: no cover
        import sre_parse                         # type: ignore
    try:
        ts = sre_parse.parse(ps[0], ps[1])
    except Exception:
        return None                              # the source pattern itself is not a regex: nothing to compare
    try:
        tb = sre_parse.parse(pb[0], pb[1])
    except Exception as e:
        return f"the displayed pattern does not compile ({e})"
    if repr(ts) == repr(tb) and ts.state.flags == tb.state.flags and type(ps[0]) is type(pb[0]):
        return True
    return "a different regular expression (parsed structure or flags differ)"


def _dump(node: Optional[ast.AST]) -> str:
    return "-" if node is None else ast.dump(node)


def _is_none(node: Optional[ast.expr]) -> bool:
    return isinstance(node, ast.Constant) and node.value is None


def oracle(src_fn: ast.AST, displayed: str) -> Optional[Tuple[str, str]]:
    """None when the displayed signature reads back as the written one; else (signature, explanation)"""
    try:
        back = ast.parse("def f" + displayed + ": pass").body[0]
    except (SyntaxError, ValueError) as e:
        return ("display-unparsable", f"displayed signature {displayed!r} is not Python: {e}")
    if not isinstance(back, ast.FunctionDef):
        return ("display-unparsable", f"displayed signature {displayed!r} is not a def header")
    s, b = src_fn.args, back.args
    for fld in ("posonlyargs", "args", "kwonlyargs"):
        if [x.arg for x in getattr(s, fld)] != [x.arg for x in getattr(b, fld)]:
            return ("kinds-or-order:" + fld, f"{fld}: source {[x.arg for x in getattr(s, fld)]} displayed {[x.arg for x in getattr(b, fld)]} ({displayed!r})")
    for fld in ("vararg", "kwarg"):
        sv, bv = getattr(s, fld), getattr(b, fld)
        if (sv.arg if sv else None) != (bv.arg if bv else None):
            return ("kinds-or-order:" + fld, f"{fld}: source {sv and sv.arg} displayed {bv and bv.arg} ({displayed!r})")
    if len(s.defaults) != len(b.defaults):
        return ("default-position", f"{len(s.defaults)} positional defaults in source, {len(b.defaults)} displayed ({displayed!r})")
    if [d is None for d in s.kw_defaults] != [d is None for d in b.kw_defaults]:
        return ("default-position:kwonly", f"keyword-only defaults moved ({displayed!r})")
    for sd, bd in zip(list(s.defaults) + list(s.kw_defaults), list(b.defaults) + list(b.kw_defaults)):
        if _dump(sd) != _dump(bd) and _dump(_set_spelling(sd)) == _dump(_set_spelling(bd)):
            continue                # a set display {1, 2} shown in the documented spelling set([1, 2]) (DESIGN 4.5)
        if _dump(sd) != _dump(bd):
            rx = _regex_verdict(sd, bd)
            if rx is True:
                continue            # re.compile(...) re-spelled into the same parsed pattern and flags: equivalent
            if rx is not None:
                return ("default-value:re.compile-respelled:" + ("does-not-compile" if "does not compile" in rx else "different-pattern"), f"default {ast.unparse(sd)} displayed as {ast.unparse(bd)}: {rx} ({displayed!r})")
            return ("default-value", f"default {_dump(sd)} displayed as {_dump(bd)} ({displayed!r})")
    sargs = list(s.posonlyargs) + list(s.args) + ([s.vararg] if s.vararg else []) + list(s.kwonlyargs) + ([s.kwarg] if s.kwarg else [])
    bargs = list(b.posonlyargs) + list(b.args) + ([b.vararg] if b.vararg else []) + list(b.kwonlyargs) + ([b.kwarg] if b.kwarg else [])
    for sa, ba in zip(sargs, bargs):
        if _dump(_unquote(sa.annotation)) != _dump(_unquote(ba.annotation)):
            if _dump(_unquote(sa.annotation, False)) == _dump(_unquote(ba.annotation, False)):
                return ("annotation:value-string-unquoted",
                        f"annotation of {sa.arg}: {ast.unparse(sa.annotation)!r} displayed as {ast.unparse(ba.annotation)!r}: a string that is a "
                        f"value (Literal argument through an import alias / Annotated metadata), not a forward reference, lost its quotes ({displayed!r})")
            return ("annotation", f"annotation of {sa.arg}: {_dump(sa.annotation)} displayed as {_dump(ba.annotation)} ({displayed!r})")
    sr, br = _unquote(src_fn.returns), _unquote(back.returns)
    if _dump(sr) != _dump(br) and not (br is None and _is_none(sr)):
        if _dump(_unquote(src_fn.returns, False)) == _dump(_unquote(back.returns, False)):
            return ("annotation:value-string-unquoted",
                    f"return annotation {ast.unparse(src_fn.returns)!r} displayed as {ast.unparse(back.returns)!r}: a string that is a value "
                    f"(Literal argument through an import alias / Annotated metadata) lost its quotes ({displayed!r})")
        return ("return-annotation", f"returns {_dump(src_fn.returns)} displayed as {_dump(back.returns)} ({displayed!r})")
    return None


def nontrivial(fn: ast.AST) -> bool:
    a = fn.args
    kinds = sum(1 for x in (a.posonlyargs, a.args, a.vararg, a.kwonlyargs, a.kwarg) if x)
    return kinds >= 2 or (bool(a.posonlyargs) and bool(a.defaults))


def count_params(fn: ast.AST) -> int:
    a = fn.args
    return len(a.posonlyargs) + len(a.args) + len(a.kwonlyargs) + (1 if a.vararg else 0) + (1 if a.kwarg else 0)


# ------------------------------------------------------------------ generators

FORMS = ("p", "s", "ss")       # name, *name, **name
PARAM_ITEMS = [(f, ann, dflt) for f in FORMS for ann in (False, True) for dflt in (False, True) if not (dflt and f != "p")]
PARAM_ITEMS_BAD = [(f, ann, True) for f in ("s", "ss") for ann in (False, True)]   # *x=1, **x=1: never valid


def items_text(items: Sequence[Any]) -> str:
    """items: '/' | '*' | (form, ann, default). Names p0.., annotations a0.., defaults numbered in order."""
    out = []
    n = a = d = 0
    for it in items:
        if it in ("/", "*"):
            out.append(it)
            continue
        form, ann, dflt = it
        s = {"p": "", "s": "*", "ss": "**"}[form] + "p%d" % n
        n += 1
        if ann:
            s += ": a%d" % a
            a += 1
        if dflt:
            s += (" = " if ann else "=") + default_text(d)
            d += 1
        out.append(s)
    return ", ".join(out)


def layouts(n: int, alphabet=PARAM_ITEMS) -> Iterator[List[Any]]:
    """every item sequence with exactly n parameters, `/` and `*` each absent or in any slot, both orders"""
    slots: List[Optional[int]] = [None] + list(range(n + 1))
    for seq in itertools.product(alphabet, repeat=n):
        for sl in slots:
            for st in slots:
                orders = [("/", "*"), ("*", "/")] if (sl is not None and sl == st) else [("/", "*")]
                for order in orders:
                    items: List[Any] = []
                    for pos in range(n + 1):
                        for sep in order:
                            if (sep == "/" and sl == pos) or (sep == "*" and st == pos):
                                items.append(sep)
                        if pos < n:
                            items.append(seq[pos])
                    yield items


def try_parse(params: str, ret: str = "") -> Optional[ast.AST]:
    try:
        return ast.parse("def f(%s)%s: pass" % (params, ret)).body[0]
    except SyntaxError:
        return None


RETS = ["", " -> a99", " -> None"]

DEFAULT_TEMPLATES = ["{m}", "-{m}", "{n}.x", "{n}(1)", "g({m}, k=2)", "[{m}, 1]", "({m}, 2)", "{{'k': {m}}}",
                     "{n}[0]", "{m} + 1", "{m} or None", "not {m}", "'{n}'", "{m} if x else y", "{m} * 2 + 1",
                     "{n}.y.z", "({m},)", "g(({m},), 1)", "[]", "None", "True", "'s'", "1.5", "{n}[1:2]", "b'{n}'", "({m} + 1) * 2"]
ANN_TEMPLATES = ["a{k}", "a{k}.T", "List[a{k}]", "Dict[str, a{k}]", "'a{k}'", "List['a{k}']", "\"List[a{k}]\"",
                 "Optional[\"a{k}\"]", "a{k} | None", "Callable[[int], a{k}]", "Literal['a{k}']", "Tuple[a{k}, ...]",
                 "\"'a{k}'\"", "None", "typing.Optional[a{k}]", "\"a{k} !\"", "List[\"a{k} !\"]", "\"'a{k} !'\"",
                 "t.Literal['a{k}']", "te.Literal['a{k}', 'x']", "typing.Literal['a{k}']", "'t.Literal[\"a{k}\"]'",
                 "Dict['a{k}', t.Literal['a{k}']]", "'a{k}' | None", "List['a{k}'].T", "'Literal'['a{k}']",
                 "Annotated['a{k}', 'meta']", "t.Annotated[a{k}, 'x y']", "LitAlias['a{k}']", "AnnAlias['a{k}', 'a{k}']",
                 "Annotated['a{k}']", "List[LitAlias['a{k}']]", "'LitAlias[\"a{k}\"]'"]


def random_signature(rng, lo: int, hi: int, exprs: bool) -> str:
    """a parameter list CPython accepts by construction (checked anyway), lo..hi parameters"""
    n = rng.randint(lo, hi)
    kinds = sorted(rng.choice([0, 0, 1, 1, 1, 3, 3, 2, 4]) for _ in range(n))
    # at most one *args / **kw
    seen = set()
    ks = []
    for k in kinds:
        if k in (2, 4):
            if k in seen:
                k = 1 if k == 2 else 3
            seen.add(k)
        ks.append(k)
    ks.sort()
    npos = sum(1 for k in ks if k < 2)
    ndef = rng.randint(0, npos)
    parts = []
    acount = dcount = 0

    def ann() -> str:
        nonlocal acount
        if rng.random() < 0.5:
            return ""
        t = rng.choice(ANN_TEMPLATES) if exprs else "a{k}"
        acount += 1
        return ": " + t.format(k=acount - 1)

    def dflt(a: str) -> str:
        nonlocal dcount
        t = rng.choice(DEFAULT_TEMPLATES) if exprs else "{m}"
        dcount += 1
        k = dcount - 1
        txt = t.format(m=default_text(k), n="d%d" % k)
        if not DMARK.search(txt):       # marker-free literal: keep it findable
            txt = "(%s, %s)" % (default_text(k), txt)
        return (" = " if a else "=") + txt
    pos_i = 0
    for i, k in enumerate(ks):
        a = ann()
        if k < 2:
            s = "p%d%s" % (i, a)
            if pos_i >= npos - ndef:
                s += dflt(a)
            pos_i += 1
            parts.append(s)
            if k == 0 and (i + 1 == len(ks) or ks[i + 1] != 0):
                parts.append("/")
        elif k == 2:
            parts.append("*p%d%s" % (i, a))
        elif k == 3:
            if 2 not in ks and (i == 0 or ks[i - 1] != 3):
                parts.append("*")
            s = "p%d%s" % (i, a)
            if rng.random() < 0.5:
                s += dflt(a)
            parts.append(s)
        else:
            parts.append("**p%d%s" % (i, a))
    return ", ".join(parts)


# ------------------------------------------------------------------ batches through the real code

CONTEXTS = {
    # name: (in class?, decorator, async?, first parameter)
    "function": (False, "", False, ""),
    "async": (False, "", True, ""),
    "method": (True, "", False, "self"),
    "asyncmethod": (True, "", True, "self"),
    "classmethod": (True, "@classmethod", False, "cls"),
    "staticmethod": (True, "@staticmethod", False, ""),
}


class Case:
    __slots__ = ("stream", "params", "ret", "context", "fn", "via_def", "apply_oracle")

    def __init__(self, stream: str, params: str, ret: str, context: str, fn: ast.AST, via_def: bool, apply_oracle: bool = True):
        self.stream, self.params, self.ret, self.context, self.fn, self.via_def = stream, params, ret, context, fn, via_def
        self.apply_oracle = apply_oracle

    def payload(self) -> Dict[str, Any]:
        return {"kind": "single", "stream": self.stream, "params": self.params, "ret": self.ret, "context": self.context,
                "via_def": self.via_def, "apply_oracle": self.apply_oracle}


def make_case(stream: str, params: str, ret: str, context: str, via_def: bool, apply_oracle: bool = True) -> Optional[Case]:
    first = CONTEXTS[context][3]
    if first:
        params = first + (", " + params if params else "")
    fn = try_parse(params, ret)
    if fn is None:
        return None
    return Case(stream, params, ret, context, fn, via_def, apply_oracle)


MODULE_HEADER = "import typing\nfrom typing import *\nfrom typing import Literal as LitAlias, Annotated as AnnAlias\n"


def module_source(cases: Sequence[Case]) -> str:
    lines = MODULE_HEADER.splitlines() + [""]
    cls_open = False
    for i, c in enumerate(cases):
        in_class, deco, is_async, _ = CONTEXTS[c.context]
        ind = ""
        if in_class:
            if not cls_open:
                lines.append("class K%d:" % i)
                cls_open = True
            ind = "    "
        else:
            cls_open = False
        if deco:
            lines.append(ind + deco)
        lines.append("%s%sdef f%d(%s)%s: pass" % (ind, "async " if is_async else "", i, c.params, c.ret))
    return "\n".join(lines) + "\n"


def run_cases(ctx: Ctx, cases: Sequence[Case], batch: int = 400) -> None:
    """real pipeline on every case, model comparison, direct oracle"""
    from pydoctor import model
    set_env_from_source(MODULE_HEADER)
    by_stream: Dict[str, Tuple[List[str], List[str], List[Any]]] = {}
    read_reqs: List[str] = []
    read_impl: List[str] = []
    read_pay: List[Any] = []
    for start in range(0, len(cases), batch):
        chunk = cases[start:start + batch]
        src = module_source(chunk)
        with Reports() as rep:
            system = build_system(src)
        invalid = {n for n, d in rep.seen if "has invalid parameters" in d}
        funcs = {o.name: o for o in system.allobjects.values() if isinstance(o, model.Function)}
        for i, c in enumerate(chunk):
            func = funcs.get("f%d" % i)
            req = "signature sig " + fields_of(c.fn)
            if func is None or func.signature is None:
                impl = "missing-function"
                shown, kw = "", ""
            else:
                shown, kw = shown_signature(func, c.via_def)
                impl = "ok %s | %s | %s" % (impl_params(func.signature), " ".join(display_tokens(shown)),
                                            "ValueError" if func.fullName() in invalid else "clean")
            rs, ims, pay = by_stream.setdefault(c.stream, ([], [], []))
            rs.append(req)
            ims.append(impl)
            pay.append(c.payload())
            nt = nontrivial(c.fn)
            ctx.case(c.stream + " " + c.context + " " + req, nt,
                     {"source": "def f(%s)%s" % (c.params, c.ret), "context": c.context, "displayed": shown}
                     if nt and count_params(c.fn) >= 4 and ctx.dist.get("stream:" + c.stream, 0) % 997 == 3 else None)
            ctx.count("stream:" + c.stream)
            ctx.count("params:%d" % count_params(c.fn))
            ctx.count("context:" + c.context)
            if func is None:
                ctx.fail("function-missing", c.payload(), "the function is not in the model at all")
                continue
            if c.via_def:
                want = "async def" if CONTEXTS[c.context][2] else "def"
                if kw != want:
                    ctx.fail("def-keyword", c.payload(), f"shown as {kw!r}, written as {want!r}")
            if c.apply_oracle:
                v = oracle(c.fn, shown)
                if v:
                    v = classify_failure(c.fn, shown, v, [])
                    p = c.payload()
                    p["displayed"] = shown
                    ctx.fail(v[0], p, v[1])
                else:
                    # CPython's reading of the displayed text vs the model's reading of the same tokens
                    back = ast.parse("def f" + shown + ": pass").body[0]
                    read_reqs.append("signature read " + " ".join(display_tokens(shown)))
                    read_impl.append("ok " + fields_of(back))
                    read_pay.append({"kind": "read", "text": shown})
    for stream, (rs, ims, pay) in by_stream.items():
        ctx.compare(stream, rs, ims, pay)
    if read_reqs:
        ctx.compare("read-displayed", read_reqs, read_impl, read_pay)


# ------------------------------------------------------------------ parser tie: model parseSig vs CPython

def run_read_stream(ctx: Ctx, texts: Sequence[str]) -> None:
    reqs, impls, pay = [], [], []
    for t in texts:
        fn = try_parse(t)
        toks = display_tokens("(" + t + ")")
        if any(x.startswith("?") or x in ("n?", "d?") for x in toks):
            ctx.count("read:unmappable")
            continue
        reqs.append("signature read " + " ".join(toks))
        impls.append("SyntaxError" if fn is None else "ok " + fields_of(fn))
        pay.append({"kind": "read", "text": "(" + t + ")"})
        ctx.count("read:accepted" if fn is not None else "read:rejected")
    ctx.compare("read-cpython", reqs, impls, pay)


# ------------------------------------------------------------------ overloads

# ways to spell the decorator: (key, module-level lines, class-body lines, decorator text)
# The first nine ARE typing.overload / typing_extensions.overload by Python's import rules (and pydoctor resolves
# each of them today); the last two are look-alikes that are NOT overload (plain redefinitions).
OVERLOAD_SPELLINGS = [
    ("bare", ["from typing import overload"], [], "overload"),
    ("dotted", ["import typing"], [], "typing.overload"),
    ("module-alias", ["import typing as t"], [], "t.overload"),
    ("renamed", ["from typing import overload as _ov"], [], "_ov"),
    ("te-bare", ["from typing_extensions import overload"], [], "overload"),
    ("te-dotted", ["import typing_extensions"], [], "typing_extensions.overload"),
    ("te-module-alias", ["import typing_extensions as te"], [], "te.overload"),
    ("te-renamed", ["from typing_extensions import overload as ov2"], [], "ov2"),
    ("class-local-renamed", [], ["from typing import overload as _o"], "_o"),     # only used inside a class
    ("foreign", ["from mylib import overload"], [], "overload"),
    ("local-def", ["def overload(f): return f"], [], "overload"),
]
REAL_OVERLOAD = ("typing.overload", "typing_extensions.overload")


import functools


@functools.lru_cache(maxsize=64)
def _bindings_of(module_src: str, in_class: bool) -> Dict[str, str]:
    tree = ast.parse(module_src)

    def bindings(body, env):
        for st in body:
            if isinstance(st, ast.Import):
                for al in st.names:
                    if al.asname:
                        env[al.asname] = al.name
                    else:
                        env[al.name.split(".")[0]] = al.name.split(".")[0]
            elif isinstance(st, ast.ImportFrom) and st.level == 0:
                for al in st.names:
                    if al.name != "*":
                        env[al.asname or al.name] = st.module + "." + al.name
            elif isinstance(st, (ast.FunctionDef, ast.AsyncFunctionDef, ast.ClassDef)):
                env[st.name] = "<local>." + st.name
            elif isinstance(st, ast.Assign):
                for t in st.targets:
                    if isinstance(t, ast.Name):
                        env[t.id] = "<local>." + t.id
        return env
    # bindings in force when the first decorated def is reached (good enough: generated imports come first)
    env = bindings([st for st in tree.body if not (isinstance(st, ast.FunctionDef) and st.name.startswith("g"))], {})
    if in_class:
        cls = [st for st in tree.body if isinstance(st, ast.ClassDef)][0]
        env = bindings([st for st in cls.body if not isinstance(st, ast.FunctionDef)], dict(env))
    return env


def decorator_is_overload(module_src: str, in_class: bool, deco: str) -> bool:
    """Python's own answer, independent of pydoctor: follow the import / def bindings of the module body
    (then of the class body) and see whether the decorator expression names typing[_extensions].overload."""
    env = _bindings_of(module_src, in_class)
    head, _, rest = deco.partition(".")
    if head not in env:
        return False
    full = env[head] + ("." + rest if rest else "")
    return full in REAL_OVERLOAD


def run_overloads(ctx: Ctx, ngroups: int) -> None:
    """`@overload` x k + implementation (oracle), and arbitrary def sequences (correspondence on the bookkeeping);
    the decorator is spelled in every way that is (or only looks like) typing.overload."""
    from pydoctor import model
    rng = ctx.rng
    reqs, impls, pay = [], [], []
    for g in range(ngroups):
        wellformed = g % 2 == 0
        in_class = rng.random() < 0.5
        key, modlines, clslines, deco = OVERLOAD_SPELLINGS[(g // 2) % len(OVERLOAD_SPELLINGS)]
        if clslines:
            in_class = True
        # (name index, decorated?, params, ret, FunctionDef)
        defs: List[Tuple[int, bool, str, str, ast.AST]] = []
        if wellformed:
            k = rng.randint(1, 3)
            seq = [(0, True)] * k + [(0, False)]
            if rng.random() < 0.4:   # another function in between groups / after
                seq = [(1, False)] + seq + [(1, False)] if rng.random() < 0.5 else seq + [(1, True), (1, False)]
        else:
            seq = [(rng.randint(0, 1), rng.random() < 0.55) for _ in range(rng.randint(1, 6))]
        for name, decorated in seq:
            while True:
                params = random_signature(rng, 0, 4, exprs=False)
                if in_class:
                    params = "self" + (", " + params if params else "")
                ret = rng.choice(RETS)
                fn = try_parse(params, ret)
                if fn is not None:
                    break
            defs.append((name, decorated, params, ret, fn))
        ind = "    " if in_class else ""
        lines = list(modlines) + [""]
        if in_class:
            lines.append("class K:")
            lines += [ind + l for l in clslines]
        for name, decorated, params, ret, fn in defs:
            if decorated:
                lines.append(ind + "@" + deco)
            lines.append("%sdef g%d(%s)%s: ..." % (ind, name, params, ret))
        src = "\n".join(lines) + "\n"
        real = decorator_is_overload(src, in_class, deco)      # Python's verdict on the spelling
        is_ov = [d[1] and real for d in defs]                   # is this def an overload (resolved name)?
        payload = {"kind": "overloads", "source": src, "spelling": key, "decorator_is_overload": real}
        system = build_system(src)
        parent = system.allobjects["m.K" if in_class else "m"]
        out = []
        for nm, ob in parent.contents.items():
            if not isinstance(ob, model.Function) or not re.match(r"^g\d+$", nm):
                continue
            S = "None" if ob.signature is None else " ".join(display_tokens(shown_signature(ob, False)[0]))
            O = " ; ".join(" ".join(display_tokens(shown_signature(o, False)[0])) for o in ob.overloads)
            if ob.overloads:
                shown = shown_overloads(ob)
            else:
                shown = [shown_signature(ob, True)]
            D = " ; ".join(" ".join(display_tokens(t)) for t, _ in shown)
            out.append("f%s S %s O %s D %s" % (nm[1:], S, O, D))
            if wellformed:
                idx = [i for i, d in enumerate(defs) if "g%d" % d[0] == nm]
                ovs = [defs[i] for i in idx if is_ov[i]]
                if ovs:
                    if not ob.overloads:
                        ctx.fail("overload-not-shown", payload,
                                 f"{len(ovs)} overloads written as @{deco} ({key}: {'; '.join(modlines + clslines)}) but the page "
                                 f"shows only one signature {shown[0][0]!r}: no overload shows its own signature")
                    elif len(shown) != len(ovs):
                        ctx.fail("overload-count", payload, f"{len(ovs)} overloads written (@{deco}, {key}), {len(shown)} shown")
                    else:
                        for (t, kw), d in zip(shown, ovs):
                            v = oracle(d[4], t)
                            if v:
                                ctx.fail("overload:" + v[0], payload, "overload does not show its own signature: " + v[1])
                else:
                    # plain (re)definitions: the last one is what the name means, and what must be shown
                    if ob.overloads:
                        ctx.fail("overload-invented", payload, f"@{deco} ({key}) is not typing.overload but {len(ob.overloads)} overloads are shown")
                    v = oracle(defs[idx[-1]][4], shown[0][0])
                    if v:
                        ctx.fail(v[0], payload, v[1])
        req = "signature defs %d %s" % (len(defs), " ".join("%d %s %s" % (d[0], "o" if ov else "d", fields_of(d[4]))
                                                          for d, ov in zip(defs, is_ov)))
        reqs.append(req)
        impls.append("ok " + " || ".join(out))
        pay.append(payload)
        nt = any(is_ov)
        ctx.case(key + " " + req, nt, {"source": src, "impl": impls[-1]} if nt and wellformed and key == "renamed"
                 and not any(isinstance(x, dict) and x.get("source", "").startswith("from typing import overload as") for x in ctx.samples) else None)
        ctx.count("stream:overloads")
        ctx.count("overloads:" + ("wellformed" if wellformed else "arbitrary"))
        ctx.count("overload-spelling:" + key)
    ctx.compare("overloads", reqs, impls, pay)


# ------------------------------------------------------------------ unstring_annotation tie

ATTR_TEXT = {0: "Literal", 1: "T", 2: "Annotated"}


def ann_trees(depth: int) -> List[Any]:
    """all annotation trees of the model's grammar up to the given depth (tuples: ('atom',1) ...)"""
    leaves: List[Any] = [("atom", 1), ("L",), ("N",), ("bad", 1)]
    level = list(leaves)
    allt = list(leaves)
    for _ in range(depth):
        nxt: List[Any] = []
        for e in level:
            nxt.append(("str", e))
            nxt.append(("attr", e, 0))
            nxt.append(("attr", e, 1))
        for ctor in ("sub", "tup", "bor"):
            for a in allt:
                for b in allt:
                    if a in level or b in level:
                        nxt.append((ctor, a, b))
        allt += nxt
        level = nxt
    return allt


def ann_text(e: Any) -> str:
    k = e[0]
    if k == "atom":
        return "a%d" % e[1]
    if k == "L":
        return "Literal"
    if k == "M":
        return "Annotated"
    if k == "lalias":
        return "LitAlias"
    if k == "aalias":
        return "AnnAlias"
    if k == "N":
        return "None"
    if k == "bad":
        return repr("a%d !" % e[1])
    if k == "str":
        return repr(ann_text(e[1]))
    if k == "attr":
        v = ann_text(e[1])
        if e[1][0] in ("tup", "bor"):
            v = "(" + v + ")"
        return v + "." + ATTR_TEXT[e[2]]
    if k == "sub":
        v = ann_text(e[1])
        if e[1][0] in ("tup", "bor"):
            v = "(" + v + ")"
        sl = ann_text(e[2])
        if e[2][0] == "tup":
            sl = sl[1:-1]
        return v + "[" + sl + "]"
    if k == "tup":
        return "(" + ann_text(e[1]) + ", " + ann_text(e[2]) + ")"
    if k == "bor":
        a, b = ann_text(e[1]), ann_text(e[2])
        if e[2][0] == "bor":
            b = "(" + b + ")"
        return a + " | " + b
    raise ValueError(k)


def ann_code(e: Any) -> str:
    k = e[0]
    return {"atom": lambda: "a%d" % e[1], "L": lambda: "L", "N": lambda: "N", "bad": lambda: "b%d" % e[1],
            "M": lambda: "M", "lalias": lambda: "l%d" % _crc("LitAlias", 1000), "aalias": lambda: "m%d" % _crc("AnnAlias", 1000),
            "str": lambda: "s" + ann_code(e[1]), "attr": lambda: "A%d%s" % (e[2], ann_code(e[1])),
            "sub": lambda: "S" + ann_code(e[1]) + ann_code(e[2]), "tup": lambda: "T" + ann_code(e[1]) + ann_code(e[2]),
            "bor": lambda: "O" + ann_code(e[1]) + ann_code(e[2])}[k]()


def _quotes_outside_literal(node: ast.AST) -> bool:
    """is a string constant left anywhere but in a value context: the slice of something that designates typing.Literal,
    the metadata (all but the first argument) of something that designates typing.Annotated?"""
    def designates(v: ast.AST, kind: str) -> bool:
        attr = "Literal" if kind == "literal" else "Annotated"
        return (isinstance(v, ast.Name) and v.id in _ENV[kind]) or (isinstance(v, ast.Attribute) and v.attr == attr)
    if isinstance(node, ast.Subscript):
        v = node.value
        if designates(v, "literal"):
            return _quotes_outside_literal(v)
        if designates(v, "annotated") and isinstance(node.slice, ast.Tuple) and node.slice.elts:
            return _quotes_outside_literal(v) or _quotes_outside_literal(node.slice.elts[0])
    if isinstance(node, ast.Constant) and isinstance(node.value, str):
        return True
    return any(_quotes_outside_literal(ch) for ch in ast.iter_child_nodes(node))


def run_unstring(ctx: Ctx, depth: int, nrandom: int) -> None:
    """astutils.unstring_annotation on annotation trees <-> model AnnE.unstring; oracle: only quotes change, and either
    a SyntaxError was reported and the node is untouched, or no forward-reference string is left"""
    from pydoctor import astutils
    system = build_system(MODULE_HEADER + "x = 1\n")
    mod = system.allobjects["m"]
    set_env_from_source(MODULE_HEADER)
    trees = ann_trees(depth)
    # value contexts: everything that can designate typing.Literal / typing.Annotated (bare, attribute, imported under
    # another name, quoted) and look-alikes, over every small slice, bare and wrapped
    heads: List[Any] = [("L",), ("M",), ("lalias",), ("aalias",), ("attr", ("atom", 1), 0), ("attr", ("atom", 1), 2),
                        ("attr", ("lalias",), 1), ("str", ("L",)), ("str", ("M",)), ("str", ("lalias",)), ("str", ("aalias",)),
                        ("atom", 1), ("attr", ("atom", 1), 1), ("attr", ("str", ("atom", 1)), 2)]
    small = [t for t in ann_trees(1)]
    for h in heads:
        for sl in small:
            base = ("sub", h, sl)
            trees += [base, ("str", base), ("sub", ("atom", 2), base), ("tup", base, ("str", ("atom", 2))), ("bor", ("str", ("atom", 2)), base)]
    rng = ctx.rng

    def rand_tree(d: int) -> Any:
        if d == 0 or rng.random() < 0.25:
            return rng.choice([("atom", 1), ("atom", 2), ("atom", 3), ("L",), ("N",), ("bad", 1), ("M",), ("lalias",), ("aalias",)])
        c = rng.choice(["str", "str", "attr", "sub", "sub", "tup", "bor"])
        if c == "str":
            return ("str", rand_tree(d - 1))
        if c == "attr":
            return ("attr", rand_tree(d - 1), rng.choice([0, 0, 1, 2, 2]))
        return (c, rand_tree(d - 1), rand_tree(d - 1))
    trees += [rand_tree(rng.randint(3, 5)) for _ in range(nrandom)]
    reqs, impls, pay = [], [], []
    for e in trees:
        text = ann_text(e)
        try:
            node = ast.parse(text, mode="eval").body
        except SyntaxError:
            ctx.count("unstring:text-not-python")
            continue
        code = ann_code(e)
        if enc_ann(node) != code:
            ctx.count("unstring:text-reads-differently")
            continue
        with Reports() as rep:
            try:
                res = astutils.unstring_annotation(ast.parse(text, mode="eval").body, mod)
                out = enc_ann(res) + (" SyntaxError" if any("syntax error in annotation" in d for _, d in rep.seen) else " clean")
            except Exception as ex:  # anything else escaping is a crash
                res = None
                out = "Crash:" + type(ex).__name__
        reqs.append("signature unstring " + code)
        impls.append(out)
        pay.append({"kind": "unstring", "text": text})
        failed = out.endswith("SyntaxError")
        ctx.case("unstring " + code, "s" in code and ("S" in code or "A" in code), None)
        ctx.count("stream:unstring")
        ctx.count("unstring:" + ("syntax-error" if failed else "unquoted" if "s" in code else "nothing-to-do"))
        if "SL" in code or "SA0" in code or "SsL" in code or "Sl" in code:
            ctx.count("unstring:has-Literal-subscript")
        if "SM" in code or "SA2" in code or "Sm" in code:
            ctx.count("unstring:has-Annotated-subscript")
        if res is None:
            ctx.fail("unstring:crash", {"kind": "unstring", "text": text}, out)
            continue
        # direct oracle, from the property text ("string annotations shown unquoted", nothing else changes)
        if _dump(_unquote_all(res)) != _dump(_unquote_all(node)):
            ctx.fail("unstring:changes-expression", {"kind": "unstring", "text": text},
                     f"{text!r} became {ast.unparse(res)!r}: more than quoting changed")
        elif failed and ast.dump(res) != ast.dump(node):
            ctx.count("unstring:failed-but-partly-unquoted-in-place")   # NodeTransformer works in place; only quoting differs (checked above)
        elif not failed and _quotes_outside_literal(res):
            ctx.fail("unstring:quotes-left", {"kind": "unstring", "text": text}, f"{text!r} became {ast.unparse(res)!r}: a forward reference is still quoted")
        elif not failed and _dump(_unquote(node)) != _dump(res):
            ctx.fail("unstring:literal-args", {"kind": "unstring", "text": text},
                     f"{text!r} became {ast.unparse(res)!r}: the arguments of Literal[...] must stay as written, everything else unquoted")
    ctx.compare("unstring", reqs, impls, pay)


def _unquote_all(node: ast.expr) -> ast.expr:
    """every string that holds an expression replaced by it, also inside Literal[...] (shape without quoting)"""
    class T(ast.NodeTransformer):
        def visit_Constant(self, n: ast.Constant) -> ast.AST:
            if isinstance(n.value, str):
                e = _parse_str_expr(n.value)
                if e is not None:
                    return self.visit(e)
            return n
    return T().visit(ast.parse(ast.unparse(node), mode="eval").body)


# ------------------------------------------------------------------ decorator loop tie

DECO_HEADER = ("import typing, functools, abc, builtins\nimport typing as t\nimport typing_extensions as te\n"
               "from typing import overload\nfrom typing import overload as _ov\nfrom mylib import overload as notov\n")
DECORATORS = ["property", "functools.cached_property", "abc.abstractproperty", "myProperty", "Property", "propertyx",
              "classmethod", "staticmethod", "builtins.classmethod", "p.setter", "p.deleter", "a.b.setter", "setter",
              "p.getter", "overload", "t.overload", "_ov", "typing.overload", "te.overload", "notov", "foo", "foo.bar",
              "foo(1)", "p.setter()", "overload()", "foo[0]", "(lambda f: f)", "foo().bar", "x.property", "x.setter.y"]


def deco_token(deco_src: str, module_src: str) -> str:
    """the model's view of one decorator: dotted name (node2dottedname semantics written independently) + does it name
    typing.overload by Python's import rules"""
    node = ast.parse(deco_src, mode="eval").body
    if isinstance(node, ast.Call):
        node = node.func
    parts: List[str] = []
    while isinstance(node, ast.Attribute):
        parts.insert(0, node.attr)
        node = node.value
    if not isinstance(node, ast.Name):
        return "-"
    parts.insert(0, node.id)
    from ..core import enc
    real = decorator_is_overload(module_src, False, ".".join(parts))
    return ("o:" if real else "x:") + "/".join(enc(p) for p in parts)


def run_decorators(ctx: Ctx, nrandom: int) -> None:
    """which defs become functions / properties / nothing, under which name and kind, overload or not:
    real _handleFunctionDef + format_function_def <-> model handleDef / shownName"""
    from pydoctor import model
    from ..core import enc
    rng = ctx.rng
    cases: List[Tuple[str, List[str]]] = []
    for parent in "mcf":
        cases.append((parent, []))
        for d in DECORATORS:
            cases.append((parent, [d]))
    for d1 in DECORATORS:
        for d2 in DECORATORS:
            cases.append(("c", [d1, d2]))
    for _ in range(nrandom):
        cases.append((rng.choice("mccf"), [rng.choice(DECORATORS) for _ in range(rng.randint(2, 4))]))
    reqs, impls, pay = [], [], []
    batch = 150
    for start in range(0, len(cases), batch):
        chunk = cases[start:start + batch]
        lines = [DECO_HEADER]
        for i, (parent, decos) in enumerate(chunk):
            if parent == "m":
                lines += ["@" + d for d in decos] + ["def h%d(a, /, b=1): ..." % i]
            elif parent == "c":
                lines += ["class K%d:" % i] + ["    @" + d for d in decos] + ["    def h%d(self, a, /, b=1): ..." % i]
            else:
                lines += ["def outer%d():" % i] + ["    @" + d for d in decos] + ["    def h%d(a, /, b=1): ..." % i]
        src = "\n".join(lines) + "\n"
        system = build_system(src)
        for i, (parent, decos) in enumerate(chunk):
            scope = system.allobjects["m" if parent == "m" else ("m.K%d" % i if parent == "c" else "m.outer%d" % i)]
            made = [(n, o) for n, o in scope.contents.items() if parent != "m" or n == "h%d" % i]
            if not made:
                out = "inner"
            elif len(made) > 1:
                out = "several:" + ",".join(n for n, _ in made)
            else:
                n, ob = made[0]
                if isinstance(ob, model.Attribute):
                    out = ("property " if ob.kind is model.DocumentableKind.PROPERTY else "attribute ") + enc(n)
                elif isinstance(ob, model.Function):
                    kind = {model.DocumentableKind.STATIC_METHOD: "static", model.DocumentableKind.CLASS_METHOD: "class"}.get(ob.kind, "plain")
                    if ob.overloads:
                        shown = shown_overloads_names(ob)
                        sn = shown[0] if shown else "?"
                    else:
                        from pydoctor.templatewriter import pages
                        from pydoctor.stanutils import flatten_text
                        m = DEF_RE.match(flatten_text(pages.format_function_def(ob.name, ob.is_async, ob)))
                        sn = m.group(2) if m else "?"
                    out = "function %s %s %s shown=%s" % (enc(n), kind, "o" if ob.overloads else "d", enc(sn))
                else:
                    out = "other:" + type(ob).__name__
            req = "signature decos %s %s %s" % (parent, enc("h%d" % i), " ".join(deco_token(d, src) for d in decos))
            reqs.append(req.rstrip())
            impls.append(out)
            pay.append({"kind": "decorators", "parent": parent, "decorators": decos})
            ctx.case("decos " + parent + " " + " ".join(decos), len(decos) >= 1 and parent == "c", None)
            ctx.count("stream:decorators")
            ctx.count("decorators:outcome:" + out.split(" ")[0])
            # oracle (property text): a real @overload def shows its own signature (here: is recorded as an overload at all)
            if parent != "f" and out.startswith("function") and any(deco_token(d, src).startswith("o:") for d in decos):
                if out.split(" ")[3] != "o":
                    ctx.fail("overload-not-shown", {"kind": "decorators", "parent": parent, "decorators": decos},
                             f"decorators {decos} name typing.overload but the def is not recorded as an overload")
    ctx.compare("decorators", reqs, impls, pay)


def shown_overloads_names(func) -> List[str]:
    from pydoctor.templatewriter import pages
    from pydoctor.stanutils import flatten_text
    from twisted.web.template import Tag
    res = []
    for item in pages.format_overloads(func):
        if isinstance(item, Tag) and item.tagName == "div":
            m = DEF_RE.match(flatten_text(item))
            res.append(m.group(2) if m else "?")
    return res


# ------------------------------------------------------------------ format_signature fallbacks

def run_fallback(ctx: Ctx) -> None:
    """Function objects that do not come from source: no signature, or a signature whose rendering raises -> '(...)'"""
    import inspect
    from pydoctor import model
    from pydoctor.templatewriter import pages
    from pydoctor.stanutils import flatten_text
    class Raiser:
        def __repr__(self) -> str:
            raise RuntimeError("boom")

    class Bad:
        def __repr__(self) -> str:
            return "<unclosed"
    reqs, impls, pay = [], [], []
    for how in ("none", "raises", "none-overload", "raises-overload", "invalid-xml"):
        system = build_system("def g(a): ...\n")
        func = system.allobjects["m.g"]
        if how.startswith("none"):
            func.signature = None
        elif how == "invalid-xml":
            func.signature = inspect.Signature([inspect.Parameter("a", inspect.Parameter.POSITIONAL_OR_KEYWORD, default=Bad())])
        else:
            func.signature = inspect.Signature([inspect.Parameter("a", inspect.Parameter.POSITIONAL_OR_KEYWORD, default=Raiser())])
        target: Any = func
        if how.endswith("overload"):
            target = model.FunctionOverload(primary=func, signature=func.signature, decorators=[])
        try:
            text = flatten_text(pages.format_signature(target))
            out = " ".join(display_tokens(text))
        except Exception as ex:
            out = "Crash:" + type(ex).__name__
        reqs.append("signature fsig " + ("none" if how.startswith("none") else "raises"))
        impls.append(out)
        pay.append({"kind": "fallback", "how": how})
        ctx.case("fallback " + how, False, None)
        ctx.count("stream:fallback")
    ctx.compare("fallback", reqs, impls, pay)


# ------------------------------------------------------------------ deterministic corpus (runs first)

CORPUS = [
    ("seeded-C14-r4-2-operator-expression-as-subscripted-or-called-operand",
     "def first(name=(NAMES + EXTRA)[0], rest=(NAMES + EXTRA)[1:], sep=(PREFIX * 2)[:-1]): ...\n"
     "def pick(factory=(fallback or dict)(), neg=(-offset)[0], *, shout=(PREFIX + '%s')(1), flag=(not ready)()): ...\n"
     "def typed(x: (A | B)[int] = None, y: \"(A | B)[str]\" = None) -> (A | B)[None]: ...\n"
     "def controls(a=f(x + y, k=c | d), b=x[i + 1], c=x[-1], d=f(-1), e=f(*(p or q), **(r or s)), g=(x + y) * z): ...\n"),
    ("seeded-C14-r3-1-equal-constants-in-one-module",
     "def first(verbose=False, scale=1.0):\n    pass\ndef connect(host, retries=0, workers=1, strict=True, *, backoff=0.0, debug=False):\n    pass\n"
     "class K:\n    def m(self, a=0, b=False, c=0.0, d=-0.0, e=0j, f=1, g=True, h=1.0): ...\n    def n(self, a=True, b=1, c='', d=b'', e='a', f=b'a', g=None, h=0): ...\n"),
    ("fixed-c06a302-value-strings-unquoted",
     "from typing import Literal as L, Annotated\nimport typing as t\ndef b(x: Annotated[int, 'meta'], y: L['int'], z: t.Annotated[int, 'unit']) -> L['r', 'w']: ...\n"),
    ("seeded-C14-1-aliased-overload",
     "import typing as t\nfrom typing import overload as _overload, Union\n\n@_overload\ndef parse(s: str, /, *, strict: bool = True) -> str: ...\n"
     "@_overload\ndef parse(s: bytes, /, encoding: str = 'utf-8', *rest: int, **kw: object) -> bytes: ...\ndef parse(s, *args, **kw):\n    'impl'\n\n"
     "@t.overload\ndef control(a: int) -> int: ...\n@t.overload\ndef control(a: str, b: float = 0.5) -> str: ...\ndef control(a, b=None):\n    'impl'\n"
     "class K:\n    from typing_extensions import overload as ov\n    @ov\n    def m(self, a: int) -> int: ...\n    @ov\n    def m(self, a: str, /) -> str: ...\n    def m(self, a): ...\n"),
    ("seeded-C14-2-annotated-positional-only",
     "def f(a: int, b: 'Optional[str]' = None, /, c: float = 0.5): ...\nclass K:\n    def m(self: 'K', x: \"List['K']\", /, *a: int, k: 'K' = None, **kw: 'K') -> 'K': ...\n"),
    ("seeded-C14-r2-1-shared-string-annotation",
     "def g1(x: Flags & \"Read | Write\"): ...\ndef g2(y: \"Read | Write\"): ...\ndef g3(x: Flags & \"Read | Write\", y: \"Read | Write\") -> \"Read | Write\": ...\n"
     "def g4(y: \"Read | Write\", x: Flags & \"Read | Write\"): ...\ndef g5(z: \"A - B\", w: C - \"A - B\") -> C * \"A - B\": ...\ndef g6(q: \"A - B\"): ...\n"),
    ("seeded-C14-r2-2-right-operand-same-level",
     "def g(a=4 * (10 // 4), b=BASE + (JITTER - SKEW), c=A + (B + C), d=A * (B % C), e=A * (B / C), f: X | (Y | Z) = 1, h: X & (Y & Z) = 2, i=A ^ (B ^ C)): ...\n"
     "def k(a=(A - B) + C, b=A - (B + C), c=A / (B * C), d=A // (B // C), e=2 ** (3 ** 2), f=(2 ** 3) ** 2, g=-(A + B), h=A << (B << C)): ...\n"),
    ("seeded-C14-r2-3-literal-through-alias",
     "import typing as t\nimport typing_extensions as te\ndef g(m: t.Literal[\"r\", \"w\"], n: te.Literal[\"x\"], o: 'te.Literal[\"y\"]', p: x.y.Literal[\"z\"]) -> t.Literal[\"q\"]: ...\n"
     "def h(m: Literal[\"r\", \"w\"], n: typing.Literal[\"x\"], o: typing_extensions.Literal[\"y\"], p: List[\"r\"], q: t.List[\"w\"]) -> t.Optional[\"q\"]: ...\n"),
]


def _simulate_comma_loss(node: ast.AST) -> Optional[ast.AST]:
    """the expression as it reads when every one-element tuple loses its comma ((x,) -> (x), a[x,] -> a[x]);
    None when that is not an expression any more ((*a,) -> (*a), T[()] -> T[])"""
    class T(ast.NodeTransformer):
        bad = False

        def visit_Tuple(self, n: ast.Tuple) -> ast.AST:
            self.generic_visit(n)
            if len(n.elts) == 1:
                if isinstance(n.elts[0], ast.Starred):
                    self.bad = True
                    return n
                return n.elts[0]
            return n

        def visit_Subscript(self, n: ast.Subscript) -> ast.AST:
            if isinstance(n.slice, ast.Tuple) and not n.slice.elts:
                self.bad = True
            return self.generic_visit(n)
    t = T()
    res = t.visit(ast.parse(ast.unparse(node), mode="eval").body)
    return None if t.bad else res


def classify_failure(fn: ast.AST, displayed: str, v: Tuple[str, str], reports: List[str]) -> Tuple[str, str]:
    """give a read-back failure the SPECIFIC signature of a known cause when, and only when, that cause explains it"""
    exprs = [e for e in list(fn.args.defaults) + list(fn.args.kw_defaults) +
             [a.annotation for a in ast.walk(fn.args) if isinstance(a, ast.arg)] + [fn.returns] if e is not None]
    src_text = ast.unparse(fn.args) + (ast.unparse(fn.returns) if fn.returns is not None else "")
    raw_exprs = exprs
    exprs = [_unquote_all(e) for e in exprs]         # a tuple written inside a string annotation counts too
    if displayed.strip() == "(...)":
        bad = [r for r in reports if "bad signature" in r]
        kind = "other"
        if any("undefined entity" in r for r in bad):
            kind = "undefined-entity"
        elif any("not well-formed" in r or "invalid token" in r or "invalid character" in r.lower() for r in bad):
            kind = "invalid-xml-character"
        elif not bad:
            kind = "no-report"
        return ("signature-wiped:" + kind, v[1] + " -- the whole signature is replaced by '(...)': " + "; ".join(bad)[:200])
    if displayed.count("...") > src_text.count("..."):
        if any(isinstance(n, ast.JoinedStr) and any(isinstance(p, ast.Constant) and isinstance(p.value, str) and "\n" in p.value
                                                       for p in n.values) for e in exprs for n in ast.walk(e)):
            return ("truncated:fstring-with-newline", v[1] + " -- astor writes an f-string holding a newline as a triple-quoted "
                    "multi-line literal; the inline display is cut at the line break (C15 delegated:astor)")
        return ("truncated:generic-expression", v[1] + " -- an expression handed to astor is wrapped at ~80 columns and the inline "
                "display is cut at the line break and ends in '...'")
    has_small_tuple = any(isinstance(n, ast.Tuple) and len(n.elts) <= 1 for e in exprs for n in ast.walk(e))
    if has_small_tuple:
        if v[0] == "display-unparsable":
            if any(_simulate_comma_loss(e) is None for e in exprs):
                return ("display-unparsable:singleton-or-empty-tuple", v[1] + " -- (C15 tuple:singleton-comma-lost / tuple:empty-index)")
        else:
            # would the display be right if the source had been written without those commas? then that is the whole cause
            class T(ast.NodeTransformer):
                def visit_Tuple(self, n: ast.Tuple) -> ast.AST:
                    self.generic_visit(n)
                    return n.elts[0] if len(n.elts) == 1 and not isinstance(n.elts[0], ast.Starred) else n

                def visit_Constant(self, n: ast.Constant) -> ast.AST:
                    if isinstance(n.value, str):
                        e = _parse_str_expr(n.value)
                        if e is not None and any(isinstance(x, ast.Tuple) and len(x.elts) == 1 for x in ast.walk(e)):
                            return ast.Constant(ast.unparse(self.visit(e)))
                    return n
            try:
                sim = ast.parse(ast.unparse(T().visit(ast.parse(ast.unparse(fn)).body[0]))).body[0]
                if oracle(sim, displayed) is None:
                    return ("singleton-tuple-comma-lost", v[1] + " -- exactly the one-element tuples lost their comma (C15 tuple:singleton-comma-lost)")
            except SyntaxError:
                pass
    return v


def check_module_by_oracle(ctx: Ctx, tag: str, src: str, stream: str = "corpus") -> int:
    """every def of the module judged by the direct oracle only (free-form expressions, no model involved)"""
    from pydoctor import model
    tree = ast.parse(src)
    system = build_system(src)
    set_env_from_source(src)
    n = 0

    def scope(body: List[ast.stmt], full: str, in_class: bool) -> None:
        nonlocal n
        groups: Dict[str, List[ast.AST]] = {}
        for st in body:
            if isinstance(st, (ast.FunctionDef, ast.AsyncFunctionDef)):
                groups.setdefault(st.name, []).append(st)
            elif isinstance(st, ast.ClassDef):
                scope(st.body, full + "." + st.name, True)
        for name, defs in groups.items():
            ob = system.allobjects.get(full + "." + name)
            payload = {"kind": "corpus", "id": tag, "source": src}
            if not isinstance(ob, model.Function):
                ctx.fail("function-missing", payload, f"{full}.{name} is not documented as a function")
                continue
            ovs = [d for d in defs if any(decorator_is_overload_in(tree, body if in_class else None, ast.unparse(dd)) for dd in d.decorator_list)]
            n += 1
            ctx.case(stream + " " + tag + " " + name + " " + (src if stream != "corpus" else ""), True, None)
            ctx.count("stream:" + stream)
            if ovs:
                shown = shown_overloads(ob) if ob.overloads else []
                if not ob.overloads:
                    ctx.fail("overload-not-shown", payload, f"{len(ovs)} overloads of {name} written, none shown ({tag})")
                elif len(shown) != len(ovs):
                    ctx.fail("overload-count", payload, f"{len(ovs)} overloads of {name} written, {len(shown)} shown ({tag})")
                else:
                    for (t, _), d in zip(shown, ovs):
                        v = oracle(d, t)
                        if v:
                            ctx.fail("overload:" + v[0], payload, f"{tag}: overload of {name} does not show its own signature: " + v[1])
            else:
                with Reports() as rep:
                    t, kw = shown_signature(ob, True)
                v = oracle(defs[-1], t)
                if v:
                    v = classify_failure(defs[-1], t, v, [d for _, d in rep.seen])
                    ctx.fail(v[0], payload, f"{tag}: {name}: " + v[1])
    try:
        scope(tree.body, "m", False)
    finally:
        set_env_from_source(None)
    return n


def decorator_is_overload_in(tree: ast.Module, class_body: Optional[List[ast.stmt]], deco: str) -> bool:
    src = ast.unparse(tree)
    node = ast.parse(deco, mode="eval").body
    if isinstance(node, ast.Call):
        node = node.func
    try:
        dotted = ast.unparse(node)
    except Exception:
        return False
    if not re.match(r"^[A-Za-z_][\w.]*$", dotted):
        return False
    if class_body is None:
        return decorator_is_overload(src, False, dotted)
    # class scope: bindings of the class body first, then the module's
    env_src = "\n".join(ast.unparse(st) for st in tree.body if not isinstance(st, ast.ClassDef)) + "\nclass _K:\n" + \
        "".join("    " + line + "\n" for st in class_body if isinstance(st, (ast.Import, ast.ImportFrom)) for line in ast.unparse(st).splitlines()) + "    pass\n"
    return decorator_is_overload(env_src, True, dotted)


OPERATOR_EXPRS = {"unary-": "-a", "unary~": "~a", "not": "not a", "bin+": "a + b", "bin-": "a - b", "bin*": "a * b", "bin|": "a | b",
                  "bin**": "a ** b", "bin%": "a % b", "bin<<": "a << b", "or": "a or b", "and": "a and b", "cmp<": "a < b",
                  "cmp-in": "a in b", "cmp-is-not": "a is not b", "cmp-chain": "a < b < c", "ifexp": "a if c else b",
                  "lambda": "lambda: a", "lambda-arg": "lambda q: q", "walrus": "(q := a)"}
OPERAND_CONTEXTS = {"subscript": "({e})[0]", "slice": "({e})[1:]", "call": "({e})()", "call-args": "({e})(1, k=2)",
                    "attribute": "({e}).x", "method-call": "({e}).m()", "subscript-twice": "({e})[0][1]",
                    "inside-call-arg": "g(({e})[0], k=({e})())", "inside-list": "[({e}).x, ({e})[0]]"}


def run_operand_shapes(ctx: Ctx) -> None:
    """operator expressions (unary, binary, boolean, comparison, conditional, lambda, walrus) as the operand that is
    subscripted / called / attribute-accessed, as default, annotation, string annotation and return annotation:
    the grouping parentheses must survive (read-back oracle only; the expression text itself is C15's model)"""
    lines: List[str] = []
    n = 0
    for ok, e in OPERATOR_EXPRS.items():
        for ck, c in OPERAND_CONTEXTS.items():
            expr = c.format(e=e)
            for where, sig in (("default", "p=%s" % expr), ("annotation", "p: %s" % expr), ("string-annotation", "p: %r" % expr),
                               ("kwonly-default", "*, p: int = %s" % expr), ("return", ") -> (%s" % expr)):
                src = "def f%d(%s): ..." % (n, sig)
                try:
                    ast.parse(src)
                except SyntaxError:
                    ctx.count("operand-shapes:not-python")
                    continue
                lines.append(src)
                ctx.count("operand-shapes:operator:" + ok)
                ctx.count("operand-shapes:context:" + ck)
                ctx.count("operand-shapes:where:" + where)
                n += 1
    for start in range(0, len(lines), 200):
        check_module_by_oracle(ctx, "operand-shapes", "\n".join(lines[start:start + 200]) + "\n", stream="operand-shapes")


HUNTER_SHAPES: Dict[str, List[str]] = {
    # one-element / empty tuples (hunt/C14/1; colorizer defect = C15 tuple:singleton-comma-lost, tuple:empty-index)
    "small-tuple": ["p=(1,)", "p=(a,)", "p='%s' % (a,)", "p=(*a,)", "p=a[1,]", "p=g((1,))", "p: Tuple[()] = ()", "p: Tuple[(int,)] = None",
                    "p=((1,),)", "p=[(1,)]", "p={'k': (a,)}", "*, p=(None,)", "p: 'Tuple[()]' = None", ") -> Tuple[(",
                    "p=(1, 2)", "p=()", "p=a[1, 2]", "p: Tuple[int, str] = None"],
    # characters that are not XML / HTML entities in the signature's HTML (hunt/C14/2; family of C09 html2stan:nbsp-entity)
    "xml-hostile-text": ["p='\\xa0'", "words, count: int = 0, *, sep='a\\xa0b'", "p: Literal['\\xa0'] = None", "p='\\ufffe'", "p='\\uffff'",
                         "p=b'\\xa0'", "p='\\x0c'", "p='\\x1b'", "p='&nbsp;'", "p='<b>&amp;</b>'", "p='\\u2028'"],
    # long expressions of the kinds the colorizer hands to astor (hunt/C14/3)
    "long-generic": ["x=a < " + "b" * 74, "x=a < " + "b" * 60,
                     "host, port=8080, timeout=DEFAULT_CONNECTION_TIMEOUT if os.environ.get('APPLICATION_TIMEOUT') is None else float(os.environ['APPLICATION_TIMEOUT']), *, retries=3",
                     "x=lambda aaaaaaaaaaaaaaaaaaaaaaaaa, bbbbbbbbbbbbbbbbbbbbbbbbbbbbbbbbbb, cccccccccccccccccccccccccc: aaaaaaaaaaaaaaaaaaaaaaaaa + 1",
                     "x=[iiiiiiiiiiiiiiiiii for iiiiiiiiiiiiiiiiii in range(100000000) if iiiiiiiiiiiiiiiiii % 1234567 == 0 and iiiiiiiiiiiiiiiiii > 12]",
                     "x: " + "a < b < " + "c" * 80 + " = 1", "x=f'{a}\\n'", "x=f'{a} and {b!r:>10}'", "x=a if b else c",
                     "x=vvvvvvvvvvvvvvvvvvvvvvvvvvvvvvvvvvvvvvvvvvvvvvvv[llllllllllllllllllllllllllllllllllllllllllll:uuuuuuuuuuuuuuuuuuuuuuuuuuuuuuuuuuuuuuuuuu]"],
    # documented spelling, not a violation: a set display is shown as set([...])
    "set-display": ["p={1, 2}", "p={a}", "p=set()", "p=[{1, 2}, {3}]", "p=set([1, 2])"],
    # re.compile defaults (hunt/C14/4; colorizer defects = C15 regex:*)
    "regex": ["x=re.compile(r'(?x)a\\ b')", "text, pattern=re.compile(r'(?x) (\\w+) \\ (\\w+) \\# (\\d+)')", "x=re.compile(r'(a)\\1[0]')",
              "x=re.compile(r'(?P<d>x)(?P=d)0')", "x=re.compile(r'a\\ b', re.VERBOSE)", "x=re.compile(r'(?x)[ #]+ \\d')",
              "x=re.compile(r'\\d+')", "x=re.compile('a|b')", "x=re.compile(r'(?i)foo(bar)?')", "x=re.compile(r'^[a-z_]\\w*$', re.I)",
              "x=re.compile(rb'\\x00+')", "x=re.compile(r'(a)(b)\\2')"],
}


def run_hunter_shapes(ctx: Ctx) -> None:
    """shapes on which a hunter showed the unchanged tree violating the read-back (and their well-behaved neighbours);
    deterministic, oracle only, every def judged on its own and a failure classified to the SPECIFIC known cause"""
    for family, sigs in HUNTER_SHAPES.items():
        lines = ["import re, os", "from typing import *"]
        n = 0
        for sig in sigs:
            src = "def f%d(%s): ..." % (n, sig) if not sig.startswith(") ->") else "def f%d(%s)]: ..." % (n, sig)
            try:
                ast.parse(src)
            except SyntaxError:
                ctx.count("hunter-shapes:not-python")
                continue
            lines.append(src)
            n += 1
        ctx.count("hunter-shapes:" + family, n)
        check_module_by_oracle(ctx, "hunter-shapes:" + family, "\n".join(lines) + "\n", stream="hunter-shapes")


def run_corpus(ctx: Ctx) -> None:
    total = 0
    for tag, src in CORPUS:
        total += check_module_by_oracle(ctx, tag, src)
    ctx.extra["corpus_defs"] = total


# ------------------------------------------------------------------ whole modules: state shared between signatures

CONSTANTS = ["0", "False", "0.0", "-0.0", "0j", "1", "True", "1.0", "1e0", "0x1", "''", "b''", "'a'", "b'a'", "None", "2", "2.0",
             "-1", "-1.0", "'0'", "'False'", "...", "255", "0xff"]


def run_module_constants(ctx: Ctx, nrandom: int) -> None:
    """several functions per module through the real builder, every signature rendered in source order, defaults drawn
    from constants that compare equal but are different constants (0/False/0.0/-0.0/0j, 1/True/1.0, ''/b'' ...):
    anything shared between the signatures of one module (caches keyed by value, shared nodes) shows here. Oracle only."""
    rng = ctx.rng
    sources: List[Tuple[str, str]] = []
    for c1 in CONSTANTS:
        for c2 in CONSTANTS:
            sources.append(("pair-two-functions", "def f(a=%s): ...\ndef g(a=%s): ...\n" % (c1, c2)))
            sources.append(("pair-one-function", "class K:\n    def m(self, a=%s, *, b=%s): ...\n" % (c1, c2)))
    for _ in range(nrandom):
        lines = []
        in_class = False
        for i in range(rng.randint(2, 5)):
            params = []
            npar = rng.randint(1, 5)
            star = rng.randint(0, npar)
            for j in range(npar):
                if j == star and j > 0:
                    params.append("*")
                ann = rng.choice(["", "", ": int", ": 'a1'"])
                params.append("p%d%s%s%s" % (j, ann, " = " if ann else "=", rng.choice(CONSTANTS)))
            if rng.random() < 0.3 and not in_class:
                lines.append("class K%d:" % i)
                in_class = True
            ind = "    " if in_class else ""
            if in_class:
                params.insert(0, "self")
            lines.append("%sdef f%d(%s)%s: ..." % (ind, i, ", ".join(params), rng.choice(["", " -> None", " -> 'a2'"])))
            if in_class and rng.random() < 0.5:
                in_class = False
        sources.append(("random-module", "\n".join(lines) + "\n"))
    for tag, src in sources:
        try:
            ast.parse(src)
        except SyntaxError:
            ctx.count("module-constants:unparsable-generated")
            continue
        n0 = len(ctx.failures)
        check_module_by_oracle(ctx, "module-constants:" + tag, src, stream="module-constants")
        ctx.count("module-constants:" + tag)


# ------------------------------------------------------------------ run

def run(ctx: Ctx) -> None:
    import time as _time
    rng = ctx.rng
    phases: Dict[str, float] = {}
    ctx.extra["phase_seconds"] = phases

    def timed(name: str, fn, *a) -> None:
        t0 = _time.time()
        fn(*a)
        phases[name] = round(phases.get(name, 0.0) + _time.time() - t0, 1)
    # 0. deterministic corpus: the shapes of every seeded change, independent of the seed, first
    timed("corpus", run_corpus, ctx)
    timed("hunter-shapes", run_hunter_shapes, ctx)
    timed("operand-shapes", run_operand_shapes, ctx)
    timed("fallback", run_fallback, ctx)
    _t_gen = _time.time()
    set_env_from_source(MODULE_HEADER)
    nmax = 3 if ctx.quick else 4
    cases: List[Case] = []
    read_texts: List[str] = []
    accepted = {n: 0 for n in range(nmax + 1)}
    candidates = {n: 0 for n in range(nmax + 1)}
    # 1. exhaustive layouts
    for n in range(nmax + 1):
        for idx, items in enumerate(layouts(n)):
            text = items_text(items)
            candidates[n] += 1
            read_texts.append(text)
            if try_parse(text) is None:
                continue
            accepted[n] += 1
            rets = RETS if n <= nmax - 1 else [RETS[accepted[n] % 3]]
            for ret in rets:
                c = make_case("exhaustive", text, ret, "function", via_def=False)
                assert c is not None
                cases.append(c)
    ctx.extra["exhaustive_candidates"] = candidates
    ctx.extra["exhaustive_accepted_by_ast_parse"] = accepted
    ctx.exhaustive = True
    # never-valid items (*x=1, **x=1) and doubled separators only feed the parser tie
    for n in range(1, 3):
        for items in layouts(n, PARAM_ITEMS + PARAM_ITEMS_BAD):
            if any(it in PARAM_ITEMS_BAD for it in items):
                read_texts.append(items_text(items))
    for extra in ("/, /", "p0, /, p1, /", "*, *, p0", "*p0, *p1", "**p0, **p1", "**p0, p1", "**p0, *p1", "*, **p0", "*p0, /",
                  "p0=d0, /, p1", "p0, /, *, p1=d0, **p2", "*, p0, /"):
        read_texts.append(extra)
    # 2. contexts: every layout of <= 2 parameters in every context, through format_function_def
    for context in CONTEXTS:
        if context == "function":
            continue
        for n in range(0, 3):
            for items in layouts(n):
                c = make_case("contexts", items_text(items), RETS[(n + len(items)) % 3], context, via_def=True)
                if c is not None:
                    cases.append(c)
    # 3. string annotations and the -> None spellings
    anns = ["'a0'", "\"'a0'\"", "List['a0']", "'List[a0]'", "Literal['a0']", "'a0 !'", "\"'a0 !'\"", "List['a0 !']", "None", "'None'",
            "typing.Literal['a0']", "Dict['a0', List['a0']]", "\"Optional['a0']\"", "t.Literal['a0']", "te.Literal['a0', 'x']",
            "'t.Literal[\"a0\"]'", "List[t.Literal['a0']]", "'Literal'['a0']", "Annotated['a0', 'meta']", "t.Annotated[a0, 'x y']",
            "LitAlias['a0']", "AnnAlias['a0', 'a0']", "List[AnnAlias[LitAlias['a0'], 'a0']]"]
    for a in anns:
        for tmpl in ("p0: {a}", "p0: {a} = d0", "p0: {a}, /, p1", "*p0: {a}", "**p0: {a}", "*, p0: {a} = d0", "p0, p1: {a}"):
            for ret in ("", " -> " + a, " -> None", " -> 'None'", " -> \"'None'\""):
                for context in ("function", "method"):
                    c = make_case("strings", tmpl.format(a=a), ret, context, via_def=context == "method")
                    if c is not None:
                        cases.append(c)
    # 4. duplicate names: ast.parse accepts, the compiler does not; pydoctor takes the ValueError branch
    for t in ("p0, p0", "p0, /, p0", "p0, *p0", "p0, *, p0", "p0, **p0", "*p0, **p0", "p0=d0, p0=7001", "p0, p1, *, p1: a0", "*, p0, p0"):
        for ret in RETS:
            c = make_case("duplicate-names", t, ret, "function", via_def=False, apply_oracle=False)
            if c is not None:
                cases.append(c)
    # 5. random longer signatures
    nrand = 800 if ctx.quick else 30000
    for i in range(nrand):
        exprs = i % 3 != 0
        text = random_signature(rng, 5, 10, exprs)
        ret = rng.choice(RETS + [" -> 'a98'", " -> List[a97]"])
        context = rng.choice(list(CONTEXTS))
        c = make_case("random-long", text, ret, context, via_def=rng.random() < 0.5)
        if c is None:
            ctx.count("random-long:rejected-by-ast-parse")
            continue
        cases.append(c)
        if not exprs:
            read_texts.append(c.params)
    phases["generate-cases"] = round(_time.time() - _t_gen, 1)
    timed("signature-streams", run_cases, ctx, cases)
    timed("read-cpython", run_read_stream, ctx, read_texts)
    timed("overloads", run_overloads, ctx, 330 if ctx.quick else 4400)
    timed("unstring", run_unstring, ctx, 2, 300 if ctx.quick else 40000)
    timed("decorators", run_decorators, ctx, 200 if ctx.quick else 6000)
    timed("module-constants", run_module_constants, ctx, 150 if ctx.quick else 6000)


# ------------------------------------------------------------------ replay

def replay(ctx: Ctx, obj) -> int:
    inp = obj.get("input") or obj.get("request") or obj
    if isinstance(inp, dict) and inp.get("kind") == "single":
        c = make_case(inp["stream"], inp["params"], inp["ret"], "function", inp["via_def"], inp.get("apply_oracle", True))
        if c is None:
            print("source is not accepted by ast.parse")
            return 2
        c = Case(inp["stream"], inp["params"], inp["ret"], inp["context"], try_parse(inp["params"], inp["ret"]), inp["via_def"],
                 inp.get("apply_oracle", True))
        src = module_source([c])
        print("source :\n" + src)
        from pydoctor import model
        with Reports() as rep:
            system = build_system(src)
        func = [o for o in system.allobjects.values() if isinstance(o, model.Function)][0]
        shown, kw = shown_signature(func, c.via_def)
        req = "signature sig " + fields_of(c.fn)
        print("shown  :", kw, shown)
        print("request:", req)
        print("impl   : ok %s | %s | %s" % (impl_params(func.signature), " ".join(display_tokens(shown)),
                                            "ValueError" if any("invalid parameters" in d for _, d in rep.seen) else "clean"))
        try:
            print("model  :", ctx.driver.run([req])[0])
        except Exception as e:
            print("model  : unavailable", e)
        v = oracle(c.fn, shown) if c.apply_oracle else None
        print("oracle :", v or "property holds on this input")
        return 1 if v else 0
    if isinstance(inp, dict) and inp.get("kind") == "read":
        t = inp["text"]
        toks = display_tokens(t)
        try:
            fn = ast.parse("def f" + t + ": pass").body[0]
            print("cpython: ok", fields_of(fn))
        except SyntaxError as e:
            print("cpython: SyntaxError", e)
        print("model  :", ctx.driver.run(["signature read " + " ".join(toks)])[0])
        return 0
    if isinstance(inp, dict) and inp.get("kind") == "unstring":
        from pydoctor import astutils
        system = build_system("x = 1\n")
        node = ast.parse(inp["text"], mode="eval").body
        code = enc_ann(node)
        with Reports() as rep:
            res = astutils.unstring_annotation(ast.parse(inp["text"], mode="eval").body, system.allobjects["m"])
        print("text   :", inp["text"])
        print("impl   :", ast.unparse(res), "|", enc_ann(res), "|", [d for _, d in rep.seen])
        print("model  :", ctx.driver.run(["signature unstring " + code])[0])
        return 0
    if isinstance(inp, dict) and inp.get("kind") == "corpus":
        n0 = len(ctx.failures)
        check_module_by_oracle(ctx, inp.get("id", "replay"), inp["source"])
        print(inp["source"])
        for f in ctx.failures[n0:]:
            print("oracle :", f["signature"], "-", f["what"])
        if len(ctx.failures) == n0:
            print("oracle : property holds on this input")
        return 1 if len(ctx.failures) > n0 else 0
    if isinstance(inp, dict) and inp.get("kind") == "decorators":
        src = DECO_HEADER + {"m": "", "c": "class K:\n", "f": "def outer():\n"}[inp["parent"]]
        ind = "" if inp["parent"] == "m" else "    "
        src += "".join(ind + "@" + d + "\n" for d in inp["decorators"]) + ind + "def h(a, /, b=1): ...\n"
        print(src)
        system = build_system(src)
        for n, o in system.allobjects.items():
            if n not in ("m", "m.K", "m.outer"):
                print("impl   :", n, type(o).__name__, getattr(o, "kind", None), "overloads=%d" % len(getattr(o, "overloads", [])))
        from ..core import enc
        print("model  :", ctx.driver.run([("signature decos %s %s %s" % (inp["parent"], enc("h"), " ".join(deco_token(d, src) for d in inp["decorators"]))).rstrip()])[0])
        return 0
    if isinstance(inp, dict) and inp.get("kind") == "overloads":
        from pydoctor import model
        print(inp["source"])
        system = build_system(inp["source"])
        for o in system.allobjects.values():
            if isinstance(o, model.Function):
                print(o.fullName(), "signature:", o.signature and shown_signature(o, False)[0],
                      "| overloads shown:", [t for t, _ in shown_overloads(o)])
        return 0
    print(obj)
    return 0
