"""C02 — the object model is a coherent tree with a consistent name registry."""
from __future__ import annotations

import contextlib
import io
from typing import Any, Dict, List, Optional, Tuple

from ..core import Ctx, enc
from ..gen.project import Gen, Knobs, build_system

THEOREMS = [
    # defaultPostProcess
    "PostProcess.subclasses_inverse", "PostProcess.subclasses_count", "PostProcess.implementedBy_inverse",
    # property theorems (full strength, no hypothesis beyond "the operation did not raise")
    "Registry.inv_step", "Registry.inv_run", "Registry.Inv.invB", "Registry.invB_run",
    "Registry.registered_under_current_name", "Registry.registered_names_unique", "Registry.registered_exactly_once",
    "Registry.contents_coherent", "Registry.child_listed_or_superseded", "Registry.every_object_named",
    # the per-operation theorems and the key lemmas they rest on
    "Registry.addObject_inv", "Registry.reparent_inv", "Registry.reparent_spec", "Registry.handleDuplicate_spec", "Registry.freeIndex_free",
    "Registry.delAll_spec", "Registry.addAll_spec", "Registry.reroot",
    # base case and dict algebra
    "Registry.inv_init", "Registry.inv_holds_init",
    "Registry.dset_get_same", "Registry.dset_get_other", "Registry.ddel_get_other",
    # the module table (duplicate module names): System._addUnprocessedModule / _handleDuplicateModule / _remove
    "ModTable.inv_init", "ModTable.step_ok", "ModTable.inv_step", "ModTable.inv_run", "ModTable.run_ok", "ModTable.invB_run",
    "ModTable.registered_under_chain_name", "ModTable.pending_are_registered", "ModTable.parent_registered",
    "ModTable.contents_registered", "ModTable.roots_registered_unique", "ModTable.winner_rule",
    "ModTable.old_replaced_package_counterexample",
]
RULE = ("(a) operation logs recorded from the real System.addObject / Documentable.reparent while analysing generated "
        "projects (duplicates, nested classes, property setters, re-export moves, cycles), replayed on the Lean Registry "
        "model and compared state for state (allobjects keys in order, every object's name/parent/class/contents); "
        "(b) random API histories (add / reparent in any interleaving, incl. misuse) driven against the real API and the "
        "model; (c) the invariant evaluated directly on the real System; (d) random histories of module adds with duplicate "
        "names at root and nested level (packages, modules, C modules) against the Lean ModTable model state for state "
        "(allobjects, rootobjects, unprocessed_modules, contents), then processed and judged by the direct oracle, plus the "
        "same through System.addPackage on directories. Non-trivial = the history contains at least one "
        "duplicate registration, one reparent or one duplicate module name.")
ASSUMPTIONS = [
    "the model keys the registry by name paths; this equals the code's dotted strings when no name contains a '.'; "
    "histories in which two different paths join to the same dotted string are compared by the direct oracle only",
    "module table (ModTable): all modules are added before any is processed (so `contents` of a module holds modules "
    "only), and the parent argument is None or a package registered at that moment — what analyzeModule / addPackage / "
    "addModuleString pass; histories that break this are compared state for state with the model but are outside the theorems",
]
PARTIAL: Dict[str, str] = {}   # inv_step / inv_run are proved in full (incl. that the `name i` index of handleDuplicate is free)

CLS = {"Package": "P", "Module": "M", "Class": "C", "Function": "F", "Attribute": "A"}


def cls_letter(o) -> str:
    from pydoctor import model
    if isinstance(o, model.Package):
        return "P"
    if isinstance(o, model.Module):
        return "M"
    if isinstance(o, model.Class):
        return "C"
    if isinstance(o, model.Function):
        return "F"
    return "A"


class Recorder:
    """wraps System.addObject and Documentable.reparent in-process; ids = order of first addObject"""

    def __init__(self) -> None:
        self.ids: Dict[int, int] = {}
        self.objs: List[Any] = []
        self.ops: List[str] = []
        self.kinds = {"dup": 0, "reparent": 0}

    def __enter__(self):
        from pydoctor import model
        rec = self
        self._add = model.System.addObject
        self._rep = model.Documentable.reparent
        self._hd = model.System.handleDuplicate

        def addObject(system, obj):
            if id(obj) not in rec.ids:
                rec.ids[id(obj)] = len(rec.objs)
                rec.objs.append(obj)
            p = "-" if obj.parent is None else str(rec.ids.get(id(obj.parent), "?"))
            rec.ops.append("A|%s|%s|%s" % (cls_letter(obj), enc(obj.name), p))
            return rec._add(system, obj)

        def reparent(obj, new_parent, new_name):
            rec.kinds["reparent"] += 1
            rec.ops.append("R|%s|%s|%s" % (rec.ids.get(id(obj), "?"), rec.ids.get(id(new_parent), "?"), enc(new_name)))
            return rec._rep(obj, new_parent, new_name)

        def handleDuplicate(system, obj):
            rec.kinds["dup"] += 1
            prev = system.allobjects[obj.fullName()]
            if name_path(prev) != name_path(obj):
                rec.kinds["collision"] = rec.kinds.get("collision", 0) + 1
            return rec._hd(system, obj)
        model.System.addObject = addObject
        model.Documentable.reparent = reparent
        model.System.handleDuplicate = handleDuplicate
        return self

    def __exit__(self, *a):
        from pydoctor import model
        model.System.addObject = self._add
        model.Documentable.reparent = self._rep
        model.System.handleDuplicate = self._hd


def dump_real(system, rec: Recorder) -> str:
    def oid(o):
        return str(rec.ids.get(id(o), "?"))
    allp = " ".join("%s=%s" % (enc(k), oid(o)) for k, o in system.allobjects.items())
    roots = ",".join(oid(o) for o in system.rootobjects) or "-"
    objs = []
    for i, o in enumerate(rec.objs):
        cont = ",".join("%s=%s" % (enc(k), oid(c)) for k, c in o.contents.items())
        objs.append("%d:%s:%s:%s:[%s]" % (i, cls_letter(o), enc(o.name), "-" if o.parent is None else oid(o.parent), cont))
    return "all " + allp + " | roots " + roots + " | objs " + " ".join(objs)


def strip_aliases(model_out: str) -> str:
    """the model dump carries the alias maps as a trailing `:[…]` per object; drop them"""
    import re
    head, sep, objs = model_out.partition(" | objs ")
    if not sep:
        return model_out
    objs = " ".join(re.sub(r":\[[^\]]*\]$", "", t) for t in objs.split(" "))
    return head + sep + objs


# ---------------------------------------------------------------- direct oracle on a real System

def oracle_system(system, created: List[Any], builder_made: bool) -> List[Tuple[str, str]]:
    from pydoctor import model
    bad: List[Tuple[str, str]] = []
    seen_ids = {}
    def chain_name(o) -> str:
        # the qualified name recomputed from the parent chain, independently of Documentable.fullName()
        parts, n = [], 0
        while o is not None and n < 1000:
            parts.append(o.name)
            o, n = o.parent, n + 1
        return ".".join(reversed(parts))
    for k, o in system.allobjects.items():
        if o.fullName() != k:
            bad.append(("stale-key", f"allobjects[{k!r}] is {o!r}"))
        elif chain_name(o) != k:
            bad.append(("key-is-not-the-name-along-the-parent-chain", f"allobjects[{k!r}] is the object whose parents spell {chain_name(o)!r}"))
        if id(o) in seen_ids:
            bad.append(("registered-twice", f"{o!r} under {seen_ids[id(o)]!r} and {k!r}"))
        seen_ids[id(o)] = k
    roots = set(id(r) for r in system.rootobjects)
    # the registry is closed under `parent`; the roots are registered and pairwise differently named
    for k, o in system.allobjects.items():
        if o.parent is not None and system.allobjects.get(chain_name(o.parent)) is not o.parent:
            bad.append(("parent-unregistered", f"allobjects[{k!r}] has the parent {o.parent!r}, which is not the registry's entry for {chain_name(o.parent)!r}"))
    rootnames: Dict[str, Any] = {}
    for r in system.rootobjects:
        if system.allobjects.get(r.name) is not r:
            bad.append(("root-unregistered", f"rootobjects has {r!r}, which is not the registry's entry for {r.name!r}"))
        if r.name in rootnames and rootnames[r.name] is not r:
            bad.append(("root-name-shared", f"two roots are named {r.name!r} (both are written to {r.name}.html)"))
        rootnames[r.name] = r
    for o in created:
        if id(o) not in seen_ids:
            # a module replaced by a later one of the same name (or one that lost against an earlier C module /
            # package) is dropped from the registry on purpose, with everything below it
            if _under_replaced_module(system, o):
                continue
            bad.append(("unregistered", f"{o!r} was added but is not in allobjects"))
            continue
        # parent chain ends in a root
        p, n = o, 0
        while p.parent is not None and n < 1000:
            p, n = p.parent, n + 1
        if id(p) not in roots:
            bad.append(("unrooted", f"{o!r} does not hang off a root"))
        if o.parent is not None:
            entry = o.parent.contents.get(o.name)
            if entry is not o and " " not in o.name:
                bad.append(("not-parents-entry", f"{o!r} is not contents[{o.name!r}] of its parent and is not a superseded definition"))
        for k, c in o.contents.items():
            if c.parent is not o or c.name != k:
                bad.append(("contents-incoherent", f"{o!r}.contents[{k!r}] = {c!r}"))
        # kind fits place
        if isinstance(o, (model.Function, model.Attribute)) and o.contents:
            bad.append(("leaf-with-children", f"{o!r} has children"))
        if isinstance(o, model.Module) and o.parent is not None and not isinstance(o.parent, model.Package):
            bad.append(("module-outside-package", f"{o!r} sits in {o.parent!r}"))
        mismatch = builder_made and kind_mismatch(o)
        if mismatch:
            bad.append((mismatch, f"{o!r} is a {type(o).__name__} (in {o.parent!r}, {len(o.contents)} children) but its kind is {o.kind}"))
            continue      # the more specific report; the place checks below would only repeat it
        if builder_made and isinstance(o, model.Function) and isinstance(o.parent, model.Class):
            if o.kind not in (model.DocumentableKind.METHOD, model.DocumentableKind.CLASS_METHOD,
                              model.DocumentableKind.STATIC_METHOD):
                bad.append(("function-in-class-not-method", f"{o!r} kind {o.kind}"))
        # (kinds are given by the AST builder: only analysis results are judged, not raw API histories)
        if builder_made and isinstance(o, model.Function) and not isinstance(o.parent, model.Class) and o.kind in (
                model.DocumentableKind.METHOD, model.DocumentableKind.CLASS_METHOD, model.DocumentableKind.STATIC_METHOD):
            bad.append(("method-outside-class", f"{o!r} has kind {o.kind} but sits in {o.parent!r}"))
        if builder_made and isinstance(o, model.Function) and isinstance(o.parent, model.Module):
            if o.kind is not model.DocumentableKind.FUNCTION:
                bad.append(("function-in-module-kind", f"{o!r} kind {o.kind}"))
    if builder_made:
        classes = [o for o in system.allobjects.values() if isinstance(o, model.Class)]
        pycache: Dict[int, Any] = {}
        for c in classes:
            try:
                mro = c.mro(include_external=False, include_self=True)
            except Exception as e:   # pragma: no cover
                bad.append(("mro-crash", f"{c!r}: {type(e).__name__}"))
                continue
            # hierarchies Python itself rejects (duplicate base class, inconsistent MRO) are not programs;
            # C05 covers how pydoctor reports them. CPython's type() is the judge.
            if not python_accepts(c, pycache):
                continue
            if not mro or mro[0] is not c:
                bad.append(("mro-head", f"{c!r}: linearisation does not start with the class"))
            for b in c.baseobjects:
                if b is not None and sum(1 for x in mro if x is b) != 1:
                    bad.append(("mro-base-count", f"{c!r}: resolved base {b!r} occurs {sum(1 for x in mro if x is b)} times"))
            if len(set(map(id, mro))) != len(mro):
                bad.append(("mro-dup", f"{c!r}: linearisation repeats a class"))
            for b in c.baseobjects:
                if b is not None and c not in b.subclasses:
                    bad.append(("subclasses-missing", f"{c!r} not in subclasses of its base {b!r}"))
            for sc in c.subclasses:
                if c not in sc.baseobjects:
                    bad.append(("subclasses-extra", f"{sc!r} listed as subclass of {c!r} which is not its base"))
            if len(set(map(id, c.subclasses))) != len(c.subclasses) and len(set(map(id, [b for b in c.baseobjects]))) == len(c.baseobjects):
                pass
        # two different pages never share a file name
        pages: Dict[str, Any] = {}
        for o in system.allobjects.values():
            if o.documentation_location is model.DocLocation.OWN_PAGE:
                u = o.url
                if u in pages and pages[u] is not o:
                    bad.append(("page-name-clash", f"{o!r} and {pages[u]!r} both use {u}"))
                pages[u] = o
        # ... summary pages are pages too (with a single root, index.html IS the root's page: by design)
        fixed = set(summary_page_names(system))
        if len(system.rootobjects) == 1:
            fixed.discard("index.html")
        from urllib.parse import unquote
        for u, o in pages.items():
            if unquote(u) in fixed:
                bad.append(("page-name-clash:summary-page", f"the page of {o!r} and a summary page are both written to {unquote(u)}"))
    return bad


def kind_mismatch(o) -> Optional[str]:
    """the kind of an analysed object must be one its Python class can have: a Module is a module, a Class a class /
    exception / interface, a Function a function or method; the variable kinds belong to Attributes"""
    from pydoctor import model
    K = model.DocumentableKind
    if o.kind is None:
        return None                      # not documented at all (e.g. only a @type field): no kind to judge
    if isinstance(o, model.Package):
        ok, what = {K.PACKAGE}, "module"
    elif isinstance(o, model.Module):
        ok, what = {K.MODULE}, "module"
    elif isinstance(o, model.Class):
        ok, what = {K.CLASS, K.EXCEPTION, K.INTERFACE}, "function-or-class"
    elif isinstance(o, model.Function):
        ok, what = {K.FUNCTION, K.METHOD, K.CLASS_METHOD, K.STATIC_METHOD}, "function-or-class"
    else:
        ok = set(K) - {K.PACKAGE, K.MODULE, K.CLASS, K.EXCEPTION, K.INTERFACE, K.FUNCTION, K.METHOD, K.CLASS_METHOD, K.STATIC_METHOD}
        what = "attribute"
    if o.kind in ok:
        return None
    if what == "module" and o.kind in (K.VARIABLE, K.INSTANCE_VARIABLE, K.CLASS_VARIABLE):
        return "kind-mismatch:module-has-variable-kind"
    if what == "function-or-class" and o.kind in (K.ATTRIBUTE, K.SCHEMA_FIELD):
        return "kind-mismatch:function-or-class-has-zope-attribute-kind"
    return "kind-mismatch:%s:%s" % (type(o).__name__.replace("ZopeInterface", ""), o.kind.name)


def summary_page_names(system) -> List[str]:
    from pydoctor.templatewriter import search, summary
    return [p.filename for p in list(summary.summaryPages(system)) + list(search.searchpages)]


def python_accepts(c, cache, depth=0) -> bool:
    """does CPython accept the hierarchy of resolved bases of `c`? (None = rejected)"""
    if id(c) in cache:
        return cache[id(c)] is not None
    if depth > 50:
        cache[id(c)] = None
        return False
    cache[id(c)] = None           # cycles count as rejected
    bases = []
    for b in c.baseobjects:
        if b is None:
            continue
        if not python_accepts(b, cache, depth + 1):
            return False
        bases.append(cache[id(b)])
    try:
        cache[id(c)] = type("K", tuple(bases), {})
    except TypeError:
        cache[id(c)] = None
    return cache[id(c)] is not None


def _replaced_module(system, o) -> bool:
    cur = system.allobjects.get(o.fullName())
    return cur is not None and cur is not o


def _under_replaced_module(system, o) -> bool:
    """`o` or a module above it lost its name to another module (System._handleDuplicateModule)"""
    from pydoctor import model
    a, n = o, 0
    while a is not None and n < 1000:
        if isinstance(a, model.Module) and _replaced_module(system, a):
            return True
        a, n = a.parent, n + 1
    return False


def name_path(o) -> Tuple[str, ...]:
    parts = []
    n = 0
    while o is not None and n < 1000:
        parts.append(o.name)
        o, n = o.parent, n + 1
    return tuple(reversed(parts))


def dotted_collision(rec: Recorder) -> bool:
    if rec.kinds.get("collision"):
        return True
    return _dotted_collision_final(rec)


def _dotted_collision_final(rec: Recorder) -> bool:
    """two different name paths that join to the same dotted string"""
    seen: Dict[str, Tuple[str, ...]] = {}
    for o in rec.objs:
        parts = []
        p = o
        n = 0
        while p is not None and n < 1000:
            parts.append(p.name)
            p, n = p.parent, n + 1
        path = tuple(reversed(parts))
        key = ".".join(path)
        if key in seen and seen[key] != path:
            return True
        seen[key] = path
    return any("." in o.name for o in rec.objs) and False


# ---------------------------------------------------------------- streams

CORPUS = [
    # property setter `x.setter` vs member `setter` of a nested class `x` (known finding)
    [("m", False, "class C:\n    @property\n    def x(self): return 1\n    @x.setter\n    def x(self, v): pass\n"
                  "    class x:\n        def setter(self): pass\n", None)],
    # superseded member + class redefinition (fixed: stale key)
    [("m", False, "class C:\n    def m(self): pass\n    def m(self): pass\nclass C:\n    pass\n", None)],
    # re-export of a class with a superseded member (fixed: stale key)
    [("pkg", True, "from ._b import C\n__all__=['C']\n", None),
     ("pkg._b", False, "class C:\n    def m(self): pass\n    def m(self): pass\n", "pkg")],
    # re-export onto a name the importing module already defines (fixed: silently unregistered)
    [("pkg", True, "class C:\n    def old(self): pass\nfrom ._b import C\n__all__=['C']\n", None),
     ("pkg._b", False, "class C:\n    def new(self): pass\n", "pkg")],
    # the MIDDLE class of a hierarchy is re-exported: it is re-registered after its own subclass
    [("pkg", True, "from ._b import Base\n__all__=['Base']\n", None),
     ("pkg._b", False, "class Root(Exception):\n    def __init__(self, a): pass\nclass Base(Root):\n    pass\nclass Derived(Base):\n    pass\n", "pkg"),
     ("pkg.c", False, "from pkg._b import Derived\nclass Leaf(Derived):\n    pass\n", "pkg")],
    # ... and the same through an import cycle in which the subclass's module is analysed while the base's is in progress
    [("pkg", True, "", None),
     ("pkg.alpha", False, "from pkg import beta\nclass Root:\n    pass\nclass Base(Root):\n    pass\n", "pkg"),
     ("pkg.beta", False, "from pkg import alpha\nclass Derived(alpha.Base):\n    pass\nclass Plain(Derived):\n    pass\n", "pkg")],
    # a class holding a duplicate definition is itself defined twice / re-exported (full names of superseded members)
    [("m", False, "class C:\n    def f(self): pass\n    def f(self): pass\nclass C:\n    def f(self): pass\n    def f(self): pass\n", None)],
    [("pkg", True, "from pkg.sub import C\n__all__=['C']\n", None), ("pkg.sub", True, "from .impl import C\n__all__=['C']\n", "pkg"),
     ("pkg.sub.impl", False, "class C:\n    def f(self): pass\n    def f(self): pass\n    class N:\n        x = 1\n        x = 2\n", "pkg.sub")],
    # a nested module / class named like the single root
    [("spam", True, "class spam:\n    pass\n", None), ("spam.spam", False, "def f(): pass\n", "spam"),
     ("spam.eggs", True, "", "spam"), ("spam.eggs.spam", False, "class K: pass\n", "spam.eggs")],
    # a module-level alias of a class member is re-exported (fixed 66cb133: the METHOD and the nested class were moved
    # out of class C into the package)
    [("pkg", True, "from pkg.origin import meth, K\n__all__ = ['meth', 'K']\n", None),
     ("pkg.origin", False, "class C:\n    def meth(self): pass\n    @staticmethod\n    def st(): pass\n    class K:\n        x = 1\n"
                            "meth = C.meth\nK = C.K\n", "pkg")],
    # hunter round: two names of a base list resolve to one class (alias of an earlier definition + the later definition);
    # legal Python (open: the resolved base is listed twice in the linearisation)
    [("mod", False, "class A: pass\nOld = A\nclass A: pass\nclass C(Old, A): pass\n", None)],
    # hunter round: a @var field of a package docstring names a SUB-MODULE (open: the Module gets kind VARIABLE)
    [("pkg", True, '"""\nThe package.\n\n@var util: Helpers, see the sub-module.\n@ivar sub: a sub-package\n"""\n', None),
     ("pkg.util", False, "def helper(): pass\n", "pkg"), ("pkg.sub", True, "", "pkg"), ("pkg.sub.x", False, "class K: pass\n", "pkg.sub")],
    # hunter round: several roots, one named like a summary page (open: the two pages share a file name)
    [("classIndex", False, "class Pupil: pass\n", None), ("other", False, "class Base: pass\nclass Derived(Base): pass\n", None)],
    [("index", True, "", None), ("index.m", False, "x = 1\n", "index"), ("lib", False, "def f(): pass\n", None)],
    [("pkg", True, "from ._o import st as s2\n__all__ = ['s2']\n", None),
     ("pkg._o", False, "class C:\n    @staticmethod\n    def st(): pass\nst = C.st\n", "pkg")],
]


def stream_projects(ctx: Ctx, n: int) -> None:
    from ..gen.project import Unit
    reqs, impls, pay = [], [], []
    for i in range(n + len(CORPUS)):
        if i < len(CORPUS):
            units = [Unit(q, p, s, par) for q, p, s, par in CORPUS[i]]
        else:
            g = Gen(ctx.rng, Knobs(dotted_names=True, member_alias=0.15, field_names_submodule=0.15, summary_root_names=0.06))
            units = g.project()
        with Recorder() as rec:
            crashed = None
            try:
                system = build_system(units)
            except Exception as e:
                crashed = f"{type(e).__name__}: {e}"
        src = {u.qname: u.source for u in units}
        if crashed:
            ctx.fail("analysis-crash:" + crashed.split(":")[0], {"units": src}, crashed)
            continue
        req = "registry run " + " ".join(rec.ops)
        nontriv = rec.kinds["dup"] > 0 or rec.kinds["reparent"] > 0
        ctx.case(req, nontriv, {"modules": src, "ops": rec.ops[:40]} if nontriv and len(ctx.samples) < 2 else None)
        ctx.count("projects")
        ctx.count("ops:add", sum(1 for o in rec.ops if o[0] == "A"))
        ctx.count("ops:reparent", rec.kinds["reparent"])
        ctx.count("ops:duplicate", rec.kinds["dup"])
        for sig, what in oracle_system(system, rec.objs, True):
            if rec.kinds.get("collision"):
                sig = "dotted-name-collision"
            ctx.fail(sig, {"units": src}, what)
        if "?" in req or dotted_collision(rec):
            ctx.count("model-skipped:dotted-collision-or-foreign-object")
            continue
        reqs.append(req)
        impls.append("ok " + ",".join(["ok"] * len(rec.ops)) + " | inv true | " + dump_real(system, rec))
        pay.append({"units": src, "ops": rec.ops})
    if ctx.model_ok and reqs:
        outs = ctx.driver.run_parallel(reqs)
        for rq, mo, io_, p in zip(reqs, outs, impls, pay):
            ctx.traces_validated += 1
            if strip_aliases(mo) != io_:
                ctx.disagree("registry-oplog", p, strip_aliases(mo)[:3000], io_[:3000])


class PostSnap:
    """wraps model.defaultPostProcess (looked up when a System is created): the kinds of all class members right
    before it runs are kept on the system as `_verif_pre_kinds`"""

    def __enter__(self):
        from pydoctor import model
        self._orig = model.defaultPostProcess
        orig = self._orig

        def wrapped(system):
            pre = {}
            for o in system.allobjects.values():
                if isinstance(o.parent, model.Class):
                    pre[id(o)] = o.kind
            system._verif_pre_kinds = pre
            return orig(system)
        model.defaultPostProcess = wrapped
        return self

    def __exit__(self, *a):
        from pydoctor import model
        model.defaultPostProcess = self._orig


def redefinition_alias_scenario(rng) -> List[Any]:
    """one module in which classes are defined more than once and module-level aliases are taken between the
    definitions (`Old = A` before the second `class A`); later classes derive from the names and the aliases.
    CPython running the source decides whether it is a program (hunter round, finding 1)"""
    from ..gen.project import Unit
    lines: List[str] = []
    names: List[str] = []      # names bound so far (classes and aliases)
    defined: List[str] = []
    aliased: List[Tuple[str, str]] = []     # (alias, class name it was taken from)
    for step in range(rng.randint(3, 8)):
        r = rng.random()
        if defined and r < 0.3:
            target = rng.choice(defined)
            al = "Old" + target if rng.random() < 0.7 else "Al%d" % step
            lines.append("%s = %s" % (al, target))
            names.append(al)
            aliased.append((al, target))
        else:
            if aliased and rng.random() < 0.5:
                cn = rng.choice(aliased)[1]          # define again a class an alias was taken from
            else:
                cn = rng.choice(defined) if defined and r < 0.55 else rng.choice(["A", "B", "C", "D"])
            pool = sorted(set(names) - {cn})
            bases = rng.sample(pool, min(len(pool), rng.choice([0, 1, 1, 2, 2])))
            pairs = [(a, c) for a, c in aliased if c != cn and a != cn]
            if pairs and rng.random() < 0.4:
                bases = list(rng.choice(pairs))      # an alias and the name it was taken from, as written
                rng.shuffle(bases)
            lines += ["class %s%s:" % (cn, "(%s)" % ", ".join(bases) if bases else ""), "    pass"]
            names.append(cn)
            defined.append(cn)
    return [Unit("mod", False, "\n".join(lines) + "\n", None)]


def oracle_linearisation_by_source(system, source: str) -> List[Tuple[str, str]]:
    """C02's clause on linearisations for a one-module project, CPython being the judge of what is a program: when the
    interpreter runs the source, every class's linearisation starts with the class, repeats nothing and holds each of
    its resolved bases once (oracle_system can only ask CPython about the hierarchy pydoctor resolved)"""
    from pydoctor import model
    try:
        exec(compile(source, "<c02-scenario>", "exec"), {"__name__": "mod"})
    except Exception:
        return []
    bad: List[Tuple[str, str]] = []
    for c in system.allobjects.values():
        if not isinstance(c, model.Class):
            continue
        mro = c.mro(include_external=False, include_self=True)
        if not mro or mro[0] is not c:
            bad.append(("linearisation-head:python-runs-the-source", f"{c!r}: {mro!r}"))
        for b in c.baseobjects:
            k = sum(1 for x in mro if x is b)
            if b is not None and k != 1:
                bad.append(("linearisation-repeats-base:python-runs-the-source",
                            f"{c!r}: resolved base {b!r} occurs {k} times in {mro!r} (bases as written: {[s for s, _ in c.rawbases]}, resolved to {c.bases})"))
                break
    return bad


def stream_postprocess(ctx: Ctx, n: int) -> None:
    """model.defaultPostProcess on real systems: `subclasses` against PostProcess.subclasses and the direct
    "inverse of baseobjects" oracle; `_inherits_instance_variable_kind` against PostProcess.kindPass and the
    order-free specification (an instance variable of that name up the linearisation)"""
    from pydoctor import model
    from ..gen.project import Unit
    from .c06 import hierarchy_scenario, alias_scenario
    reqs, impls, pay = [], [], []
    for i in range(n + len(CORPUS)):
        if i < len(CORPUS):
            units = [Unit(q, p_, s_, par) for q, p_, s_, par in CORPUS[i]]
        elif i % 3 == 0:
            g = Gen(ctx.rng, Knobs(dotted_names=False))
            units = g.project()
        elif i % 11 == 1:
            units = alias_scenario(ctx.rng)
        elif i % 5 == 2:
            units = redefinition_alias_scenario(ctx.rng)
        else:
            units = hierarchy_scenario(ctx.rng)
        src = {u.qname: u.source for u in units}
        try:
            with PostSnap():
                system = build_system(units)
        except Exception as e:
            ctx.fail("analysis-crash:" + type(e).__name__, {"units": src}, f"{type(e).__name__}: {e}")
            continue
        if len(units) == 1 and "import" not in units[0].source:
            for sig, what in oracle_linearisation_by_source(system, units[0].source):
                ctx.fail(sig, {"units": src}, what)
            ctx.count("postprocess:one-module-projects-judged-by-running-the-source")
        pre = getattr(system, "_verif_pre_kinds", None)
        if pre is None:
            ctx.count("postprocess:not-run")
            continue
        classes = [o for o in system.allobjects.values() if isinstance(o, model.Class)]
        cid = {id(c): k for k, c in enumerate(classes)}
        # ---- subclasses
        ctoks = []
        for c in classes:
            bs = [("N" if b is None else str(cid.get(id(b), "N"))) for b in c.baseobjects]
            ctoks.append("%d:%s" % (cid[id(c)], ",".join(bs) or "-"))
        reqs.append("postprocess subclasses %s %s" % (",".join(str(k) for k in range(len(classes))) or "-", " ".join(ctoks)))
        impls.append("ok " + " ".join("%d=%s" % (k, ",".join(str(cid[id(x)]) for x in c.subclasses if id(x) in cid) or "-") for k, c in enumerate(classes)))
        pay.append({"units": src, "what": "subclasses"})
        ctx.count("postprocess:classes", len(classes))
        for c in classes:
            want = [x for x in classes for b in x.baseobjects if b is c]
            if [id(x) for x in c.subclasses] != [id(x) for x in want]:
                ctx.fail("subclasses-not-inverse-of-bases", {"units": src},
                         f"{c.fullName()}.subclasses = {[x.fullName() for x in c.subclasses]}, classes naming it as resolved base: {[x.fullName() for x in want]}")
                break
        # ---- kinds of inherited attributes
        members = [o for o in system.allobjects.values() if isinstance(o.parent, model.Class) and id(o.parent) in cid]
        mid = {id(o): k for k, o in enumerate(members)}
        names: Dict[str, int] = {}
        K = model.DocumentableKind

        def letter(kind):
            return "c" if kind is K.CLASS_VARIABLE else ("i" if kind is K.INSTANCE_VARIABLE else "o")
        mtoks = ["%d:%d:%s" % (cid[id(o.parent)], names.setdefault(o.name, len(names)), letter(pre.get(id(o), o.kind))) for o in members]
        order = [mid[id(o)] for o in system.allobjects.values() if isinstance(o, model.Attribute) and id(o) in mid]
        mros = []
        ok_mro = True
        for c in classes:
            try:
                lin = [cid[id(x)] for x in c.mro(include_self=True) if id(x) in cid]
            except Exception:
                ok_mro = False
                break
            mros.append("%d=%s" % (cid[id(c)], ",".join(map(str, lin))))
        if not ok_mro or not members:
            continue
        reqs.append("postprocess kinds %s %s | %s" % (",".join(map(str, order)) or "-", " ".join(mtoks), " ".join(mros)))
        impls.append("ok " + "".join(letter(o.kind) for o in members))
        pay.append({"units": src, "what": "kinds"})
        ncv = sum(1 for o in members if pre.get(id(o)) is K.CLASS_VARIABLE and o.kind is K.INSTANCE_VARIABLE)
        ctx.count("postprocess:class-variables-turned-instance-variables", ncv)
        ctx.case("postprocess " + repr(sorted(src.items())), ncv > 0 or any(c.subclasses for c in classes))
        # the order-free specification, on the kinds before the pass
        for o in members:
            if not isinstance(o, model.Attribute):
                continue
            inh = [b.contents[o.name] for b in o.parent.mro(include_self=False) if o.name in b.contents]
            want = K.INSTANCE_VARIABLE if (pre.get(id(o)) is K.CLASS_VARIABLE and any(pre.get(id(x), x.kind) is K.INSTANCE_VARIABLE for x in inh)) else pre.get(id(o))
            if o.kind is not want and letter(o.kind) != letter(want):
                ctx.fail("inherited-instance-variable-kind", {"units": src},
                         f"{o.fullName()}: kind {o.kind} after post-processing, specification says {want} (before: {pre.get(id(o))}; same name up the linearisation: {[(x.fullName(), str(pre.get(id(x)))) for x in inh]})")
                break
    ctx.compare("postprocess", reqs, impls, pay)


def zope_project(rng) -> List[Any]:
    """packages that declare zope interfaces and implementers in every supported way, across modules, with
    re-exported (moved) interfaces, names that lead nowhere or to a class that is not an interface, repeated
    declarations and implementers defined twice"""
    from ..gen.project import Unit
    nI = rng.randint(1, 3)
    ifaces = ["I%d" % k for k in range(nI)]
    isrc = ["from zope.interface import Interface, Attribute"]
    for k, n in enumerate(ifaces):
        base = "Interface" if k == 0 or rng.random() < 0.6 else ifaces[rng.randrange(k)]
        isrc += ["class %s(%s):" % (n, base), "    '''doc of %s'''" % n, "    def meth%d(a):" % k, "        '''meth doc'''", "    attr%d = Attribute('an attribute')" % k]
    isrc += ["class NotAnInterface:", "    pass"]
    if rng.random() < 0.3:
        # hunter round: `name = Attribute(...)` / a schema field after a `def name` / `class name` of the same class body
        isrc.insert(1, "from zope import schema")
        body = ["class IDocument(Interface):"]
        for nm, mk in rng.sample([("title", "def"), ("size", "def"), ("Meta", "class"), ("plain", None)], rng.randint(1, 4)):
            if mk == "def":
                body += ["    def %s():" % nm, "        'method'"]
            elif mk == "class":
                body += ["    class %s:" % nm, "        'a nested class'"]
            body += ["    %s = %s" % (nm, rng.choice(["Attribute('attribute')", "schema.Int(description='field')", "Attribute('attribute')"]))]
        isrc += body
    # interfaces made by CALLING an InterfaceClass subclass: at module level (documented as a class), in a class body,
    # and inside function / method bodies (local names: nothing to document, certainly no child of a function)
    dyn = rng.random() < 0.5
    if dyn:
        isrc[0] = "from zope.interface import Interface, Attribute\nfrom zope.interface.interface import InterfaceClass"
        isrc += ["class MyIC(InterfaceClass):", "    pass", "IDynamic = MyIC('IDynamic')",
                 "def make_marker(name):", "    ILocal = MyIC(name)", "    return ILocal",
                 "class Registry:", "    IInBody = MyIC('IInBody')", "    def register(self, name):", "        IMade = MyIC(name)",
                 "        self.made = IMade", "        return IMade"]
    reexport = rng.random() < 0.4
    units = []
    pkg_init = []
    if reexport:
        moved = rng.sample(ifaces, rng.randint(1, len(ifaces)))
        pkg_init = ["from pk._ifaces import %s" % ", ".join(moved), "__all__ = %r" % moved]
    units.append(Unit("pk", True, "\n".join(pkg_init) + "\n", None))
    units.append(Unit("pk._ifaces", False, "\n".join(isrc) + "\n", "pk"))
    for m in range(rng.randint(1, 2)):
        lines = ["from zope.interface import implementer, implements, classImplements, moduleProvides, implementer_only",
                 rng.choice(["from pk._ifaces import *", "from pk import _ifaces", "import pk._ifaces as ifs", "from pk._ifaces import %s, NotAnInterface" % ", ".join(ifaces)])]
        how = lines[1]

        def ref(n):
            if how.startswith("from pk._ifaces import"):
                return n
            if how == "from pk import _ifaces":
                return "_ifaces." + n
            return "ifs." + n
        if rng.random() < 0.3:
            lines.append("moduleProvides(%s)" % ref(rng.choice(ifaces)))
        for c in range(rng.randint(1, 3)):
            cn = "Impl%d_%d" % (m, c)
            targets = [ref(rng.choice(ifaces + ifaces + ["NotAnInterface", "Nowhere"])) for _ in range(rng.randint(1, 3))]
            if reexport and rng.random() < 0.4:
                targets.append("pk." + rng.choice(ifaces))
            style = rng.choice(["decorator", "decorator", "implements", "classImplements", "only"])
            base = "" if c == 0 or rng.random() < 0.5 else "(Impl%d_%d)" % (m, rng.randrange(c))
            if style == "decorator":
                lines += ["@implementer(%s)" % ", ".join(targets), "class %s%s:" % (cn, base), "    def meth0(self, a): pass"]
            elif style == "only":
                lines += ["@implementer_only(%s)" % ", ".join(targets), "class %s%s:" % (cn, base), "    pass"]
            elif style == "implements":
                lines += ["class %s%s:" % (cn, base), "    implements(%s)" % ", ".join(targets), "    def meth0(self, a): pass"]
            else:
                lines += ["class %s%s:" % (cn, base), "    pass", "classImplements(%s, %s)" % (cn, ", ".join(targets))]
            if rng.random() < 0.15:
                lines += ["@implementer(%s)" % targets[0], "class %s:" % cn, "    '''defined a second time'''"]
        units.append(Unit("pk.m%d" % m, False, "\n".join(lines) + "\n", "pk"))
    return units


def stream_interfaces(ctx: Ctx, n: int) -> None:
    """zope.interface declarations: `implementedby_directly` against PostProcess.implementedBy and the direct
    oracle "implemented by is the inverse of implements" in both directions"""
    from pydoctor import model
    from pydoctor.extensions import zopeinterface as Z
    reqs, impls, pay = [], [], []
    for _ in range(n):
        units = zope_project(ctx.rng)
        src = {u.qname: u.source for u in units}
        try:
            system = build_system(units)
        except Exception as e:
            ctx.fail("analysis-crash:" + type(e).__name__, {"units": src}, f"{type(e).__name__}: {e}")
            continue
        objs = list(system.allobjects.values())
        for sig, what in oracle_system(system, objs, True):
            ctx.fail(sig if sig.startswith("kind-mismatch:") else "interfaces:" + sig, {"units": src}, what)
        oid = {id(o): k for k, o in enumerate(objs)}
        implementers = [o for o in objs if isinstance(o, (Z.ZopeInterfaceClass, Z.ZopeInterfaceModule))]
        interfaces = [o for o in objs if isinstance(o, Z.ZopeInterfaceClass) and o.isinterface]
        decls = []
        for x in implementers:
            for name in x.implements_directly:
                try:
                    t = system.find_object(name)
                except LookupError:
                    t = None
                ok = isinstance(t, Z.ZopeInterfaceClass) and t.isinterface
                decls.append("%d:%s" % (oid[id(x)], str(oid[id(t)]) if ok and id(t) in oid else "N"))
                if t is not None and id(t) in oid and name != t.fullName():
                    ctx.fail("implements-name-not-updated", {"units": src}, f"{x.fullName()}.implements_directly still says {name!r}, the object is {t.fullName()!r}")
                # forward direction
                if ok and not any(y is x for y in t.implementedby_directly):
                    ctx.fail("implements-without-back-reference", {"units": src},
                             f"{x.fullName()} declares {name}, but is not in {t.fullName()}.implementedby_directly")
        for i in interfaces:
            by = list(i.implementedby_directly)
            if len({id(y) for y in by}) != len(by):
                ctx.fail("implementedby-duplicate", {"units": src}, f"{i.fullName()}.implementedby_directly lists an implementer twice: {[y.fullName() for y in by]}")
            for y in by:
                # backward direction
                if i.fullName() not in getattr(y, "implements_directly", []):
                    ctx.fail("back-reference-without-implements", {"units": src},
                             f"{i.fullName()}.implementedby_directly has {y.fullName()}, which does not declare it: {getattr(y, 'implements_directly', None)}")
        if interfaces:
            reqs.append("postprocess implementedby %s %s" % (",".join(str(oid[id(i)]) for i in interfaces), " ".join(decls)))
            impls.append("ok " + " ".join("%d=%s" % (oid[id(i)], ",".join(str(oid.get(id(y), "?")) for y in i.implementedby_directly) or "-") for i in interfaces))
            pay.append({"units": src, "what": "implementedby"})
        ctx.case("interfaces " + repr(sorted(src.items())), any(i.implementedby_directly for i in interfaces))
        ctx.count("interfaces:projects")
        ctx.count("interfaces:declarations", len(decls))
        ctx.count("interfaces:declarations-without-interface", sum(1 for d in decls if d.endswith(":N")))
        ctx.count("interfaces:back-references", sum(len(i.implementedby_directly) for i in interfaces))
    ctx.compare("interfaces", reqs, impls, pay)


API_NAMES = ["a", "b", "C", "x", "x.setter", "setter", "m", "a 0"]


def stream_api(ctx: Ctx, n: int) -> None:
    """random histories against the real API (incl. misuse the builder never produces)"""
    from pydoctor import model
    reqs, impls, pay = [], [], []
    for i in range(n):
        rng = ctx.rng
        system = model.System()
        objs: List[Any] = []
        ops: List[str] = []
        outcomes: List[str] = []
        nops = rng.randint(1, 14 if ctx.quick else 30)
        dup = rep = 0
        paths = {}
        collision = False
        welltyped = rng.random() < 0.8
        colrec = Recorder()
        letters: List[str] = []
        for _ in range(nops):
            containers = [j for j, l in enumerate(letters) if l in "PMC"]
            if objs and rng.random() < 0.2:
                movable = [j for j, l in enumerate(letters) if l in "CFA" and objs[j].parent is not None]
                targets = [j for j, l in enumerate(letters) if l in "PM"]
                if welltyped and movable and targets:
                    o, np_ = rng.choice(movable), rng.choice(targets)
                else:
                    o, np_ = rng.randrange(len(objs)), rng.randrange(len(objs))
                nn = rng.choice(["a", "b", "C", "x", "setter", "m"] if welltyped else API_NAMES[:6])
                op = "R|%d|%d|%s" % (o, np_, enc(nn))
                fn = lambda o=o, np_=np_, nn=nn: objs[o].reparent(objs[np_], nn)
                rep += 1
            else:
                if welltyped:
                    pk = [j for j, l in enumerate(letters) if l == "P"]
                    if not containers or rng.random() < 0.08:
                        cl, parent = rng.choice("PM"), None
                    else:
                        cl = rng.choice("PMCCFFAA")
                        if cl in "PM":
                            parent = rng.choice(pk) if pk else None
                        else:
                            parent = rng.choice(containers)
                else:
                    cl = rng.choice("PMCFA" if not objs else "MCCFFAA")
                    parent = None if (not objs or rng.random() < 0.1) else rng.randrange(len(objs))
                name = rng.choice(API_NAMES)
                if welltyped and "." in name and not (cl == "F" and parent is not None and letters[parent] == "C"):
                    name = "setter"    # only property setters carry a dotted name, and only in classes
                factory = {"P": system.Package, "M": system.Module, "C": system.Class, "F": system.Function, "A": system.Attribute}[cl]
                op = "A|%s|%s|%s" % (cl, enc(name), "-" if parent is None else parent)

                def fn(factory=factory, name=name, parent=parent, cl=cl):
                    po = None if parent is None else objs[parent]
                    ob = factory(system, name, po)
                    # what ASTBuilder.push / addAttribute do: every object knows its module
                    ob.parentMod = ob if cl in "PM" else (po.parentMod if po is not None else None)
                    objs.append(ob)
                    letters.append(cl)
                    system.addObject(ob)
            ops.append(op)
            try:
                with contextlib.redirect_stdout(io.StringIO()), colrec:
                    fn()
                outcomes.append("ok")
            except RecursionError:
                outcomes.append("RecursionError")
                break
            except Exception as e:
                outcomes.append(type(e).__name__)
                break
        rec = Recorder()
        rec.kinds = colrec.kinds
        rec.objs = objs
        rec.ids = {id(o): i for i, o in enumerate(objs)}
        req = "registry run " + " ".join(ops)
        clean = outcomes[-1] == "ok"
        nontriv = any(" " in o.name for o in objs) or rep > 0
        ctx.case(req, nontriv, {"ops": ops, "outcomes": outcomes} if nontriv and i < 2 else None)
        ctx.count("api-histories")
        ctx.count("api-outcome:" + outcomes[-1])
        ctx.count("api-welltyped" if welltyped else "api-misuse")
        if clean and welltyped:
            for sig, what in oracle_system(system, objs, False):
                if sig == "module-outside-package":
                    continue      # the raw API lets a caller put a module anywhere; only analysis results are judged
                ctx.fail("dotted-name-collision" if rec.kinds.get("collision") else "api:" + sig, {"ops": ops}, what)
        if dotted_collision(rec):
            ctx.count("model-skipped:dotted-collision")
            continue
        reqs.append(req)
        impls.append((outcomes, dump_real(system, rec) if clean else None))
        pay.append({"ops": ops})
    if ctx.model_ok and reqs:
        outs = ctx.driver.run_parallel(reqs)
        for rq, mo, (outcomes, dump), p in zip(reqs, outs, impls, pay):
            ctx.traces_validated += 1
            m_out = mo[3:].split(" | ")[0].split(",") if mo.startswith("ok ") else [mo]
            if m_out != outcomes:
                ctx.disagree("registry-api-outcome", p, m_out, outcomes)
            elif dump is not None:
                m_dump = strip_aliases(mo).split(" | ", 2)[2]
                if m_dump != dump:
                    ctx.disagree("registry-api-state", p, m_dump[:3000], dump[:3000])
                if " | inv true | " not in mo:
                    ctx.count("model-inv-false")


# ---------------------------------------------------------------- the module table (duplicate module names)

MT_NAMES = ["mod", "a", "b", "sub"]

# deterministic corpus: (kind, name, parent index or None); kinds P package, M module, C C-module, Q C-package
MT_CORPUS = [
    # the witness of 6850302: a second root package `mod` replaces the first one, whose sub-module was already added
    [("P", "mod", None), ("M", "suba", 0), ("P", "mod", None), ("M", "subb", 2)],
    # module-level variants
    [("M", "mod", None), ("M", "mod", None)],
    [("M", "mod", None), ("P", "mod", None), ("M", "suba", 1)],
    [("P", "mod", None), ("M", "suba", 0), ("M", "mod", None)],
    [("C", "mod", None), ("M", "mod", None)],
    [("C", "mod", None), ("P", "mod", None), ("M", "suba", 1)],
    [("M", "mod", None), ("C", "mod", None), ("M", "mod", None)],
    # the same one level down, and two levels of sub-packages below the replaced one
    [("P", "top", None), ("P", "mod", 0), ("M", "suba", 1), ("P", "mod", 0), ("M", "subb", 3)],
    [("P", "top", None), ("M", "mod", 0), ("M", "mod", 0), ("C", "mod", 0), ("M", "mod", 0), ("P", "mod", 0)],
    [("P", "mod", None), ("P", "sub", 0), ("M", "x", 1), ("P", "deep", 1), ("M", "y", 3), ("M", "z", 0),
     ("P", "mod", None), ("P", "sub", 6), ("M", "x", 7)],
    [("P", "mod", None), ("P", "sub", 0), ("M", "x", 1), ("P", "sub", 0), ("M", "x", 3), ("M", "x", 3)],
    [("Q", "mod", None), ("M", "a", 0), ("M", "mod", None), ("Q", "mod", None), ("C", "a", 3)],
]


def mt_kind(o) -> str:
    from pydoctor import model
    pk = isinstance(o, model.Package)
    return ("Q" if pk else "C") if o._is_c_module else ("P" if pk else "M")


def mt_drive(ops):
    """the history against the real System (public entry points where they apply); returns system, objects in
    creation order, per-op outcomes, and per-op what the winner rule had to decide"""
    import types
    from pathlib import Path
    from pydoctor import model
    system = model.System()
    builder = system.systemBuilder(system)
    objs: List[Any] = []
    outcomes: List[str] = []
    decided: List[str] = []
    seen: List[Any] = []
    orig = system._addUnprocessedModule

    def spy(mod):
        if not any(m is mod for m in seen):
            seen.append(mod)
        return orig(mod)
    system._addUnprocessedModule = spy
    for i, (kind, name, parent) in enumerate(ops):
        po = None if parent is None else objs[parent]
        body = "class K%d: pass\n" % i
        prefix = "" if po is None else po.fullName() + "."
        first = system.allobjects.get(prefix + name)
        if first is None:
            decided.append("fresh")
        elif first._is_c_module and kind not in "PQ":
            decided.append("keep:c-module")
        elif isinstance(first, model.Package) and kind not in "PQ":
            decided.append("keep:package")
        else:
            decided.append("replace:" + ("root" if first.parent is None else "nested") + (":with-contents" if first.contents else ""))
        try:
            with contextlib.redirect_stdout(io.StringIO()):
                if kind in "PM" and (po is None or (isinstance(po, model.Package) and system.allobjects.get(po.fullName()) is po)):
                    # SystemBuilder.addModuleString looks the parent up by name and asserts that it is a Package
                    n0 = len(seen)
                    try:
                        builder.addModuleString(body, name, parent_name=None if po is None else po.fullName(), is_package=(kind == "P"))
                    finally:
                        if len(seen) > n0:
                            objs.append(seen[-1])
                else:
                    mod = (system.Package if kind in "PQ" else system.Module)(
                        system, name, po, Path("/nonexistent/%s.so" % name) if kind in "CQ" else None)
                    if kind in "CQ":
                        # what System.introspectModule does with the imported extension module
                        pm = types.ModuleType(name)
                        setattr(pm, "K%d" % i, type("K%d" % i, (), {}))
                        mod._is_c_module = True
                        mod._py_mod = pm
                    else:
                        mod._py_string = body
                    objs.append(mod)
                    system._addUnprocessedModule(mod)
            outcomes.append("ok")
        except RecursionError:
            outcomes.append("RecursionError")
            break
        except Exception as e:
            outcomes.append(type(e).__name__)
            break
    del system._addUnprocessedModule
    return system, objs, outcomes, decided


def mt_dump(system, objs) -> str:
    ids = {id(o): i for i, o in enumerate(objs)}

    def oid(o):
        return str(ids.get(id(o), "?"))
    allp = " ".join("%s=%s" % (enc(k), oid(o)) for k, o in system.allobjects.items())
    roots = ",".join(oid(o) for o in system.rootobjects) or "-"
    unproc = ",".join(oid(o) for o in system.unprocessed_modules) or "-"
    toks = []
    for i, o in enumerate(objs):
        cont = ",".join("%s=%s" % (enc(k), oid(c)) for k, c in o.contents.items())
        toks.append("%d:%s:%s:%s:[%s]" % (i, mt_kind(o), enc(o.name), "-" if o.parent is None else oid(o.parent), cont))
    return "all " + allp + " | roots " + roots + " | unproc " + unproc + " | objs " + " ".join(toks)


def mt_pre_ok(ops) -> bool:
    """the precondition of the theorems, evaluated on the history alone: every parent is a package that is
    registered when the op arrives (a replay of the winner rule on names; independent of the model)"""
    reg: Dict[Tuple[str, ...], int] = {}
    path: Dict[int, Tuple[str, ...]] = {}
    kinds: Dict[int, str] = {}
    for i, (kind, name, parent) in enumerate(ops):
        if parent is not None:
            if kinds[parent] not in "PQ" or reg.get(path[parent]) != parent:
                return False
        p = (path[parent] if parent is not None else ()) + (name,)
        path[i], kinds[i] = p, kind
        first = reg.get(p)
        if first is not None and kind not in "PQ" and kinds[first] in "CQP":
            continue
        if first is not None:
            for k in [k for k in reg if k[:len(p)] == p]:
                del reg[k]
        reg[p] = i
    return True


def mt_random_ops(rng, quick: bool):
    n = rng.randint(1, 9 if quick else 16)
    misuse = rng.random() < 0.12
    ops: List[Tuple[str, str, Optional[int]]] = []
    reg: Dict[Tuple[str, ...], int] = {}
    path: Dict[int, Tuple[str, ...]] = {}
    for i in range(n):
        pk = [j for j, (k, _, _) in enumerate(ops) if k in "PQ" and (misuse or reg.get(path[j]) == j)]
        if misuse and ops and rng.random() < 0.3:
            pk = list(range(len(ops)))
        parent = rng.choice(pk) if pk and rng.random() < 0.75 else None
        kind = rng.choice("PPPMMMMCQ" if parent is not None or rng.random() < 0.7 else "PPPPM")
        name = rng.choice(MT_NAMES[:2] if rng.random() < 0.6 else MT_NAMES)
        ops.append((kind, name, parent))
        # bookkeeping of what is registered (only used to pick parents; mt_pre_ok decides)
        p = (path[parent] if parent is not None else ()) + (name,)
        path[i] = p
        first = reg.get(p)
        if first is not None and kind not in "PQ" and ops[first][0] in "CQP":
            continue
        if first is not None:
            for k in [k for k in reg if k[:len(p)] == p]:
                del reg[k]
        reg[p] = i
    return ops


def mt_after(ctx: Ctx, system, objs, payload) -> None:
    """`system.process()`, then the C02 oracle on the result and "exactly the registered modules are analysed" """
    from pydoctor import model
    registered = {id(o) for o in system.allobjects.values()}
    pending = {id(o) for o in system.unprocessed_modules}
    if pending != registered:
        lost = [o.fullName() for o in objs if id(o) in registered and id(o) not in pending]
        extra = [o.fullName() for o in objs if id(o) in pending and id(o) not in registered]
        ctx.fail("modtable:pending-is-not-the-registered-modules", payload,
                 f"after the adds: registered but not pending {lost}, pending but not registered {extra}")
    try:
        with contextlib.redirect_stdout(io.StringIO()):
            system.process()
    except Exception as e:
        ctx.fail("modtable:process-crash:" + type(e).__name__, payload, f"{type(e).__name__}: {e}")
        return
    for o in objs:
        done = o.state is model.ProcessingState.PROCESSED
        if done and id(o) not in registered:
            ctx.fail("modtable:unregistered-module-analysed", payload, f"{o!r} lost its name to another module and was analysed all the same")
        if not done and id(o) in registered:
            ctx.fail("modtable:registered-module-not-analysed", payload, f"{o!r} is registered but was not analysed")
    for i, o in enumerate(objs):
        k = o.contents.get("K%d" % i)
        if id(o) in registered and (k is None or system.allobjects.get(o.fullName() + ".K%d" % i) is not k):
            ctx.fail("modtable:class-of-registered-module-missing", payload, f"class K{i} of {o!r} is not registered")
    everything = list(objs) + [o for o in system.allobjects.values() if not any(o is m for m in objs)]
    for sig, what in oracle_system(system, everything, True):
        ctx.fail(sig, payload, what)


def stream_modtable(ctx: Ctx, n: int) -> None:
    """System._addUnprocessedModule / _handleDuplicateModule / _remove against ModTable, state for state, on random
    add histories with duplicate names; then the direct oracle on the processed system"""
    reqs, impls, pay = [], [], []
    for i in range(n + len(MT_CORPUS)):
        ops = MT_CORPUS[i] if i < len(MT_CORPUS) else mt_random_ops(ctx.rng, ctx.quick)
        toks = ["A|%s|%s|%s" % (k, enc(nm), "-" if p is None else p) for k, nm, p in ops]
        system, objs, outcomes, decided = mt_drive(ops)
        pre = mt_pre_ok(ops)
        payload = {"modtable-ops": toks}
        clean = outcomes[-1] == "ok"
        dups = [d for d in decided if d != "fresh"]
        ctx.case("modtable " + " ".join(toks), bool(dups), {"ops": toks, "decided": decided} if dups and i in (0, len(MT_CORPUS)) else None)
        ctx.count("modtable:histories")
        ctx.count("modtable:histories-meeting-the-precondition" if pre else "modtable:histories-misuse")
        ctx.count("modtable:ops", len(ops))
        ctx.count("modtable:outcome:" + outcomes[-1])
        for d in decided:
            ctx.count("modtable:op:" + d)
        depth = 0
        for o in objs:
            d, p = 0, o.parent
            while p is not None and d < 100:
                d, p = d + 1, p.parent
            depth = max(depth, d)
        ctx.count("modtable:max-depth:%d" % depth)
        reqs.append("modtable run " + " ".join(toks))
        impls.append((outcomes, pre, mt_dump(system, objs) if clean else None))
        pay.append(payload)
        if pre:
            if not clean:
                ctx.fail("modtable:add-raises:" + outcomes[-1], payload, f"adding the modules raised {outcomes[-1]} at op {len(outcomes) - 1}")
            else:
                mt_after(ctx, system, objs, payload)
    if ctx.model_ok and reqs:
        outs = ctx.driver.run_parallel(reqs)
        for mo, (outcomes, pre, dump), p in zip(outs, impls, pay):
            ctx.traces_validated += 1
            parts = mo.split(" | ", 3)
            if len(parts) != 4 or not parts[0].startswith("ok "):
                ctx.disagree("modtable", p, mo[:500], "unparsable")
                continue
            m_out = parts[0][3:].split(",")
            if m_out[:len(outcomes)] != outcomes or (outcomes[-1] == "ok" and len(m_out) != len(outcomes)):
                ctx.disagree("modtable-outcome", p, m_out, outcomes)
                continue
            if parts[1] != "pre " + ("true" if pre else "false"):
                ctx.disagree("modtable-precondition", p, parts[1], "pre %s" % pre)
            if dump is not None and parts[3] != dump:
                ctx.disagree("modtable-state", p, parts[3][:3000], dump[:3000])
            if pre and parts[2] != "inv true":
                ctx.disagree("modtable-invariant", p, parts[2], "inv true (history meets the precondition)")


def stream_modtable_fs(ctx: Ctx, n: int) -> None:
    """the same through the file system: root directories that hold a package of the same name, System.addPackage"""
    import shutil
    import tempfile
    from pathlib import Path
    from pydoctor import model
    rng = ctx.rng
    reqs, impls, pay = [], [], []
    for i in range(n):
        tmp = Path(tempfile.mkdtemp(prefix="c02mt"))
        try:
            layout = []
            for r in range(2 if i == 0 else rng.randint(2, 3)):
                files = {"mod/__init__.py": "class I%d: pass\n" % r}
                names = ["suba", "subb"][r:r + 1] if i == 0 else rng.sample(["suba", "subb", "x"], rng.randint(0, 2))
                for nm in names:
                    files["mod/%s.py" % nm] = "class S%d_%s: pass\n" % (r, nm)
                if i > 0 and rng.random() < 0.6:
                    files["mod/sub/__init__.py"] = ""
                    for nm in rng.sample(["x", "y"], rng.randint(0, 2)):
                        files["mod/sub/%s.py" % nm] = "class D%d_%s: pass\n" % (r, nm)
                if i > 0 and rng.random() < 0.3:
                    files = {"mod.py": "class M%d: pass\n" % r}      # a plain module of that name among the roots
                layout.append(files)
                for rel, src in files.items():
                    f = tmp / ("r%d" % r) / rel
                    f.parent.mkdir(parents=True, exist_ok=True)
                    f.write_text(src)
            system = model.System()
            objs: List[Any] = []
            orig = system._addUnprocessedModule

            def spy(mod, objs=objs, orig=orig):
                if not any(m is mod for m in objs):
                    objs.append(mod)
                return orig(mod)
            system._addUnprocessedModule = spy
            crashed = None
            try:
                with contextlib.redirect_stdout(io.StringIO()):
                    for r, files in enumerate(layout):
                        if "mod.py" in files:
                            system.addModuleFromPath(tmp / ("r%d" % r) / "mod.py", None)
                        else:
                            system.addPackage(tmp / ("r%d" % r) / "mod", None)
            except Exception as e:
                crashed = type(e).__name__
            del system._addUnprocessedModule
            ids = {id(o): k for k, o in enumerate(objs)}
            toks = ["A|%s|%s|%s" % (mt_kind(o), enc(o.name), "-" if o.parent is None else ids[id(o.parent)]) for o in objs]
            payload = {"roots": layout, "modtable-ops": toks}
            ctx.count("modtable-fs:projects")
            ctx.count("modtable-fs:modules", len(objs))
            ctx.case("modtable-fs " + repr(layout), True)
            if crashed:
                ctx.fail("modtable:add-raises:" + crashed, payload, f"System.addPackage raised {crashed}")
                continue
            reqs.append("modtable run " + " ".join(toks))
            impls.append("ok " + ",".join(["ok"] * len(toks)) + " | pre true | inv true | " + mt_dump(system, objs))
            pay.append(payload)
            # the bodies differ from the in-memory stream's: only the generic part of mt_after applies
            registered = {id(o) for o in system.allobjects.values()}
            if {id(o) for o in system.unprocessed_modules} != registered:
                ctx.fail("modtable:pending-is-not-the-registered-modules", payload, "after addPackage: pending modules and registered modules differ")
            try:
                with contextlib.redirect_stdout(io.StringIO()):
                    system.process()
            except Exception as e:
                ctx.fail("modtable:process-crash:" + type(e).__name__, payload, f"{type(e).__name__}: {e}")
                continue
            for o in objs:
                done = o.state is model.ProcessingState.PROCESSED
                if done and id(o) not in registered:
                    ctx.fail("modtable:unregistered-module-analysed", payload, f"{o!r} lost its name to another module and was analysed all the same")
                if not done and id(o) in registered:
                    ctx.fail("modtable:registered-module-not-analysed", payload, f"{o!r} is registered but was not analysed")
            everything = list(objs) + [o for o in system.allobjects.values() if not any(o is m for m in objs)]
            for sig, what in oracle_system(system, everything, True):
                ctx.fail(sig, payload, what)
        finally:
            shutil.rmtree(tmp, ignore_errors=True)
    ctx.compare("modtable-fs", reqs, impls, pay)


def run(ctx: Ctx) -> None:
    stream_projects(ctx, 250 if ctx.quick else 6000)
    stream_api(ctx, 1500 if ctx.quick else 40000)
    stream_postprocess(ctx, 250 if ctx.quick else 4000)
    stream_interfaces(ctx, 150 if ctx.quick else 3000)
    stream_modtable(ctx, 400 if ctx.quick else 20000)
    stream_modtable_fs(ctx, 6 if ctx.quick else 60)


def replay(ctx: Ctx, obj) -> int:
    inp = obj.get("input") or obj.get("request") or {}
    if "units" in inp:
        from ..gen.project import Unit
        print("re-run the listed modules through pydoctor and evaluate the invariant:")
        for q, s in inp["units"].items():
            print("#", q)
            print(s)
    print(obj.get("what", ""))
    if "ops" in inp:
        print(ctx.driver.run(["registry run " + " ".join(inp["ops"])])[0])
    return 0
