"""C10 — generated pages are well formed and source text never becomes markup.

Streams
  function streams  : the escaping functions of twisted / docutils / pydoctor vs the Lean model `Escape`
                      on strings over an adversarial alphabet; stan trees vs `stanutils.flatten`;
                      `deprecate`'s identifier check, text template and what docutils makes of the text.
  taint stream      : tiny generated projects whose names, docstrings (5 docformats), constants, defaults,
                      annotations and decorator arguments carry marker strings full of metacharacters; the real
                      `pydoctor.driver.main` writes the pages; every page is parsed as XML and every marker must
                      sit in a text node or attribute value, verbatim.
"""
from __future__ import annotations

import ast
import contextlib
import io
import os
import re
import shutil
import sys
import tempfile
import xml.etree.ElementTree as ET
from typing import Any, Dict, List, Optional, Sequence, Tuple

from ..core import Ctx, enc, dec

THEOREMS = [
    "Escape.content_safe", "Escape.attr_safe", "Escape.text_roundtrip", "Escape.attr_roundtrip",
    "Escape.encode_safe", "Escape.encode_roundtrip", "Escape.attval_roundtrip", "Escape.comment_safe",
    "Escape.attval_safe", "Escape.attval_no_markup", "Escape.starttag_attr_safe", "Escape.handbuilt_attr_counterexample",
    "Escape.page_bytes", "Escape.flatten_render", "Escape.flatten_error_iff", "Escape.flatten_balanced", "Escape.flatten_safe",
    "Escape.flatten_text",
    "Escape.double_path", "Escape.double_path_param",
    "Escape.html2stan_encode", "Escape.sig_default_safe", "Escape.sig_default_text", "Escape.sig_default_nbsp_counterexample",
    "Escape.quote_clean", "Escape.url_href_verbatim", "Escape.node2stan_starttag_safe", "Escape.rstPrefix_prefixed",
    "Escape.mungeHref_fragment", "Escape.validIdentifierCss_clean",
    "Escape.math_filter_cdata_counterexample", "Escape.math_filter_safe", "Escape.math_kept_html_escaped",
    "Escape.isMathHtml_clean", "Escape.html2stan_directive_free", "Escape.directive_refused", "Escape.isMathHtml_elements", "Escape.math_filter_rejects",
    "Escape.introspected_sig_safe", "Escape.introspected_sigOld_counterexample",
    "Escape.sanitise_chars", "Escape.literal_holds_ok", "Escape.sanitise_guard", "Escape.sanitise_guard_partial",
    "Escape.sanitise_guard_counterexample",
    "Escape.identifier_clean", "Escape.identifier_guard", "Escape.identifier_guard_counterexample",
    "Escape.identifier_guard_counterexample_space", "Escape.identifier_guard_counterexample_cr",
]
PARTIAL = {
    "Escape.sanitise_guard_partial":
        "historical: about the sanitiser between 50c0cec and 782581b (rstrip('\\\\')), which could leave a trailing blank "
        "(sanitise_guard_counterexample). The code as it is (sanitise true) has the full theorems sanitise_guard / identifier_guard.",
    "Escape.sig_default_text":
        "a string default containing U+00A0, U+FFFE or U+FFFF is excluded: the whole signature is then shown as (...) "
        "(sig_default_nbsp_counterexample; the &nbsp; defect recorded under C09). sig_default_safe has no exclusion.",
    "Escape.double_path":
        "strings containing form feed, U+FFFE or U+FFFF are excluded (XMLString rejects them: html2stan raises and "
        "pydoctor falls back to plain text, which is C08's subject)",
}
RULE = ("function streams: random strings over an adversarial alphabet (< > & \" ' @, entity look-alikes, ]]> --> <!-- "
        "<script>, C0 controls, DEL, U+FFFE/U+FFFF, non-BMP) through the real twisted/docutils/pydoctor functions and the "
        "Lean model (escaping functions, docutils start-tag writer, html2stan, the deprecate sanitiser and docutils' reading "
        "of its result, format_signature of a string default, urllib quote / Documentable.url / taglink, node2stan.starttag "
        "munging, _valid_identifier); non-trivial = the string contains one of < > & \" ' or a control character. Stan "
        "trees through stanutils.flatten. Taint stream: a deterministic corpus (every finding's input, every seeded "
        "change's shape) first, then generated projects rendered by the real driver.main in every docformat; "
        "non-trivial = markers in at least 3 different source positions.")
ASSUMPTIONS = [
    "UTF-8 is ASCII-transparent: twisted's byte-level replace of ASCII metacharacters is modelled on code points",
    "XMLString (expat) is a parameter of the model: assumed to read character data as XML 1.0 prescribes "
    "(`Escape.xmlText`: line-end normalisation, predefined entities, character references, rejection of non-Char "
    "code points and of `]]>`); exercised by the html2stan and doublepath streams",
    "Unicode identifier tables (XID_Start/XID_Continue) are parameters of `validate_identifier`'s model; the harness passes "
    "CPython's verdict for the non-ASCII characters of each string",
    "non-ASCII punctuation in docutils' end-string suffix class and tab expansion are not modelled (the literal stream "
    "uses ASCII punctuation and no tabs)",
    "the HTML structure emitted by docutils' writer and by the templates is not modelled; it is covered by the taint "
    "stream only. reST raw/include directives are excluded by the property",
    "format_signature's model covers one one-line string default: the two constant quote spans are taken as well-formed, so "
    "the XML re-parse of the signature succeeds iff its text part reads (tied by the builder:format_signature stream)",
    "node2stan.starttag is modelled for the call shapes starttag({}, tag, '', CLASS=v) and starttag({}, 'a', '', href=v) "
    "(a node without ids/classes); heading detection uses ASCII digits",
    "not modelled, covered by the taint stream only: _TARGET_RE splitting of `label <target>`, templates and slot "
    "filling (twisted), the colorizer's node structure (C15's Pyval model), all-documents.html; searchindex.json and "
    "objects.inv are not HTML pages (C17 models the inventory)",
    "attribute values of stan tags are strings (tags nested in attribute values, which twisted allows, are not modelled)",
    "lone surrogates are outside every stream (they cannot be encoded; C01's subject)",
]
EXPLANATION = ("Theorems over the model of the escaping functions hold for all strings / stan trees; the correspondence "
               "compares each function with the real one, and the taint stream checks the whole pipeline end to end.")

# ------------------------------------------------------------------------------------------------ alphabet

PIECES = ["<", ">", "&", '"', "'", "&amp;", "&#60;", "&lt", "&lt;", "&gt;", "&quot;", "&apos;", "&#x3c;", "&#64;",
          "&nbsp;", "&#0;", "&#12;", "&;", "&#;", "]]>", "-->", "<!--", "<script>", "</script>", "<![CDATA[", "]]", "--", "-",
          "]", ">", ";", "#", "@", "a", "b", "x", "Z", "0", "9", " ", "\n", "\r", "\r\n", "\t", "\x0b", "\x0c", "\\", "\\x01",
          "=", "/", "\x00", "\x01", "\x08", "\x1b", "\x1f", "\x7f", "\x85", "\xa0", "\u2028", "\ufffe", "\uffff", "\ufffd",
          "\U0001F600", "\U0010FFFF", "é", "λ", "amp;", "lt;", "quot;", "\u0338", "\u0338x", "\u20d2", "\u0307", "e\u0301"]
CTRL = [chr(i) for i in range(32)] + ["\x7f"]


def rand_string(rng, maxlen=12, pieces=PIECES) -> str:
    n = rng.choice([0, 1, 1, 2, 3, 4, 5, 6, 8, maxlen])
    out = []
    for _ in range(n):
        r = rng.random()
        if r < 0.12:
            out.append(rng.choice(CTRL))
        else:
            out.append(rng.choice(pieces))
    return "".join(out)


def nontrivial_string(s: str) -> bool:
    return any(c in "<>&\"'" or ord(c) < 32 or ord(c) == 127 for c in s)


# ------------------------------------------------------------------------------------------------ real functions

_TR = None


def translator():
    """a real pydoctor HTMLTranslator (docutils html4css1 subclass)"""
    global _TR
    if _TR is None:
        from docutils.utils import new_document
        from pydoctor.node2stan import HTMLTranslator
        from pydoctor.test import NotFoundLinker
        _TR = HTMLTranslator(new_document("c10"), NotFoundLinker())
    return _TR


def exc_name(e: BaseException) -> str:
    # twisted wraps flattening errors in FlattenerError(exception, roots, traceback)
    if type(e).__name__ == "FlattenerError" and e.args and isinstance(e.args[0], BaseException):
        return type(e.args[0]).__name__
    return type(e).__name__


def impl_fn(op: str, s: str) -> str:
    from twisted.web import _flatten as F
    from pydoctor import stanutils
    try:
        if op == "content":
            return "ok " + enc(F.escapeForContent(s).decode("utf-8"))
        if op == "attr":
            buf: List[bytes] = []
            F.writeWithAttributeEscaping(buf.append)(F.attributeEscapingDoneOutside(s))
            return "ok " + enc(b"".join(buf).decode("utf-8"))
        if op == "cdata":
            return "ok " + enc(F.escapedCDATA(s).decode("utf-8"))
        if op == "comment":
            return "ok " + enc(F.escapedComment(s).decode("utf-8"))
        if op == "encode":
            return "ok " + enc(translator().encode(s))
        if op == "attval":
            return "ok " + enc(translator().attval(s))
        if op == "html2stan":
            return "ok " + enc(stanutils.flatten(stanutils.html2stan(s)))
        if op == "doublepath":
            return "ok " + enc(stanutils.flatten(stanutils.html2stan(translator().encode(s))))
    except Exception as e:
        return exc_name(e)
    raise ValueError(op)


XML_ILLEGAL = re.compile("[^\x09\x0a\x0d\x20-\ud7ff\ue000-\ufffd\U00010000-\U0010ffff]")


def drop_illegal(s: str) -> str:
    """set aside the characters that are not XML 1.0 Chars (the property allows exactly this). They are replaced by
    U+FFFD rather than deleted: deleting could join `]]` and `>` or `&` and `amp;` into a token that is not in the page."""
    return XML_ILLEGAL.sub("\ufffd", s)


DOCTYPE = '<!DOCTYPE r [<!ENTITY nbsp "&#160;">]>'


def xml_text_of(s: str) -> Optional[str]:
    """XML reading of escaped character data (expat through ElementTree); None = not well formed. The one HTML entity
    that docutils' html4css1 writer emits (&nbsp;) is declared, as the property allows."""
    try:
        el = ET.fromstring(DOCTYPE + "<r>" + s + "</r>")
    except ET.ParseError:
        return None
    if len(el):
        return None  # an element was introduced
    return el.text or ""


def xml_attr_of(s: str, declare: bool = True) -> Optional[str]:
    try:
        el = ET.fromstring((DOCTYPE if declare else "") + '<r v="' + s + '"/>')
    except ET.ParseError:
        return None
    if len(el) or set(el.attrib) != {"v"}:
        return None
    return el.attrib["v"]


def line_norm(s: str) -> str:
    return s.replace("\r\n", "\n").replace("\r", "\n")


def attr_norm(s: str) -> str:
    # XML line-end normalisation, then attribute value normalisation of literal white space
    return re.sub("[\t\n\r]", " ", line_norm(s))


def oracle_fn(ctx: Ctx, op: str, s: str, out: str) -> None:
    """direct oracle on the real function's own output, written from the property text: the escaped form, read as XML
    (illegal characters set aside), is pure text equal to the source text."""
    if not out.startswith("ok "):
        if op in ("html2stan", "doublepath") and out == "SAXParseException":
            return  # html2stan refusing its input is handled by the docstring fallback (C08); nothing is written
        ctx.fail(f"escape-function-raises:{op}:{out}", {"op": op, "s": s}, f"{op} raised {out}")
        return
    o = dec(out[3:])
    if op in ("content", "encode"):
        got = xml_text_of(drop_illegal(o))
        if got is None or got != line_norm(drop_illegal(s)):
            ctx.fail(f"text-not-preserved:{op}", {"op": op, "s": s, "out": o}, f"{op}({s!r}) reads back as {got!r}")
        if "<" in o or ">" in o:
            ctx.fail(f"metachar-left:{op}", {"op": op, "s": s, "out": o}, f"{op}({s!r}) = {o!r}")
    elif op == "attr":
        got = xml_attr_of(drop_illegal(o))
        if got is None or got != attr_norm(drop_illegal(s)):
            ctx.fail("attr-not-preserved:attr", {"op": op, "s": s, "out": o}, f"attr({s!r}) reads back as {got!r}")
        if "<" in o or '"' in o:
            ctx.fail("metachar-left:attr", {"op": op, "s": s, "out": o}, f"attr({s!r}) = {o!r}")
    elif op == "attval":
        got = xml_attr_of(drop_illegal(o))
        want = re.sub("[\t\n\r\x0b\x0c]", " ", s)   # attval's documented cleansing
        if got is None or got != drop_illegal(want):
            ctx.fail("attr-not-preserved:attval", {"op": op, "s": s, "out": o}, f"attval({s!r}) reads back as {got!r}")
    elif op == "doublepath":
        got = xml_text_of(drop_illegal(o))
        want = line_norm(re.sub("[\x00-\x08\x0b\x0e-\x1f]", lambda m: "\\x%02x" % ord(m.group()), s))
        if got is None or got != want:
            ctx.fail("text-not-preserved:doublepath", {"op": op, "s": s, "out": o},
                     f"encode→html2stan→flatten of {s!r} reads back as {got!r}")
    elif op == "comment":
        if "-->" in o or o.endswith("-"):
            ctx.fail("comment-can-end-early", {"op": op, "s": s, "out": o}, f"escapedComment({s!r}) = {o!r}")
    elif op == "cdata":
        try:
            el = ET.fromstring("<r><![CDATA[" + drop_illegal(o) + "]]></r>")
            ok = len(el) == 0 and (el.text or "") == line_norm(drop_illegal(s))
        except ET.ParseError:
            ok = False
        if not ok:
            ctx.fail("cdata-not-preserved", {"op": op, "s": s, "out": o}, f"escapedCDATA({s!r}) = {o!r}")


def run_function_streams(ctx: Ctx) -> None:
    n = 2600 if ctx.quick else 12000
    ops = ["content", "attr", "cdata", "comment", "encode", "attval", "html2stan", "doublepath"]
    reqs: Dict[str, List[str]] = {op: [] for op in ops}
    impls: Dict[str, List[str]] = {op: [] for op in ops}
    pay: Dict[str, List[Any]] = {op: [] for op in ops}
    fixed = ["", "<", ">", "&", '"', "'", "&amp;", "]]>", "-->", "-", "--", "a-", "]]]>", "\r\n", "\r", "\x0c", "\x00",
             "\ufffe", "@", "<script>alert(1)</script>", "a\r\r\nb", "&#64;", "&#x40;&#X40;", "&#064;", "&apos;"]
    for op in ops:
        strings = list(fixed) + [rand_string(ctx.rng) for _ in range(n)]
        for s in strings:
            if op == "html2stan":
                s = s.replace("<", "(")   # markup-free html: the stream is about character data
            req = f"escape {op} {enc(s)}"
            out = impl_fn(op, s)
            reqs[op].append(req)
            impls[op].append(out)
            pay[op].append({"op": op, "s": s})
            nt = nontrivial_string(s)
            ctx.case(req, nt, {"request": f"{op} {s!r}", "impl": out if not out.startswith("ok ") else dec(out[3:])}
                     if nt and len(s) > 6 and len(ctx.samples) < 2 else None)
            ctx.count("fn:" + op)
            if out == "SAXParseException":
                ctx.count("fn:" + op + ":SAXParseException")
            if op != "html2stan":
                oracle_fn(ctx, op, s, out)
    for op in ops:
        ctx.compare("fn:" + op, reqs[op], impls[op], pay[op])
    # docutils' start-tag writer with a hostile attribute value (where directive arguments and options end up)
    sreq, simp_, spay = [], [], []
    for _ in range(n):
        v = rand_string(ctx.rng)
        tag, name = ctx.rng.choice([("img", "alt"), ("img", "title"), ("pre", "title"), ("div", "alt")])
        try:
            out = "ok " + enc(translator().starttag({}, tag, "", **{name: v}))
        except Exception as e:
            out = exc_name(e)
        sreq.append(f"escape starttag {enc(tag)} {enc(name)} {enc(v)}")
        simp_.append(out)
        spay.append({"op": "starttag", "tag": tag, "name": name, "s": v})
        ctx.case(sreq[-1], nontrivial_string(v))
        ctx.count("fn:starttag")
        if out.startswith("ok "):
            o = dec(out[3:])
            try:
                el = ET.fromstring(DOCTYPE + drop_illegal(o) + f"</{tag}>")
                ok = len(el) == 0 and list(el.attrib) == [name] and \
                    el.attrib[name] == drop_illegal(re.sub("[\t\n\r\x0b\x0c]", " ", v))
            except ET.ParseError:
                ok = False
            if not ok:
                ctx.fail("attr-not-preserved:starttag", spay[-1], f"starttag(..., {name}={v!r}) = {o!r}")
        else:
            ctx.fail("escape-function-raises:starttag:" + out, spay[-1], out)
    ctx.compare("fn:starttag", sreq, simp_, spay)
    # `unescape` (the model's XML reading) vs expat, in attribute-value context
    ureq, uimp, upay = [], [], []
    for _ in range(n):
        s = drop_illegal(rand_string(ctx.rng)).replace('"', "q").replace("\t", " ").replace("\n", " ").replace("\r", " ")
        got = xml_attr_of(s, declare=False)   # plain XML, as XMLString reads it
        ureq.append("escape unescape " + enc(s))
        uimp.append("malformed" if got is None else "ok " + enc(got))
        upay.append({"op": "unescape", "s": s})
        ctx.case(ureq[-1], nontrivial_string(s))
        ctx.count("fn:unescape~expat")
    ctx.compare("fn:unescape~expat", ureq, uimp, upay)


# ------------------------------------------------------------------------------------------------ stan trees

GOOD_NAMES = ["p", "div", "span", "a", "br", "img", "hr", "code", "t:x", "h2", "x-y", "_u", "a.b", "input", "wbs", "pre"]
BAD_NAMES = ["é", "a b", "x>", "1a", "s\u00e9", "a<b", "a\"b"]
ATTR_NAMES = ["class", "href", "title", "id", "data-x", "xml:lang", "onclick", "src"]


def gen_tree(rng, depth: int, bad: bool) -> Any:
    r = rng.random()
    if depth >= 3 or r < 0.35:
        k = rng.random()
        if k < 0.7:
            return ("T", rand_string(rng, 8))
        if k < 0.8:
            return ("C", rand_string(rng, 6))
        if k < 0.9:
            return ("D", rand_string(rng, 6))
        return ("R", rng.choice([60, 38, 62, 34, 64, 160, 8212, 128512, 65, 10]))
    name = "" if rng.random() < 0.08 else rng.choice(GOOD_NAMES)
    if bad and rng.random() < 0.15:
        name = rng.choice(BAD_NAMES)
    attrs = []
    for k in rng.sample(ATTR_NAMES, rng.choice([0, 0, 1, 1, 2, 3])):
        if bad and rng.random() < 0.1:
            k = rng.choice(BAD_NAMES)
        if k not in [a for a, _ in attrs]:   # a dict: keys are unique
            attrs.append((k, rand_string(rng, 6)))
    kids = [gen_tree(rng, depth + 1, bad) for _ in range(rng.choice([0, 0, 1, 1, 2, 3]))]
    return ("E", name, attrs, kids)


def tree_tokens(t) -> str:
    if t[0] in "TCD":
        return f"{t[0]} {enc(t[1])}"
    if t[0] == "R":
        return f"R {t[1]}"
    _, name, attrs, kids = t
    return "( " + enc(name) + " " + "".join(f"{enc(k)} {enc(v)} " for k, v in attrs) + "| " + \
        "".join(tree_tokens(k) + " " for k in kids) + ")"


def to_stan(t):
    from twisted.web.template import Tag, Comment, CDATA, CharRef
    if t[0] == "T":
        return t[1]
    if t[0] == "C":
        return Comment(t[1])
    if t[0] == "D":
        return CDATA(t[1])
    if t[0] == "R":
        return CharRef(t[1])
    _, name, attrs, kids = t
    return Tag(name, attributes=dict(attrs), children=[to_stan(k) for k in kids])


def tree_text(t, cdata: bool = True) -> str:
    if t[0] == "T" or (t[0] == "D" and cdata):
        return t[1]
    if t[0] == "R":
        return chr(t[1])
    if t[0] in "CD":
        return ""
    return "".join(tree_text(k, cdata) for k in t[3])


def tree_xml_text(t) -> str:
    """the text an XML reader must report for the flattened tree: line ends are normalised on the raw input, so
    adjacent text nodes are joined first; character references and markup separate them"""
    out: List[str] = []
    cur: List[str] = []

    def flush():
        out.append(line_norm(drop_illegal("".join(cur))))
        cur.clear()

    def go(n):
        if n[0] == "T":
            cur.append(n[1])
        elif n[0] == "R":
            flush()
            out.append(chr(n[1]))
        elif n[0] == "D":
            flush()
            out.append(line_norm(drop_illegal(n[1])))
        elif n[0] == "C":
            flush()
        else:
            if n[1] != "":
                flush()
            for k in n[3]:
                go(k)
            if n[1] != "":
                flush()
    go(t)
    flush()
    return "".join(out)


def tree_attrs(t) -> List[Tuple[str, str]]:
    if t[0] != "E":
        return []
    return list(t[2]) + [a for k in t[3] for a in tree_attrs(k)]


def tree_skeleton(t) -> List[Any]:
    """expected element structure (names + attributes) in document order; transparent tags dissolve"""
    if t[0] != "E":
        return []
    _, name, attrs, kids = t
    sub = [x for k in kids for x in tree_skeleton(k)]
    if name == "":
        return sub
    return [(name, {k: attr_norm(drop_illegal(v)) for k, v in attrs}, sub)]


def et_skeleton(el) -> List[Any]:
    return [(c.tag, dict(c.attrib), et_skeleton(c)) for c in el]


def tree_flags(t) -> Tuple[bool, bool]:
    """(all names are XML names, XML can be expected to accept the comments)"""
    namere = re.compile(r"^[A-Za-z_:][A-Za-z0-9_:.\-]*$")
    if t[0] == "C":
        return True, "--" not in t[1]
    if t[0] != "E":
        return True, True
    # the attributes of a transparent tag are never written
    ok = t[1] == "" or (bool(namere.match(t[1])) and all(namere.match(k) for k, _ in t[2]))
    cok = True
    for k in t[3]:
        a, b = tree_flags(k)
        ok, cok = ok and a, cok and b
    return ok, cok


def run_tree_stream(ctx: Ctx) -> None:
    from pydoctor.stanutils import flatten
    n = 1500 if ctx.quick else 12000
    reqs, impls, pay = [], [], []
    hreqs, hexp = [], []
    freqs, fimpls = [], []
    corpus_trees = [("E", "span", [("class", "c"), ("title", "\u0338 t")], [("T", "\u0338 onzz=1"), ("E", "b", [], [("T", "\u0338")])]),
                    ("E", "a", [("href", "\u0338x")], [("T", "\u20d2<"), ("C", "\u0338"), ("T", "\u0338>")])]
    for i in range(n):
        t = corpus_trees[i] if i < len(corpus_trees) else gen_tree(ctx.rng, 0, bad=(i % 5 == 0))
        if t[0] != "E":
            t = ("E", "div", [], [t])
        toks = tree_tokens(t)
        try:
            out = "ok " + enc(flatten(to_stan(t)))
        except Exception as e:
            out = exc_name(e)
        reqs.append("escape flatten " + toks)
        impls.append(out)
        pay.append({"tree": t})
        # the same tree through the helper every page is written with: bytes on disk
        from pydoctor.templatewriter import writer as _writer, DOCTYPE as _DOCTYPE
        buf = io.BytesIO()
        try:
            _writer.flattenToFile(buf, to_stan(t))
            fout = "ok " + enc(buf.getvalue().decode("utf-8"))
        except Exception as e:
            fout = exc_name(e)
        freqs.append("escape tofile " + enc(_DOCTYPE.decode("utf-8")) + " " + toks)
        fimpls.append(fout)
        valid, comments_ok = tree_flags(t)
        txt = tree_text(t)
        alltext = txt + "".join(v for k, v in tree_attrs(t))
        sample = None
        if valid and 150 < len(toks) < 600 and not ctx.dist.get("tree:sampled"):
            ctx.count("tree:sampled")
            sample = {"tree": t, "impl": dec(out[3:]) if out.startswith("ok ") else out}
        ctx.case(reqs[-1], nontrivial_string(alltext) and valid, sample)
        ctx.count("tree:" + ("valid-names" if valid else "invalid-names"))
        # direct oracle: the flattened fragment is well-formed XML with the expected structure and text
        if valid:
            if not out.startswith("ok "):
                ctx.fail("flatten-raises:" + out, {"tree": t}, f"flatten raised {out} on a tree with valid names")
            elif comments_ok:
                html = drop_illegal(dec(out[3:]))
                # the xml: prefix of `xml:lang`/`t:x` needs a declaration for expat
                try:
                    root = ET.fromstring('<r xmlns:t="urn:t">' + html + "</r>")
                except ET.ParseError as e:
                    ctx.fail("flatten-not-well-formed", {"tree": t, "out": dec(out[3:])}, f"flattened tree is not XML: {e}")
                    root = None
                if root is not None:
                    got_text = "".join(root.itertext())
                    if got_text != tree_xml_text(t):
                        ctx.fail("flatten-text-differs", {"tree": t, "out": dec(out[3:])},
                                 f"text {got_text!r} != {tree_xml_text(t)!r}")
                    want = tree_skeleton(t)
                    got = et_skeleton(root)
                    if _norm_skel(got) != _norm_skel(want):
                        ctx.fail("flatten-structure-differs", {"tree": t, "out": dec(out[3:])},
                                 "element/attribute structure differs from the stan tree")
        # the model's own `holds` (proved for valid names): evaluate it on every tree
        hreqs.append("escape holds " + toks)
        hexp.append((valid, tree_text(t, cdata=False)))
    ctx.compare("stan-tree~flatten", reqs, impls, pay)
    ctx.compare("stan-tree~writer.flattenToFile", freqs, fimpls, pay)
    if ctx.model_ok:
        outs = ctx.driver.run_parallel(hreqs)
        for rq, o, (valid, txt) in zip(hreqs, outs, hexp):
            m = dict(kv.split("=", 1) for kv in o.split())
            if m.get("valid") != ("true" if valid else "false"):
                ctx.disagree("stan-tree:valid-names", rq, o, f"valid={valid}")
            if valid and not (m.get("nested") == "true" and m.get("safe") == "true" and m.get("render") == "true"):
                ctx.disagree("stan-tree:model-holds", rq, o, "valid names but the model's well-formedness predicate is false")
            if valid and m.get("text", "-") != "-" and dec(m["text"]) != txt:
                ctx.disagree("stan-tree:model-text", rq, o, enc(txt))


def _norm_skel(sk):
    out = []
    for name, attrs, sub in sk:
        name = re.sub(r"^\{urn:t\}", "t:", name)
        attrs = {re.sub(r"^\{http://www.w3.org/XML/1998/namespace\}", "xml:", k): v for k, v in attrs.items()}
        out.append((name, sorted(attrs.items()), _norm_skel(sub)))
    return out


# ------------------------------------------------------------------------------------------------ deprecate

ID_PIECES = ["a", "b", "Z", "_", "0", "7", ".", ".", "é", "λ", "\U0001d4b3", "\u0663", "\u00b7", " ", "`", "-", "<", "\n", "__", "x1"]
LIT_PIECES = ["a", "b", "x", " ", " ", "`", "``", "`` ", " ``", "\\", "*", "_", "`_", "<", ">", ":", ".", ",", '"', "'", "(", ")",
              "|", "\r", "\x0b", "\x0c", "\x1c", "\x85", "\u2028", "\xa0", "\x00", "é", "http://x/", "*b*", "-", "!"]

_DEPR_MOD = None


def depr_ctx():
    global _DEPR_MOD
    if _DEPR_MOD is None:
        from pydoctor import model
        system = model.System()
        system.options.verbosity = -1
        builder = system.systemBuilder(system)
        builder.addModuleString("from twisted.python.deprecate import deprecated\nfrom incremental import Version\n",
                                modname="depmod")
        builder.buildModules()
        _DEPR_MOD = system.allobjects["depmod"]
    return _DEPR_MOD


def non_ascii_tables(s: str) -> Tuple[str, str]:
    """CPython's XID_Start / XID_Continue verdict for the non-ASCII characters of s (model parameter)"""
    cs = sorted({c for c in s if ord(c) >= 128})
    return "".join(c for c in cs if c.isidentifier()), "".join(c for c in cs if ("a" + c).isidentifier())


def impl_deprtext(name: str, pkg: str, ver: Tuple[Any, int, int], repl: Optional[str]) -> Tuple[str, Optional[str]]:
    from pydoctor.extensions import deprecate
    src = f"deprecated(Version({pkg!r}, {ver[0]!r}, {ver[1]}, {ver[2]})" + (f", replacement={repl!r})" if repl is not None else ")")
    call = ast.parse(src, mode="eval").body
    try:
        version, text = deprecate.deprecatedToUsefulText(depr_ctx(), name, call)
        return "ok " + enc(text), version
    except ValueError:
        return "ValueError", None
    except Exception as e:
        return type(e).__name__, None


def impl_literal(r2: str) -> str:
    """what docutils (through pydoctor's reST parser) makes of the wrapped replacement inside the deprecation text"""
    from docutils import nodes, statemachine
    from pydoctor.epydoc.markup import restructuredtext
    text = "``f`` was deprecated in pkg 1.2.3; please use ``" + r2 + "`` instead."
    doc = ".. deprecated:: 1.2.3\n   " + text
    # the whole of pydoctor's reST path (since ce72216 it replaces U+001C-1E/0085/2028/2029 by a blank first); "broken" =
    # docutils' own line splitting (observed by wrapping statemachine.string2lines for the duration of the parse) sees
    # more than the two lines of the directive
    errs: List[Any] = []
    seen: List[int] = []
    orig = statemachine.string2lines

    def recording(*a: Any, **k: Any) -> Any:
        lines = orig(*a, **k)
        seen.append(len(lines))
        return lines
    statemachine.string2lines = recording
    try:
        d = restructuredtext.parse_docstring(doc, errs).to_node()
    finally:
        statemachine.string2lines = orig
    if not seen or seen[0] != 2:
        return "broken"
    vm = [c for c in d.children if type(c).__name__ == "versionmodified"]
    if len(vm) != 1 or len(d.children) != 1:
        return "broken"
    para = vm[0][0]
    content = para[1] if len(para) > 1 else para
    kids = list(content.children)
    # literal `f`, the text up to "please use ", then the node under test
    if len(kids) >= 3 and isinstance(kids[0], nodes.literal) and isinstance(kids[1], nodes.Text) \
            and kids[1].astext().endswith("please use "):
        x = kids[2]
        if isinstance(x, nodes.literal):
            return "lit " + enc(x.astext())
    return "nolit"


def run_deprecate_streams(ctx: Ctx) -> None:
    rng = ctx.rng
    n = 1200 if ctx.quick else 8000
    # (1) validate_identifier, observed through the package-name check
    reqs, impls, pay = [], [], []
    for i in range(n):
        s = "".join(rng.choice(ID_PIECES) for _ in range(rng.choice([0, 1, 2, 3, 4, 6])))
        if i % 3 == 0:
            s = ".".join(rng.choice(["a", "b_1", "_x", "é", "C"]) for _ in range(rng.randint(1, 3)))
        xs, xc = non_ascii_tables(s)
        out, _ = impl_deprtext("f", s, (1, 2, 3), None)
        reqs.append(f"escape validid {enc(s)} {enc(xs)} {enc(xc)}")
        impls.append("true" if out.startswith("ok ") else "false" if out == "ValueError" else out)
        pay.append({"package": s})
        ctx.case(reqs[-1], True)
        ctx.count("depr:validid:" + impls[-1])
    ctx.compare("deprecate:validate_identifier", reqs, impls, pay)
    # (2) the text template
    reqs, impls, pay, greqs, gpay = [], [], [], [], []
    for i in range(n):
        name = rng.choice(["f", "Cls", "_p", "meth1"])
        pkg = rng.choice(["pkg", "Twisted", "a.b", "p_", "é", "bad pkg", "x`y", ""])
        ver = (rng.choice([1, 22, "NEXT"]), rng.randint(0, 12), rng.randint(0, 3))
        if ver[0] == "NEXT":
            ver = ("NEXT", 0, 0)   # incremental accepts NEXT only as NEXT.0.0
        k = rng.random()
        if k < 0.15:
            repl = None
        elif k < 0.35:
            repl = ".".join(rng.choice(["a", "b_1", "_x", "é", "C", "foo_"]) for _ in range(rng.randint(1, 3)))
        elif k < 0.7:
            repl = "".join(rng.choice(LIT_PIECES + ["\n"]) for _ in range(rng.choice([0, 1, 2, 3, 5, 8])))
        else:
            repl = rand_string(rng, 8)
        out, version = impl_deprtext(name, pkg, ver, repl)
        xs, xc = non_ascii_tables(pkg + (repl or ""))
        vtxt = version if version is not None else f"{ver[0]}.{ver[1]}.{ver[2]}"
        reqs.append(f"escape deprtext {enc(name)} {enc(pkg)} {enc(vtxt)} {enc(repl) if repl is not None else '-'} {enc(xs)} {enc(xc)}")
        impls.append(out)
        pay.append({"name": name, "package": pkg, "version": ver, "replacement": repl})
        ctx.case(reqs[-1], repl is not None and nontrivial_string(repl))
        ctx.count("depr:text:" + ("ok" if out.startswith("ok ") else out))
        if repl is not None:
            greqs.append(f"escape guard {enc(repl)} {enc(xs)} {enc(xc)}")
            gpay.append(repl)
    ctx.compare("deprecate:deprecatedToUsefulText", reqs, impls, pay)
    # (2b) the sanitiser alone, on strings full of what it is there for, + direct oracle on the real result read by the
    #      real docutils: it must be one literal holding the sanitised text
    reqs, impls, pay, freqs = [], [], [], []
    SAN = LIT_PIECES + ["\n", "\t", " \\", "\\ ", "\\\\", "``", " ", " ", "\x00", "\x00\\", "\u3000", "\x1f", "'"]
    fixed_r = ["*b* \\", "x \\\\\\", "\\", " \\ ", "`", "", " ", "\x00", "a`` `c <javascript:alert(1)>`_ ``b", " *b* x", "x\rA\r\r.. raw:: html\r\r   <b>\r",
               "a \\ \\", "a\\", "\\a", "a\x00\\"]
    for r in fixed_r + ["".join(rng.choice(SAN) for _ in range(rng.choice([1, 2, 3, 4, 6, 9]))) for _ in range(n)]:
        xs, xc = non_ascii_tables(r)
        if all(p.isidentifier() for p in r.split(".")):
            continue
        out, _ = impl_deprtext("f", "pkg", (1, 2, 3), r)
        if not out.startswith("ok "):
            impls.append(out)
        else:
            text = dec(out[3:])
            wrapped = text.split("; please use `", 1)[1][:-len("` instead.")]
            san = wrapped[1:-1]
            impls.append("ok " + enc(san))
            # direct oracle (no model): characters, then the real docutils on the real result
            bad = [c for c in san if c in "`\x00" or (c != " " and c.isspace())]
            reading = impl_literal(san)
            if bad or reading != "lit " + enc(san):
                residual = san.endswith(" ")
                ctx.fail("rst-injection:deprecated-replacement" + (":blank-before-trailing-backslash" if residual else ""),
                         {"replacement": r, "sanitised": san, "docutils": reading},
                         f"replacement {r!r} is interpolated as ``{san}``, which docutils reads as {reading[:60]}")
        reqs.append("escape sanitise " + enc(r))
        freqs.append("escape sanitiseold " + enc(r))
        pay.append({"replacement": r})
        ctx.case(reqs[-1], True)
        ctx.count("depr:sanitise")
    ctx.compare("deprecate:sanitiser", reqs, impls, pay)
    if ctx.model_ok:
        # the model's own `holds`, against the real docutils: what the model says the sanitiser yields must be read as one
        # literal holding it (sanitise_guard); the pre-782581b variant only when it does not end in a blank
        # (sanitise_guard_partial) — and the residual strings must still be the ones it lets through (regression)
        outs_new = ctx.driver.run_parallel(reqs)
        outs_old = ctx.driver.run_parallel(freqs)
        for rq, o, oo in zip(reqs, outs_new, outs_old):
            san = dec(o[3:])
            if impl_literal(san) != "lit " + enc(san):
                ctx.disagree("deprecate:sanitise_guard~docutils", rq, o, impl_literal(san))
            old = dec(oo[3:])
            held = impl_literal(old) == "lit " + enc(old)
            ctx.count("depr:sanitise-old:" + ("held" if held else "escapes" + (":trailing-blank" if old.endswith(" ") else "")))
            if not held and not old.endswith(" "):
                ctx.disagree("deprecate:sanitise_guard_partial~docutils", rq, oo, impl_literal(old))
            ctx.traces_validated += 2
    # (3) what docutils makes of the wrapped replacement
    reqs, impls, pay = [], [], []
    fixed = ["a b", "a`` `click <javascript:alert(1)>`_ ``b", " x", "x ", "", "``", "`", "a`", "`a", "a\\", "a\\\\", "\\", "a\x0bb",
             "a\x0c", "a\rb", "a\x1cb", "a``b", "a`` b", "a ``b", "a``. b", "*b*", "a\x00", "\x00a", "a\x00``b"]
    for r2 in fixed + ["".join(rng.choice(LIT_PIECES) for _ in range(rng.choice([1, 2, 3, 4, 6, 9]))) for _ in range(n)]:
        out = impl_literal(r2)
        reqs.append("escape literal " + enc(r2))
        impls.append(out)
        pay.append({"wrapped": r2})
        ctx.case(reqs[-1], "`" in r2 or nontrivial_string(r2))
        ctx.count("depr:literal:" + out.split()[0])
        greqs.append(f"escape guard {enc(r2)} u: u:")
        gpay.append(r2)
    ctx.compare("deprecate:docutils-inline-literal", reqs, impls, pay)
    # the model's own `holds` for the guard: proved under literalSafe, evaluated everywhere
    if ctx.model_ok:
        for rq, o, r in zip(greqs, ctx.driver.run_parallel(greqs), gpay):
            if o == "id":
                ctx.count("guard:identifier")
                continue
            m = dict(kv.split("=", 1) for kv in o.split()[1:])
            ctx.count("guard:wrapped:safe=%s,held=%s" % (m.get("safe"), m.get("held")))
            if m.get("safe") == "true" and m.get("held") != "true":
                ctx.disagree("deprecate:model-guard", rq, o, "literalSafe but the literal does not hold the replacement")
    # table check: ASCII members of docutils' end-string suffix class and of Python's white space / line breaks
    from docutils.parsers.rst import states
    inl = states.Inliner()
    from docutils.frontend import get_default_settings
    from docutils.parsers.rst import Parser
    inl.init_customizations(get_default_settings(Parser()))
    suffix = "".join(chr(c) for c in range(1, 128) if inl.patterns.literal.match("a``" + chr(c), 1))
    want = "".join(sorted(set("\t\n\x0b\x0c\r\x1c\x1d\x1e\x1f \\.,;!?-/:\"')>]}")))
    if "".join(sorted(suffix)) != want:
        ctx.disagree("deprecate:end-string-suffix-table", "ascii", want, "".join(sorted(suffix)))
    ctx.traces_validated += 1


# ------------------------------------------------------------------------------------------------ pydoctor's own markup builders

def build_system(src: str, modname: str = "m", parent: Optional[str] = None):
    from pydoctor import model
    system = model.System()
    system.options.verbosity = -1
    b = system.systemBuilder(system)
    if parent:
        b.addModuleString("", modname=parent, is_package=True)
        b.addModuleString(src, modname=modname, parent_name=parent)
    else:
        b.addModuleString(src, modname=modname)
    b.buildModules()
    return system


def run_builder_streams(ctx: Ctx) -> None:
    from urllib.parse import quote
    from pydoctor.stanutils import flatten
    from pydoctor.templatewriter.pages import format_signature
    from pydoctor.linker import taglink
    from pydoctor import node2stan
    rng = ctx.rng
    n = 500 if ctx.quick else 4000
    # (1) a string default through _ValueFormatter / format_signature / html2stan / flatten
    reqs, impls, pay = [], [], []
    fixed = ["", "a", "<img src=\"x\" onerror=\"z()\"/>", "nb\xa0sp", "\x0c", "\ufffe", "it's", "\\", "\x00", "\x01", "&nbsp;", "&LT;b&GT;",
             "\r", "\t\x0b", "]]>", "\x7f\x85\u2028", "\U0001F600"]
    for v in fixed + [rand_string(rng, 8).replace("\n", "n") for _ in range(n)]:
        system = build_system(f"def f(a={v!r}): pass\n")
        try:
            out = "ok " + enc(flatten(format_signature(system.allobjects["m.f"])))
        except Exception as e:
            out = exc_name(e)
        reqs.append("escape sigdefault " + enc(v))
        impls.append(out)
        pay.append({"op": "sigdefault", "s": v})
        ctx.case(reqs[-1], nontrivial_string(v))
        ctx.count("builder:sigdefault:" + ("broken" if out == "ok " + enc("(...)") else "shown" if out.startswith("ok ") else out))
        if out.startswith("ok "):
            o = dec(out[3:])
            # direct oracle: the signature is well-formed XML whose only elements are the two constant spans, and its
            # text is the escaped value (or the broken sign)
            try:
                el = ET.fromstring("<r>" + drop_illegal(o) + "</r>")
                ok = o == "(...)" or ([c.tag for c in el] == ["span"] * 3 and all(len(c) == 0 for c in el))
            except ET.ParseError:
                ok = False
            if not ok:
                ctx.fail("signature-default-became-markup", pay[-1], f"format_signature of a={v!r}: {o!r}")
    ctx.compare("builder:format_signature(str default)", reqs, impls, pay)
    # (1b) reviewer report B: the signature of an introspected (C) function is a plain inspect.Signature whose str() is
    #      handed to html2stan as markup. Direct oracle only (the model has no markup parser): the signature must be
    #      shown as text — no element may come out of a default value or a string annotation.
    import inspect
    import types
    from pydoctor import model as _model

    def introspected_signature(default: object, ann: object = inspect.Parameter.empty) -> str:
        system = _model.System()
        system.options.verbosity = -1
        mod = system.Module(system, "cext")
        system.addObject(mod)

        class builtin_function_or_method:   # the name is what _introspectThing's fallback heuristic looks at
            def __call__(self) -> None:
                pass
        f = builtin_function_or_method()
        f.__signature__ = inspect.Signature([inspect.Parameter("a", inspect.Parameter.POSITIONAL_OR_KEYWORD,
                                                               default=default, annotation=ann)])
        f.__doc__ = "doc"
        system._introspectThing(types.SimpleNamespace(func=f), mod, mod)
        return flatten(format_signature(system.allobjects["cext.func"]))
    cases = [("<b onzz1=\"1\">x</b>", None), ("<script>xmk1</script>", None), ("<xmk2/>", None), (3, "hint<xmk3>x</xmk3>"), ("plain", None),
             ("a&b", None), ("a<b", None)] + [(rand_string(rng, 6), None) for _ in range(n // 5)]
    ireqs, iimpls, ipay = [], [], []
    for default, ann in cases:
        try:
            o = introspected_signature(default, ann if ann is not None else inspect.Parameter.empty)
        except Exception as e:
            ctx.count("builder:introspected-signature:raises:" + exc_name(e))
            continue
        if ann is None:   # the model takes repr(default) (CPython's repr is a parameter)
            ireqs.append("escape sigintrospected " + enc(repr(default)))
            iimpls.append("ok " + enc(o))
            ipay.append({"op": "sigintrospected", "default": default})
        ctx.case("introspected " + enc(str(default)) + " " + enc(str(ann)), nontrivial_string(str(default) + str(ann)))
        try:
            el = ET.fromstring("<r>" + drop_illegal(o) + "</r>")
            ok = len(el) == 0
        except ET.ParseError:
            ok = False
        ctx.count("builder:introspected-signature:" + ("text" if ok and o != "(...)" else "broken" if o == "(...)" else "markup"))
        if not ok:
            ctx.fail("introspected-signature-parsed-as-markup", {"default": default, "annotation": ann, "out": o},
                     f"introspected signature with default {default!r} / annotation {ann!r} is written as {o!r}")
    ctx.compare("builder:introspected-signature", ireqs, iimpls, ipay)
    # (1c) the math filter: HTMLTranslator._is_math_html on fragments flattened from generated trees
    MT = ["span", "div", "i", "b", "sub", "sup", "hr", "a", "br", "tt", "u", "big", "small", "table", "tbody", "tr", "td",
          "script", "img", "xmk1", "p", "em", "SPAN", "style"]
    MA = ["class", "style", "href", "name", "onclick", "id", "title", "src", "HREF"]
    HREFS = ["javascript:x", " JavaScript:x", "\tdata:text/html,x", "vbscript:x", "http://x/", "#a", "java script:x", "xjavascript:",
             "JAVASCRIPT:", "\u212aavascript:", "", "data", "\xa0javascript:x", "vbScript:\u0130"]

    def math_tree(depth: int):
        if depth >= 3 or rng.random() < 0.3:
            k = rng.random()
            if k < 0.08:
                return ("D", drop_illegal(rand_string(rng, 5)))
            if k < 0.16:
                return ("C", drop_illegal(rand_string(rng, 5)).replace("--", "- ").rstrip("-"))
            return ("T", drop_illegal(rand_string(rng, 5))) if k < 0.85 else ("R", 64)
        name = "" if rng.random() < 0.05 else rng.choice(MT[:17] if rng.random() < 0.85 else MT)
        attrs = []
        for k in rng.sample(MA[:4] if rng.random() < 0.85 else MA, rng.choice([0, 0, 1, 1, 2])):
            attrs.append((k, rng.choice(HREFS) if k.lower() == "href" else drop_illegal(rand_string(rng, 4))))
        return ("E", name, attrs, [math_tree(depth + 1) for _ in range(rng.choice([0, 1, 1, 2, 3]))])
    reqs, impls, pay = [], [], []
    fixed_trees = [("E", "", [], [("E", "script", [], [("T", "x")])]), ("E", "", [], [("E", "b", [("onclick", "x")], [])]),
                   ("E", "", [], [("E", "a", [("href", " JavaScript:x")], [])]), ("E", "", [], [("E", "span", [("class", "text")], [("E", "i", [], [("T", "a")])])]),
                   ("E", "", [], [("E", "span", [("style", "color: x")], [("E", "xmk1", [], [])])]),
                   ("E", "", [], [("E", "span", [("class", "text")], [("D", "><img src=\"x\" onerror=\"a()\"/>")])]),
                   ("E", "", [], [("E", "span", [("class", "mbox")], [("C", "><img src=\"y\"/>")])])]
    for i in range(2 * n):
        t = fixed_trees[i] if i < len(fixed_trees) else ("E", "", [], [math_tree(0) for _ in range(rng.choice([1, 1, 2]))])
        html = flatten(to_stan(t))
        out = "true" if node2stan.HTMLTranslator._is_math_html(html) else "false"
        reqs.append("escape ismath " + tree_tokens(t))
        impls.append(out)
        pay.append({"op": "ismath", "tree": t, "html": html})
        ctx.case(reqs[-1], True)
        ctx.count("builder:_is_math_html:" + out)
        # direct oracle: what the filter keeps contains no element/attribute outside math2html's vocabulary
        if out == "true":
            el = ET.fromstring("<r>" + html + "</r>")
            bad = [e.tag for e in el.iter() if e is not el and (e.tag not in MT[:17] or set(e.attrib) - set(MA[:4])
                   or e.attrib.get("href", "").strip().lower().startswith(("javascript:", "data:", "vbscript:")))]
            if bad:
                ctx.fail("math-filter-keeps-foreign-markup", pay[-1], f"_is_math_html accepts {html!r}")
    ctx.compare("builder:_is_math_html", reqs, impls, pay)
    # (1d) html2stan is given DATA (docutils / colorizer output): twisted.web.template directives in it must not be run
    #      when the page is written. Direct oracle only (the Stan model has no renderers or slots): either html2stan
    #      refuses the fragment, or flattening it gives back the same elements.
    from pydoctor.stanutils import html2stan
    NS = 'xmlns:t="http://twistedmatrix.com/ns/twisted.web.template/0.1"'
    for frag in [f'<span {NS} t:render="nosuch">x</span>', f'<span {NS} t:render="footer">x</span>', f'<t:slot {NS} name="nosuch"/>',
                 f'<t:slot {NS} name="project" default="d"/>', f'<t:transparent {NS}><b>x</b></t:transparent>',
                 f'<a {NS}><t:attr name="href">javascript:x</t:attr>y</a>', '<b>plain</b> text']:
        ctx.case("html2stan-directive " + enc(frag), True)
        try:
            stan = html2stan(frag)
        except Exception as e:
            ctx.count("builder:html2stan-directives:refused:" + exc_name(e))
            continue
        try:
            out = flatten(stan)
            want = [e.tag.split("}")[-1] for e in ET.fromstring("<r>" + frag + "</r>").iter()][1:]
            got = [e.tag for e in ET.fromstring("<r>" + out + "</r>").iter()][1:]
            verdict = "same" if want == got else f"elements {want} became {got}"
        except Exception as e:
            verdict = "flatten raises " + exc_name(e)
        ctx.count("builder:html2stan-directives:" + ("data" if verdict == "same" else "executed"))
        if verdict != "same":
            ctx.fail("html2stan-runs-template-directives", {"html": frag}, f"html2stan({frag!r}): {verdict}")
    # (1e) stanutils._refuse_template_directives on trees built from twisted objects vs the model's `directiveFree`
    from pydoctor import stanutils as _su
    from twisted.web.template import Tag as _Tag, slot as _slot, Comment as _Comment, CDATA as _CDATA
    refuse = getattr(_su, "_refuse_template_directives")   # AttributeError on a tree before 8cc9d33: the stream is recorded as aborted

    def tnode(depth: int):
        k = rng.random()
        if depth >= 3 or k < 0.3:
            return rng.choice(["t", "t", "t", "o", "o", "s"] if rng.random() < 0.25 else ["t", "t", "o"])
        name = "" if rng.random() < 0.06 else rng.choice(["span", "div", "b", "a"])
        return ("(", name, rng.random() < 0.06, rng.random() > 0.06, [tnode(depth + 1) for _ in range(rng.choice([0, 1, 2, 3]))])

    def tn_tokens(t) -> str:
        if isinstance(t, str):
            return t
        return "( %s %d %d %s)" % (enc(t[1]), t[2], t[3], "".join(tn_tokens(c) + " " for c in t[4]))

    def tn_real(t):
        if t == "t":
            return "text"
        if t == "o":
            return rng.choice([_Comment("c"), _CDATA("d")])
        if t == "s":
            return _slot("name")
        tag = _Tag(t[1], attributes={"class": "c"} if t[3] else {"class": "c", "href": rng.choice([_slot("u"), [_Tag("b")], ["x"]])},
                   children=[tn_real(c) for c in t[4]])
        if t[2]:
            tag.render = "footer"
        return tag
    reqs, impls, pay = [], [], []
    fixed_t = [("(", "div", False, True, [("(", "span", True, True, ["t"])]), ("(", "div", False, True, ["s"]), ("(", "div", False, True, [("(", "", False, True, ["t"])]),
               ("(", "div", False, True, [("(", "a", False, False, [])]), ("(", "div", False, True, ["o", ("(", "b", False, True, ["t"])]), ("(", "div", True, True, [])]
    for i in range(n):
        t = fixed_t[i] if i < len(fixed_t) else ("(", "div", False, True, [tnode(0) for _ in range(rng.choice([1, 2, 3]))])
        try:
            refuse(tn_real(t))
            out = "ok"
        except ValueError:
            out = "ValueError"
        except Exception as e:
            out = exc_name(e)
        reqs.append("escape directivefree " + tn_tokens(t))
        impls.append(out)
        pay.append({"op": "directivefree", "tree": t})
        ctx.case(reqs[-1], True)
        ctx.count("builder:_refuse_template_directives:" + out)
    ctx.compare("builder:_refuse_template_directives", reqs, impls, pay)
    # (2) urllib.parse.quote and Documentable.url / taglink
    reqs, impls, pay = [], [], []
    for _ in range(5 * n):
        v = rand_string(rng, 8)
        reqs.append("escape quote " + enc(v))
        impls.append("ok " + enc(quote(v)))
        pay.append({"op": "quote", "s": v})
        ctx.case(reqs[-1], nontrivial_string(v))
        ctx.count("builder:quote")
    ctx.compare("builder:urllib.quote", reqs, impls, pay)
    reqs, impls, pay = [], [], []
    for i in range(n // 4):
        name = rand_string(rng, 6).replace(".", "d") or "m"
        single_root = i % 3 == 0
        system = build_system("class C:\n    def meth(self): pass\n    class In:\n        attr = 1\nV = 1\n", modname=name,
                              parent=None if single_root else "pk")
        prefix = "" if single_root else "pk."
        for full in (prefix + name, prefix + name + ".C", prefix + name + ".C.meth", prefix + name + ".V", prefix + name + ".C.In.attr"):
            o = system.allobjects.get(full)
            if o is None:
                continue
            page = o.page_object
            root = "1" if list(system.root_names) == [page.fullName()] else "0"
            anchor = "-" if page is o else enc(o.name)
            reqs.append(f"escape url {root} {enc(page.fullName())} {anchor}")
            impls.append("ok " + enc(o.url))
            pay.append({"op": "url", "fullName": full})
            ctx.case(reqs[-1], nontrivial_string(full))
            ctx.count("builder:url:" + ("page" if page is o else "anchor") + (":root" if root == "1" else ""))
            # direct oracle: nothing in a URL needs escaping in an attribute, and taglink puts it in href as it is
            if re.search("[<>&\"' \x00-\x1f]", o.url):
                ctx.fail("url-has-metachar", pay[-1], f"url {o.url!r}")
            for cur in (page.url, "other.html", ""):
                tag = taglink(o, cur)
                href = tag.attributes.get("href")
                reqs.append(f"escape taglinkhref {enc(cur)} {enc(o.url)}")
                impls.append("ok " + enc(href))
                pay.append({"op": "taglinkhref", "fullName": full, "page": cur})
                ctx.case(reqs[-1], nontrivial_string(full))
                ctx.count("builder:taglink")
    ctx.compare("builder:Documentable.url+taglink", reqs, impls, pay)
    # (3) node2stan.HTMLTranslator.starttag (the rst- munging on top of docutils) and _valid_identifier
    reqs, impls, pay = [], [], []
    CW = ["a", "b", "rst-x", "rst-", "language-py", "language-", "literal", "a", " ", "  ", "\t", "\u3000", "<", "\"", "&", "x\">", "heading", "é"]
    for _ in range(2 * n):
        tag = rng.choice(["div", "p", "h2", "h10", "h", "hx", "span", "h2a"])
        v = "".join(rng.choice(CW) + rng.choice(["", " ", " "]) for _ in range(rng.choice([0, 1, 2, 3, 4])))
        try:
            out = "ok " + enc(translator().starttag({}, tag, "", CLASS=v))
        except Exception as e:
            out = exc_name(e)
        reqs.append(f"escape starttagclass {enc(tag)} {enc(v)}")
        impls.append(out)
        pay.append({"op": "starttagclass", "tag": tag, "s": v})
        ctx.case(reqs[-1], nontrivial_string(v))
        ctx.count("builder:starttag-class")
        h = rng.choice(["#", "#rst-", "", "#", "http://x/", "javascript:", "##"]) + rand_string(rng, 5)
        try:
            out = "ok " + enc(translator().starttag({}, "a", "", href=h))
        except Exception as e:
            out = exc_name(e)
        reqs.append(f"escape starttaghref {enc(h)}")
        impls.append(out)
        pay.append({"op": "starttaghref", "s": h})
        ctx.case(reqs[-1], nontrivial_string(h))
        ctx.count("builder:starttag-href")
        w = rand_string(rng, 8)
        reqs.append("escape valididcss " + enc(w))
        impls.append("ok " + enc(node2stan._valid_identifier(w)))
        pay.append({"op": "valididcss", "s": w})
        ctx.case(reqs[-1], nontrivial_string(w))
        ctx.count("builder:_valid_identifier")
        for o in impls[-3:-1]:
            if o.startswith("ok "):
                t = dec(o[3:])
                try:
                    el = ET.fromstring(DOCTYPE + drop_illegal(t) + "</" + t[1:].split(" ")[0].rstrip(">") + ">")
                    ok = len(el) == 0 and set(el.attrib) <= {"class", "lang", "href", "target"}
                except ET.ParseError:
                    ok = False
                if not ok:
                    ctx.fail("attr-not-preserved:node2stan.starttag", pay[-2], f"start tag {t!r}")
    ctx.compare("builder:node2stan.starttag+_valid_identifier", reqs, impls, pay)


# ------------------------------------------------------------------------------------------------ run / replay

def probe_uri_autolink(ctx: Ctx) -> None:
    """observation, not part of the oracle: a URI is inline markup in the reST-based docformats (standalone hyperlink), and
    docutils' scheme list contains javascript: and data: — `see javascript:alert(1)` in a docstring becomes a link. This is
    the docformat's markup (like *emphasis*), so the taint generator keeps URIs out of docstrings; the fact is recorded."""
    from pydoctor.epydoc.markup import restructuredtext
    from pydoctor.stanutils import flatten
    from pydoctor.test import NotFoundLinker
    errs: List[Any] = []
    html = flatten(restructuredtext.parse_docstring("see javascript:alert(1) now", errs).to_stan(NotFoundLinker()))
    ctx.count("probe:rst-docstring-autolinks-javascript-uri:" + ("yes" if 'href="javascript:' in html else "no"))


def run(ctx: Ctx) -> None:
    import traceback
    for stream in (probe_uri_autolink, run_function_streams, run_tree_stream, run_deprecate_streams, run_builder_streams,
                   run_taint_stream):
        try:
            stream(ctx)
        except Exception as e:
            # a function of /repo that moved or vanished (e.g. an older tree) breaks that stream's tie, not the whole
            # check: the remaining streams — above all the taint oracle — still run
            ctx.disagree("harness:" + stream.__name__, "stream aborted", "-",
                         f"{type(e).__name__}: {e} | " + traceback.format_exc().strip().splitlines()[-3].strip())


def replay(ctx: Ctx, obj) -> int:
    inp = obj.get("input") or obj.get("request") or {}
    if isinstance(inp, dict) and "op" in inp:
        out = impl_fn(inp["op"], inp["s"])
        print("impl  :", out if not out.startswith("ok ") else repr(dec(out[3:])))
        try:
            m = ctx.driver.run([f"escape {inp['op']} {enc(inp['s'])}"])[0]
            print("model :", m if not m.startswith("ok ") else repr(dec(m[3:])))
        except Exception as e:
            print("model : unavailable", e)
        before = len(ctx.failures)
        oracle_fn(ctx, inp["op"], inp["s"], out)
        print("oracle:", ctx.failures[before:] or "property holds on this input")
        return 1 if len(ctx.failures) > before else 0
    if isinstance(inp, dict) and "files" in inp:
        return replay_project(ctx, inp)
    print(obj)
    return 0


# ================================================================================================ taint stream
#
# Direct oracle on whole runs of the real driver.  A *marker* is  MK<4 digits>q + payload ; the payload carries HTML
# metacharacters and, when interpreted as markup, would create elements/attributes with names unique to the marker
# (xmk<id>, onzz<id>) or `javascript:` links.  For every written page:
#   W  the page parses as XML once characters that are not XML Chars are set aside (they are mapped to private-use
#      placeholders, not deleted, so that no new token can arise from the deletion) and &nbsp; is declared;
#   S  no element named xmk*, no attribute named onzz*, no href/src starting with javascript:, no <em>/<strong> made of
#      an MKEM token, no marker inside <script>/<style>;
#   A  every occurrence of a marker id in the page bytes lies in a text node or an attribute value;
#   V  after each id the payload follows verbatim, modulo the presentation the position allows (Python repr escapes,
#      `\xNN` for control characters, white space, the line-wrap sign).

DOCFORMATS = ["epytext", "restructuredtext", "google", "numpy", "plaintext"]

HTML_PAYLOADS = [
    "<xmk{i} onzz{i}=x>&\"'",
    "</pre></code></p><xmk{i}>alert(1)</xmk{i}>",
    "]]>-->",
    "&lt;&#60;&amp;amp;&xmk{i};",
    "<!--xmk{i}",
    "\x01\x08\x1b\x7f\"<xmk{i}>",
    "\"><xmk{i} onzz{i}=\"",
    "' onzz{i}='x",
    "<![CDATA[<xmk{i}>]]>",
    "\U0001F600<xmk{i}/>é&",
    "<script>xmk{i}</script>",
    "<xmk{i} onzz{i}=\"x\">y</xmk{i}>",
    # balanced: still well-formed XML when pasted unescaped into an attribute value or between elements (anything
    # unbalanced is "caught" by pydoctor's own XML re-parse and hidden behind the plain-text fallback)
    "<img src=\"x\" onzz{i}=\"z()\"/>",
    "x\"><xmk{i}>m</xmk{i}><i y=\"",
    "\"><script>xmk{i}</script><pre class=\"",
    "x\" onzz{i}=\"1",
    "</pre><xmk{i}>m</xmk{i}><pre>",
    # entity look-alikes that HTML (not XML) knows: must stay text
    "&LT;xmk{i}&GT;m&LT;/xmk{i}&GT;",
    "&LT;img src=&QUOT;x&QUOT; onzz{i}=&QUOT;1&QUOT;/&GT;&lsqb;",
]
# arguments of directives that cannot hold white space (code language, role names): balanced, no blank
NOSPACE_PAYLOADS = [
    "x\">a</pre><xmk{i}>m</xmk{i}><pre>",
    "x\"><script>xmk{i}</script><pre>",
    "\"/><xmk{i}/><pre>",
    "<xmk{i}/>",
    "&LT;xmk{i}/&GT;",
]
# values that make the XML re-parse of a signature / value fail on the unchanged tree (html4css1 writes U+00A0 as
# &nbsp;): a sibling of a hostile value in the same signature exercises every "second try" path
TRIPPERS = ["\u00a0", "a\u00a0b", "\x0c", "\ufffe", "\u2028\u00a0", "&nbsp;\u00a0"]
# text inside math markup (epytext M{...}, reST :math: / .. math::): the argument of \\text{} / \\mbox{} and the literal
# parameters of \\color{} are LaTeX *text*, not markup
MATH_PAYLOADS = ["<xmk{i} onzz{i}=\"1\">n</xmk{i}>", "<script>xmk{i}</script>", "<img src=\"x\" onzz{i}=\"1\"/>"]
# hunter round: text of a formula wrapped in a CDATA section / a comment (written verbatim by the flattener: nothing in it
# is escaped, and for an HTML parser '<![CDATA[>' and '<!-->' end at once), and twisted.web.template directives
MATH_CDATA_PAYLOADS = ["<![CDATA[><xmk{i} onzz{i}=\"1\"/>]]>", "<![CDATA[<script>xmk{i}</script>]]>"]
MATH_COMMENT_PAYLOADS = ["<!--><xmk{i} onzz{i}=\"1\"/>-->", "<!---><script>xmk{i}</script>-->"]
TNS = "xmlns:t=\"http://twistedmatrix.com/ns/twisted.web.template/0.1\""
MATH_TEMPLATE_PAYLOADS = ["<span " + TNS + " t:render=\"footer\">x{i}</span>"]
MATH_TEMPLATE_ABORT_PAYLOADS = ["<span " + TNS + " t:render=\"nosuch{i}\">x</span>", "<t:slot " + TNS + " name=\"nosuch{i}\"/>"]
# combining characters that NFC composes with the ASCII character before them (> < = and letters)
LEADS = ["\u0338", "\u0338", "\u20d2", "\u0307", "\u0301", "\u3099", "\u0338\u0338"]
# reST-flavoured payloads: only for positions that are not docstrings (in a docstring they are the author's markup)
REST_PAYLOADS = [
    "<a href=\"javascript:alert({i})\">MKURL{i}</a>",   # a URI is reST markup too (standalone hyperlink): not for docstrings
    "a`` `MKURL{i} <javascript:alert({i})>`_ ``b",
    " *MKEM{i}* x",
    "x *MKEM{i}* ",
    "x\rA *MKEM{i}* b\r\r.. raw:: html\r\r   <xmk{i} onzz{i}=1>\r\r",
    "x\x1cA *MKEM{i}* b",
    "*MKEM{i}* y\x00",
    "x *MKEM{i}* \\",          # blank + trailing backslash: what rstrip('\\') uncovers
    "x *MKEM{i}* \x00\\\\",
]
VALUE_KINDS = ["constant", "class-constant", "default", "annotation", "decorator-arg", "class-base-arg",
               "deprecated-replacement", "deprecated-package", "attribute-value"]
DOC_KINDS = ["module-docstring", "function-docstring", "class-docstring", "attribute-docstring", "field-param",
             "field-type", "field-return", "field-raise-name", "inline-code", "inline-link"]


def placeholder(c: str) -> str:
    return chr(0xE000 + ord(c)) if ord(c) < 0x100 else "\uE100"


def set_aside(s: str) -> str:
    return XML_ILLEGAL.sub(lambda m: placeholder(m.group()), s)


_N_WS = re.compile(r"[\s\\\u21b5]+")


def norm_marker_text(s: str) -> str:
    """presentation-insensitive form: control characters as xNN (whether they arrive raw, as placeholder, as Python
    escape or as html2stan's \\xNN), no white space, no backslashes, no wrap sign"""
    out = []
    for c in s:
        o = ord(c)
        if 0xE000 <= o < 0xE100:
            o = o - 0xE000
            c = chr(o)
        if c == "\r":
            out.append("r")
        elif c == "\n":
            out.append("n")
        elif c == "\t":
            out.append("t")
        elif o < 32 or o == 127:
            out.append("x%02x" % o)
        else:
            out.append(c)
    return _N_WS.sub("", "".join(out))


_WEAK = re.compile(r"[\x00-\x20\x7f\x85\xa0\u2028\u2029`'\\\ue000-\ue100]+")


def weak_norm(s: str) -> str:
    """for the deprecation notice, whose text is legitimately re-spaced (and, once fixed, re-quoted): ignore white space,
    control characters, backticks, apostrophes and backslashes"""
    return _WEAK.sub("", s)


class Marker:
    def __init__(self, idx: int, kind: str, payload: str, lead: str = ""):
        self.id = "MK%04dq" % idx
        self.num = idx
        self.kind = kind
        self.payload = payload.replace("{i}", str(idx))
        # `lead`: combining characters put in FRONT of the id, so that they are the first thing of a text node or
        # attribute value: a post-processing of the serialised page (NFC...) would compose them with the `>` or `"`
        # that precedes them (U+0338 + '>' = U+226F)
        self.text = lead + self.id + self.payload

    def lit(self) -> str:
        return repr(self.text)


BS2 = chr(92) * 2   # a backslash as it has to be typed inside a (non-raw) docstring literal


def gen_project(rng, pidx: int, docformat: str, force_deprecated: bool = False) -> Dict[str, Any]:
    """source files of one tiny tainted project + its markers"""
    markers: List[Marker] = []
    counter = [pidx * 40]

    def mk(kind: str, rest_ok: bool = False, fix=None, pool=None) -> Marker:
        counter[0] += 1
        if pool is not None:
            pl = rng.choice(pool)
        else:
            pl = rng.choice(REST_PAYLOADS) if (rest_ok and rng.random() < 0.5) else rng.choice(HTML_PAYLOADS)
        if "\x00" in pl and kind != "deprecated-replacement":
            pl = pl.replace("\x00", "")   # NUL in a displayed value is dropped by the colorizer: C15's subject (DESIGN §8-5)
        if fix is not None:
            pl = fix(pl)
        lead = rng.choice(LEADS) if rng.random() < 0.25 and not kind.startswith("directive:") and kind not in (
            "module-filename", "field-raise-name", "deprecated-package") else ""
        m = Marker(counter[0] % 10000, kind, pl, lead)
        markers.append(m)
        return m

    def doc_safe(m: Marker) -> str:
        """marker text as it is typed inside a (non-raw) docstring literal"""
        return m.text.replace("\\", "\\\\").replace('"""', '\\"\\"\\"').replace("\x00", "")

    def docstring(summary_kind: str, fields: bool) -> str:
        m1 = mk(summary_kind)
        # sometimes the marker (and its leading combining character) is the very first thing of the docstring
        parts = [f"{doc_safe(m1)} end." if rng.random() < 0.3 else f"Summary {doc_safe(m1)} end."]
        if rng.random() < 0.7:
            m2 = mk(summary_kind)
            parts.append(f"\nBody text {doc_safe(m2)} more text.")
        if docformat != "plaintext" and rng.random() < 0.25:
            mkind, mpool = rng.choice([("math-text", MATH_PAYLOADS)] * 5 + [("math-cdata", MATH_CDATA_PAYLOADS), ("math-comment", MATH_COMMENT_PAYLOADS),
                                       ("math-template", MATH_TEMPLATE_PAYLOADS)] * 2)
            if rng.random() < 0.04:   # rare: such a directive aborts the whole run, nothing else of the project is seen
                mkind, mpool = "math-template-abort", MATH_TEMPLATE_ABORT_PAYLOADS
            mm = mk(mkind, pool=mpool)
            cmd = rng.choice(["text", "mbox", "textrm"])
            inner = BS2 + cmd + "{" + doc_safe(mm) + "}"
            parts.append(f"\nMath M{{{inner}}} done." if docformat == "epytext" else f"\nMath :math:`{inner}` done.")
        if docformat == "epytext":
            if rng.random() < 0.5:
                parts.append(f"\nCode C{{{doc_safe(mk('inline-code'))}}} done.")
            if rng.random() < 0.5:
                # L{text<target>} is epytext's own link syntax: keep the payload from ending in <...>
                parts.append(f"\nLink L{{{doc_safe(mk('inline-link', fix=lambda p: p + ' z'))}}} done.")
            if fields:
                parts.append(f"\n@param a: desc {doc_safe(mk('field-param'))}" + (" nb\u00a0sp" if rng.random() < 0.3 else ""))
                if rng.random() < 0.5:
                    parts.append(f"@type a: {doc_safe(mk('field-type'))}")
                parts.append(f"@return: {doc_safe(mk('field-return'))}" + (" C{a  b}\u00a0" if rng.random() < 0.3 else ""))
                if rng.random() < 0.5:
                    parts.append(f"@raise {doc_safe(mk('field-raise-name', fix=lambda p: p.replace(' ', '_')))}: when")
        elif docformat == "restructuredtext":
            if rng.random() < 0.5:
                parts.append(f"\nCode ``{doc_safe(mk('inline-code'))}`` done.")
            if rng.random() < 0.5:
                # `text <target>` is reST's own link syntax: keep the payload from ending in <...>
                parts.append(f"\nLink `{doc_safe(mk('inline-link', fix=lambda p: p + ' z'))}` done.")
            if fields:
                parts.append(f"\n:param a: desc {doc_safe(mk('field-param'))}" + (" nb\u00a0sp" if rng.random() < 0.3 else ""))
                if rng.random() < 0.5:
                    parts.append(f":type a: {doc_safe(mk('field-type'))}")
                parts.append(f":returns: {doc_safe(mk('field-return'))}")
        elif docformat == "google" and fields:
            parts.append(f"\nArgs:\n    a: desc {doc_safe(mk('field-param'))}\n\nReturns:\n    {doc_safe(mk('field-return'))}")
        elif docformat == "numpy" and fields:
            parts.append(f"\nParameters\n----------\na : int\n    desc {doc_safe(mk('field-param'))}\n\nReturns\n-------\nint\n    {doc_safe(mk('field-return'))}")
        body = "\n".join(parts)
        return '"""' + body + '\n"""'

    def indent(s: str, n: int = 4) -> str:
        return "\n".join((" " * n + l if l else l) for l in s.split("\n"))

    lines = [docstring("module-docstring", False),
             "from typing import Literal, Generic",
             "from twisted.python.deprecate import deprecated",
             "from incremental import Version",
             "def deco(*a, **k):\n    return lambda f: f",
             "class Base:\n    pass", ""]
    # constant
    if rng.random() < 0.8:
        lines.append(f"CONST_A = {mk('constant', True).lit()}")
        if rng.random() < 0.5:
            lines.append(docstring("attribute-docstring", False))
    def trip(p: float = 0.5) -> Optional[str]:
        return repr(rng.choice(TRIPPERS)) if rng.random() < p else None

    if rng.random() < 0.4:
        t = trip()
        lines.append(f"CONST_B = [{mk('constant', True).lit()}, {{'k': {mk('constant').lit()}}}" + (f", {t}" if t else "") + "]")
    if rng.random() < 0.3:
        lines.append(f"CONST_T = ({trip(1.0)}, {mk('constant').lit()})")
    if rng.random() < 0.3:
        lines.append(f"var_c: {mk('annotation').lit()} = {mk('attribute-value').lit()}")
    # function
    deco = ""
    if rng.random() < 0.5:
        t = trip(0.4)
        deco += f"@deco({mk('decorator-arg', True).lit()}, k={mk('decorator-arg').lit()}" + (f", t={t}" if t else "") + ")\n"
    if force_deprecated or rng.random() < 0.35:
        deco += f"@deprecated(Version('tp', 1, 2, 3), replacement={mk('deprecated-replacement', True).lit()})\n"
    ann = f": Literal[{mk('annotation').lit()}]" if rng.random() < 0.5 else ""
    ret = f" -> {mk('annotation').lit()}" if rng.random() < 0.4 else ""
    t = trip()
    tpar = ""
    if t:
        tpar = rng.choice([f", t={t}", f", t: Literal[{t}] = None", f", t: {t} = 0"])
    lines.append(f"{deco}def func(a{ann}={mk('default', True).lit()}, *, b={mk('default').lit()}{tpar}){ret}:\n"
                 + indent(docstring("function-docstring", True)) + "\n    return a\n")
    if rng.random() < 0.3:
        # overloads have signatures of their own
        lines.append("from typing import overload\n"
                     f"@overload\ndef ov(a: int, s={mk('default').lit()}, t={trip(1.0)}) -> int: ...\n"
                     f"@overload\ndef ov(a: str, s: Literal[{mk('annotation').lit()}] = None, t={trip(1.0)}) -> str: ...\n"
                     "def ov(a, s=None, t=None):\n    '''overloaded'''\n    return a\n")
    # class
    t = trip(0.4)
    base = (f"(Base, Generic[{mk('class-base-arg').lit()}" + (f", {t}" if t else "") + "])") if rng.random() < 0.4 else "(Base)"
    cdeco = f"@deco({mk('decorator-arg').lit()})\n" if rng.random() < 0.3 else ""
    cl = [f"{cdeco}class Klass{base}:", indent(docstring("class-docstring", False))]
    if rng.random() < 0.7:
        cl.append(f"    LIMIT = {mk('class-constant', True).lit()}")
    if rng.random() < 0.5:
        cl.append(f"    attr: {mk('annotation').lit()} = 1")
        cl.append(indent(docstring("attribute-docstring", False)))
    t = trip()
    cl.append(f"    def meth(self, x={mk('default').lit()}" + (f", pad={t}" if t else "") + "):\n" + indent(docstring("function-docstring", True), 8) + "\n        return x")
    if rng.random() < 0.3:
        cl.append(f"    @deprecated(Version('tp', 2, 0, 0), {mk('deprecated-replacement', True).lit()})\n    def old(self):\n        '''old'''")
    if rng.random() < 0.3:
        # the package name is interpolated bare: deprecate refuses anything but a dotted identifier (ValueError, reported)
        cl.append(f"    @deprecated(Version({mk('deprecated-package', True).lit()}, 2, 0, 0), 'Base')\n    def older(self):\n        '''older'''")
    lines.append("\n".join(cl))
    files = {"tp/__init__.py": "\n".join(lines) + "\n"}
    if docformat == "restructuredtext" or (docformat in ("google", "numpy") and rng.random() < 0.3):
        files["tp/rstx.py"] = gen_directive_module(rng, mk, doc_safe)
    if rng.random() < 0.25:
        m = mk("module-filename")
        # a file name may hold anything but '/' and NUL; keep it importable-looking
        fname = (m.id + rng.choice(["&lt;<b>", "<xmk%d onzz%d=x>" % (m.num, m.num), "\"'&", "]]>",
                                    "` **MKEM%d** `b" % m.num, "` **MKEM%d** `b" % m.num, "`` *MKEM%d* ``" % m.num]))
        m.payload = fname[len(m.id):]
        m.text = fname
        # a class with a constructor: its qualified name (file name included) goes into the "Constructor:" notice
        files["tp/" + fname + ".py"] = '"""mod"""\nV = 1\nclass K:\n    """doc"""\n    def __init__(self, a, b=1):\n        """init"""\n'
    return {"docformat": docformat, "files": files,
            "markers": [(m.id, m.num, m.kind, m.payload) for m in markers]}


OBJECT_EXTS = ["svg", "swf", "mp4", "webm", "ogg", "SVG", "Svg", "MP4", "SWF", "WebM", "OGG", "sVg"]


def gen_directive_module(rng, mk, doc_safe) -> str:
    """reST constructs whose ARGUMENTS and OPTIONS (not body text) carry markers: one construct per function docstring,
    so that a construct docutils refuses does not hide the others"""
    n = [0]

    def D(kind: str, nospace: bool = False) -> str:
        m = mk("directive:" + kind, pool=NOSPACE_PAYLOADS if nospace else None)
        return doc_safe(m)

    def N() -> int:
        n[0] += 1
        return n[0]

    Q = chr(34)
    constructs = [
        lambda: f".. code:: {D('code-language', True)}\n\n   body <b> & text",
        lambda: f".. code-block:: {D('code-language', True)}\n   :caption: {D('code-caption')}\n\n   body <b> & text",
        lambda: f".. code:: shell\n   :class: {D('option-class')}\n   :name: {D('option-name')}\n\n   ls <dir>",
        lambda: f".. code:: python\n   :number-lines: {D('code-number-lines', True)}\n\n   x = 1",
        lambda: f".. admonition:: Title {D('admonition-title')}\n   :class: {D('option-class')}\n\n   text",
        lambda: f".. note:: {D('admonition-arg')}\n\n.. warning::\n   :name: {D('option-name')}\n\n   w",
        # docutils lower-cases the extension before it decides for <object>: every spelling of it counts
        lambda: f".. image:: diagram.{rng.choice(OBJECT_EXTS)}\n   :alt: {D('image-alt-object')}",
        lambda: f".. image:: pic{D('image-uri-object', True)}.{rng.choice(OBJECT_EXTS)}",
        lambda: f".. figure:: fig.{rng.choice(OBJECT_EXTS)}\n   :alt: {D('image-alt-object')}\n\n   caption {D('figure-caption')}",
        lambda: f".. image:: pic{D('image-uri', True)}.png\n   :alt: {D('image-alt')}\n   :target: http://t/{D('image-target', True)}\n   :width: {D('image-width', True)}",
        lambda: f".. figure:: fig{D('image-uri', True)}.png\n   :figclass: {D('option-class')}\n\n   caption {D('figure-caption')}",
        lambda: (lambda k: f".. |sub{k}| replace:: {D('substitution-text')}\n\nUse |sub{k}| and |{D('substitution-name')}| here.")(N()),
        lambda: f"Role :emphasis:`{D('role-text')}` and :{D('role-name', True)}:`x` and :code:`{D('role-text')}`.",
        lambda: (lambda k: f"See [#fn{k}]_ and [{D('footnote-label', True)}]_.\n\n.. [#fn{k}] footnote {D('footnote-text')}")(N()),
        lambda: f".. _target {D('target-name')}: http://example.org/{D('target-uri', True)}\n\nSee `target`_ and `{D('reference-name')}`_.",
        lambda: f"Text.\n\n:fieldname {D('field-name')}: value {D('field-body')}",
        lambda: f".. csv-table:: {D('table-title')}\n   :header: h1, h2\n\n   c1, {D('table-cell').replace(',', ';').replace(Q, chr(39))}",
        lambda: f".. math:: {D('math')}\n\n.. math::\n   :label: {D('option-name')}\n\n   x^2",
        lambda: f".. versionadded:: 1.0 {D('version-arg')}\n\n.. deprecated:: {D('version-arg', True)}\n   text",
        lambda: f".. rubric:: {D('rubric')}\n   :class: {D('option-class')}\n\n.. topic:: {D('topic-title')}\n\n   body",
        lambda: f".. container:: {D('container-class')}\n\n   body\n\n.. class:: {D('option-class')}\n\nparagraph",
        lambda: f".. python::\n   :class: {D('option-class')}\n\n   print(1)\n\n.. unknown-{D('directive-name', True)}:: arg",
        lambda: f"Title {D('section-title')}\n==================================================\n\ntext\n\n.. contents:: {D('contents-title')}",
        lambda: f".. _label {D('target-name')}:\n\n>>> print('{D('doctest-text')}')\nx\n\nSee `label {D('reference-name')}`_.",
        lambda: f".. _{D('target-name', True)}:\n\n.. code:: python\n\n   x = '{D('code-text')}'\n",
        # a lone top-level section (and a lone sub-section): docutils promotes them to document title / subtitle, pydoctor
        # writes them as h2/h3 headings with the moved ids (4065140). NOSUM: the title must be the first thing
        lambda: f"NOSUM{D('promoted-title')} t\n==================================================\n\ntext `{D('reference-name')}`_",
        lambda: (f"NOSUM{D('promoted-title')} t\n==================================================\n\n"
                 f"{D('promoted-subtitle')} s\n--------------------------------------------------\n\ntext"),
        lambda: f".. list-table:: {D('table-title')}\n   :widths: 10 {D('table-widths', True)}\n\n   * - a\n     - {D('table-cell')}",
        lambda: f".. parsed-literal::\n   :class: {D('option-class')}\n\n   literal {D('parsed-literal')}\n\n.. epigraph::\n\n   quote\n\n   -- {D('attribution')}",
    ]
    out = [Q * 3 + "reST constructs" + Q * 3, '__docformat__ = "restructuredtext"', ""]
    for k, c in enumerate(rng.sample(constructs, 7)):
        body = c()
        body = body[5:] if body.startswith("NOSUM") else "Summary.\n\n" + body
        out.append(f"def d{k}():\n    " + Q * 3 + "\n" + "\n".join(("    " + l if l else l) for l in body.split("\n"))
                   + "\n    " + Q * 3 + "\n")
    return "\n".join(out)


def write_project(root: str, files: Dict[str, str]) -> None:
    for rel, src in files.items():
        p = os.path.join(root, rel)
        os.makedirs(os.path.dirname(p), exist_ok=True)
        with open(p, "w", encoding="utf-8", newline="") as f:
            f.write(src)


PAGE_DOCTYPE = re.compile(r"^\s*(<\?xml[^>]*\?>)?\s*<!DOCTYPE[^>]*>", re.S)
ENTITY_DECL = '<!DOCTYPE html [<!ENTITY nbsp "&#160;">]>'


def parse_page(raw: bytes):
    """-> (root element | None, error text). The DOCTYPE is replaced by one that declares the HTML entity in use."""
    try:
        text = raw.decode("utf-8")
    except UnicodeDecodeError as e:
        return None, None, f"not utf-8: {e}"
    text = set_aside(text)
    body = PAGE_DOCTYPE.sub("", text, count=1)
    try:
        # comments are kept: marker text inside an HTML comment (a reST comment or unknown directive) is inert and accounted for
        parser = ET.XMLParser(target=ET.TreeBuilder(insert_comments=True))
        parser.feed((ENTITY_DECL + body).encode("utf-8"))
        return parser.close(), text, ""
    except ET.ParseError as e:
        line, col = e.position
        src = (ENTITY_DECL + body).split("\n")
        ctxt = src[line - 1][max(0, col - 60):col + 60] if 0 < line <= len(src) else ""
        return None, text, f"{e}: …{ctxt}…"


def local(tag: str) -> str:
    return tag.rsplit("}", 1)[-1] if isinstance(tag, str) else ""


def check_page(name: str, raw: bytes, markers: Sequence[Tuple[str, int, str, str]]) -> List[Tuple[str, str]]:
    """all violations found on one page, as (signature, explanation)"""
    res: List[Tuple[str, str]] = []
    root, text, err = parse_page(raw)
    by_num = {num: (mid, kind, pl) for mid, num, kind, pl in markers}

    hit_nums = set()

    def kind_of(s: str) -> str:
        m = re.search(r"(?:xmk|onzz|MKEM|MKURL|alert\()(\d+)", s)
        if m and int(m.group(1)) in by_num:
            hit_nums.add(int(m.group(1)))
            mid, kind, pl = by_num[int(m.group(1))]
            if kind == "deprecated-replacement" and re.search(r"[\s\x00]\\+[\s\x00]*$", pl):
                kind += ":blank-before-trailing-backslash"
            return kind
        m = re.search(r"MK(\d{4})q", s)
        if m and int(m.group(1)) in by_num:
            return by_num[int(m.group(1))][1]
        return "unknown"

    if root is None:
        if "no element found" in err and len(raw) < 200:
            # only the DOCTYPE was written: the run was aborted while this page was being flattened
            res.append(("page-truncated:run-aborted", f"{name}: {len(raw)} bytes, {err[:80]}"))
            return res
        res.append(("page-not-well-formed:" + kind_of(err), f"{name}: {err}"))
        return res
    texts: List[Tuple[str, str]] = []   # (where, decoded string)
    for el in root.iter():
        tag = local(el.tag)
        if not isinstance(el.tag, str):
            if el.tag is ET.Comment and el.text:
                texts.append(("comment", el.text))
            if el.tail:
                texts.append(("tail", el.tail))
            continue
        if tag.lower().startswith("xmk"):
            res.append(("source-text-became-markup:" + kind_of(tag), f"{name}: element <{tag}>"))
        for k, v in el.attrib.items():
            lk = local(k).lower()
            if lk.startswith("onzz"):
                res.append(("source-text-became-markup:" + kind_of(lk), f"{name}: attribute {lk} on <{tag}>"))
            if lk in ("href", "src", "action") and v.strip().lower().startswith("javascript:"):
                res.append(("source-text-became-markup:" + kind_of(v), f"{name}: {lk}={v!r} on <{tag}>"))
            texts.append((f"@{lk}", v))
        full = "".join(el.itertext())
        if tag in ("em", "strong", "b", "i") and re.fullmatch(r"MKEM\d+", full.strip()):
            res.append(("source-text-became-markup:" + kind_of(full), f"{name}: <{tag}>{full}</{tag}>"))
        if tag in ("script", "style") and re.search(r"MK\d{4}q|xmk\d", full):
            res.append(("marker-in-script:" + kind_of(full), f"{name}: <{tag}> contains {full[:80]!r}"))
        if el.text:
            texts.append((tag, el.text))
        if el.tail:
            texts.append(("tail", el.tail))
    # R: the markup characters of a marker are escaped wherever it is written: outside well-behaved comments the page
    #    source never contains a marker's '<tag' literally (a CDATA section or an abruptly closed comment '<!-->' holds
    #    source text unescaped: an XML reader calls it text, an HTML reader builds the elements)
    bare = re.sub(r"<!--(?!-?>)(?:(?!--!?>).)*?-->", "", text, flags=re.S)
    for m in re.finditer(r"</?xmk(\d+)|<script>xmk(\d+)|<img src=\"x\" onzz(\d+)", bare):
        n_ = int(next(g for g in m.groups() if g))
        if n_ in by_num and n_ not in hit_nums:
            hit_nums.add(n_)
            res.append((f"marker-markup-unescaped:{by_num[n_][1]}", f"{name}: the page source contains {bare[max(0, m.start() - 30):m.end() + 30]!r}"))
    # T: a template directive written in source text was run: the page footer exists once
    if sum(1 for el in root.iter() if isinstance(el.tag, str) and local(el.tag) == "footer") > 1:
        res.append(("template-directive-executed:footer-rendered", f"{name}: more than one <footer> element"))
    # A: every raw occurrence is accounted for by a text node / attribute value
    alltext = "\x00".join(t for _, t in texts)
    for mid, num, kind, payload in markers:
        nraw = text.count(mid)
        if not nraw:
            continue
        ndec = alltext.count(mid)
        if nraw != ndec:
            res.append((f"marker-outside-text:{kind}", f"{name}: {mid} occurs {nraw}x in the page source, {ndec}x in text/attribute values"))
    # V: the payload follows the id, verbatim modulo presentation
    joined = "".join(root.itertext())
    for mid, num, kind, payload in markers:
        if kind.startswith("directive:") or kind.startswith("math-") or (kind == "module-filename" and "MKEM" in payload):
            continue   # names, classes, ids, widths are normalised by docutils; W, S and A still apply
        want = norm_marker_text(payload)
        from urllib.parse import unquote
        for src in [joined] + [(unquote(v) if w in ("@href", "@src") else v) for w, v in texts if w.startswith("@")]:
            start = 0
            while True:
                k = src.find(mid, start)
                if k < 0:
                    break
                start = k + len(mid)
                got = norm_marker_text(src[start:start + 4 * len(payload) + 40])
                if kind == "deprecated-replacement":
                    if num in hit_nums or weak_norm(src[start:start + 4 * len(payload) + 40]).startswith(weak_norm(payload)):
                        continue
                if not got.startswith(want) and not _lenient_match(want, got, kind) and not \
                        norm_marker_text(unquote(src[start:start + 12 * len(payload) + 40])).startswith(want):
                    res.append((f"marker-text-altered:{kind}", f"{name}: after {mid}: {src[start:start + 80]!r} (payload {payload!r})"))
    return res


def _lenient_match(want: str, got: str, kind: str) -> bool:
    """documented presentations that shorten the text: summaries and long values are truncated with '...'"""
    g = got
    for cut in ("...", "…"):
        if cut in g:
            pre = g.split(cut)[0]
            if want.startswith(pre) and len(pre) >= 1:
                return True
    return False


def corpus_projects() -> List[Dict[str, Any]]:
    """deterministic corpus, run FIRST on every run: the input of every recorded finding and the shape every seeded
    change needs (seeded/C10-*/meta.json), so that their detection never depends on the seed"""
    projs: List[Dict[str, Any]] = []
    num = [9000]
    Q3 = '"' * 3

    def M(kind: str, payload: str) -> Marker:
        num[0] += 1
        return Marker(num[0], kind, payload)

    def proj(docformat: str, body: str, ms: List[Marker], extra: Optional[Dict[str, str]] = None) -> None:
        files = {"tp/__init__.py": Q3 + "corpus" + Q3 + "\n" + body}
        files.update(extra or {})
        projs.append({"docformat": docformat, "files": files,
                      "markers": [(m.id, m.num, m.kind, m.payload) for m in ms]})

    def fn(name: str, sig: str, doc: str = "doc", deco: str = "", ind: str = "") -> str:
        return (ind + deco if deco else "") + f"{ind}def {name}({sig}):\n{ind}    {Q3}{doc}{Q3}\n"

    head = "from typing import Literal, Generic\nfrom twisted.python.deprecate import deprecated\nfrom incremental import Version\n"
    # findings rst-injection:deprecated-replacement (+ :blank-before-trailing-backslash) and seeded C10-2
    repl = ["a`` `MKURL{i} <javascript:alert({i})>`_ ``b", " *MKEM{i}* x", "x *MKEM{i}* ",
            "x\rA *MKEM{i}* b\r\r.. raw:: html\r\r   <xmk{i} onzz{i}=1>\r\r", "x *MKEM{i}* \\", "x *MKEM{i}* \x00\\\\",
            "new_api\n\n..\traw::\thtml\n\n\t<xmk{i}\tonzz{i}=\"1\"/>", "x\u2028A *MKEM{i}* b", "see\t*MKEM{i}*\n"]
    for fmt in ("epytext", "restructuredtext"):
        ms = [M("deprecated-replacement", r) for r in repl]
        body = head + "".join(fn(f"f{k}", "", deco=f"@deprecated(Version('tp', 1, 2, 3), replacement={m.lit()})\n")
                              for k, m in enumerate(ms))
        proj(fmt, body, ms)
    # seeded C10-r2-2: a value that trips the XML re-parse next to well-formed hostile markup, in one signature
    NB = repr("\u00a0")
    for fmt in ("epytext", "plaintext"):
        ms = [M("default", "<img src=\"x\" onzz{i}=\"z()\"/>"), M("default", "<script>xmk{i}</script>"),
              M("annotation", "<xmk{i} onzz{i}=\"x\">y</xmk{i}>"), M("default", "price:\u00a0<xmk{i} class=\"c\">10</xmk{i}>\u00a0EUR"),
              M("constant", "<xmk{i}>m</xmk{i}>"), M("class-base-arg", "<xmk{i}/>"), M("decorator-arg", "<xmk{i}/>")]
        body = (head + "def deco(*a, **k):\n    return lambda f: f\n"
                + fn("g1", f"t={ms[0].lit()}, sep={NB}")
                + "class K:\n    " + Q3 + "doc" + Q3 + "\n" + fn("m", f"self, h={ms[1].lit()}, pad={NB}", ind="    ")
                + fn("g2", f"mode: Literal[{ms[2].lit()}] = None, unit: Literal[{repr(chr(160) + 'kg')}] = None")
                + fn("g3", f"banner={ms[3].lit()}")
                + f"CONST = [{NB}, {ms[4].lit()}]\n"
                + f"class B(Generic[{ms[5].lit()}, {NB}]):\n    {Q3}doc{Q3}\n"
                + fn("g4", "", deco=f"@deco({ms[6].lit()}, {NB})\n"))
        proj(fmt, body, ms)
    # seeded C10-1 (quote in an attribute value), C10-r2-1 (code language), C10-r2-3 (HTML-only entity look-alikes)
    ms = [M("directive:image-alt", "diagram\" onzz{i}=\"1"), M("directive:code-language", "x\">a</pre><xmk{i}>m</xmk{i}><pre>"),
          M("directive:code-language", "x\"><script>xmk{i}</script><pre>"), M("function-docstring", "&LT;xmk{i}&GT;m&LT;/xmk{i}&GT;"),
          M("constant", "&LT;img src=&QUOT;x&QUOT; onzz{i}=&QUOT;1&QUOT;/&GT;"), M("directive:image-uri", "pic.png")]
    body = (f"C2 = {ms[4].lit()}\n"
            + fn("h1", "", f"\n    Summary.\n\n    .. image:: {ms[5].text}\n       :alt: {ms[0].text}\n    ")
            + fn("h2", "", f"\n    Summary.\n\n    .. code:: {ms[1].text}\n\n       body <b>\n    ")
            + fn("h3", "", f"\n    Summary.\n\n    .. code-block:: {ms[2].text}\n\n       body <b>\n    ")
            + fn("h4", "", f"Summary {ms[3].text} end."))
    proj("restructuredtext", body, ms)
    for fmt in ("epytext", "google"):
        ms2 = [M("function-docstring", "&LT;xmk{i}&GT;m&LT;/xmk{i}&GT;"), M("constant", "&LT;xmk{i}&GT;m&LT;/xmk{i}&GT;")]
        proj(fmt, f"C3 = {ms2[1].lit()}\n" + fn("h5", "", f"Summary {ms2[0].text} end."), ms2)
    # seeded C10-r3-2: source text that STARTS with a combining character, right after a tag
    for fmt in ("epytext", "restructuredtext", "plaintext"):
        ms = [Marker(9100 + k, kind, pl, lead) for k, (kind, pl, lead) in enumerate([
            ("constant", "", "\u0338"), ("constant", " onzz{i}=1 title=x", "\u0338"), ("default", " onzz{i}=1", "\u0338"),
            ("function-docstring", " (U+0338) is appended", "\u0338"), ("attribute-docstring", " stroke", "\u0338"),
            ("annotation", "<xmk{i}/>", "\u20d2")])]
        body = (f"STROKE = {ms[0].lit()}\n{Q3}{ms[4].text}{Q3}\nHOVER = {ms[1].lit()}\n"
                + fn("negate", f"sign, stroke={ms[2].lit()}, k: Literal[{ms[5].lit()}] = None", ms[3].text))
        proj(fmt, "from typing import Literal\n" + body, ms)
    # reviewer report A (finding source-text-became-markup:math-text): text inside math markup
    for fmt in ("epytext", "restructuredtext"):
        ms = [Marker(9200 + k, kind, pl) for k, (kind, pl) in enumerate([
            ("math-text", "<xmk{i} onzz{i}=\"1\">n</xmk{i}>"), ("math-text", "<script>xmk{i}</script>"),
            ("math-param", "x\" onzz{i}=\"1")])]
        t0, t1, t2 = (BS2 + "text{" + ms[0].text + "}", BS2 + "mbox{" + ms[1].text + "}", BS2 + "color{" + ms[2].text + "}{a}")
        if fmt == "epytext":
            doc = f"Summary.\n\n    Math M{{{t0}}} and M{{{t1}}} and M{{{t2}}} end."
        else:
            doc = f"Summary.\n\n    Math :math:`{t0}` end.\n\n    .. math:: {t1}\n\n    .. math::\n\n       {t2}\n    "
        proj(fmt, fn("mathy", "", doc), ms)
    # hunter round (hunt/C10/1, 2, 4 and the constructor notice)
    ms = [Marker(9300, "directive:image-alt-object", "<script>xmk{i}</script><img src=\"x\" onzz{i}=\"1\"/>"),
          Marker(9301, "directive:image-uri-object", "<xmk{i}/>")]
    ms += [Marker(9302, "directive:image-alt-object", "<xmk{i} onzz{i}=\"1\"/>"), Marker(9303, "directive:image-uri-object", "<xmk{i}/>"),
           Marker(9304, "directive:image-alt-object", "<script>xmk{i}</script>"), Marker(9305, "directive:image-alt-object", "<xmk{i}/>")]
    proj("restructuredtext", fn("img1", "", f"\n    Summary.\n\n    .. image:: diagram.svg\n       :alt: {ms[0].text}\n    ")
         + fn("img2", "", f"\n    Summary.\n\n    .. image:: {ms[1].text}.mp4\n    ")
         # seeded C10-r5-1: the extension in another case (docutils lower-cases it), and a figure
         + fn("img3", "", f"\n    Summary.\n\n    .. image:: diagram.SVG\n       :alt: {ms[2].text}\n    ")
         + fn("img4", "", f"\n    Summary.\n\n    .. image:: {ms[3].text}.Mp4\n    ")
         + fn("img5", "", f"\n    Summary.\n\n    .. figure:: fig.SWF\n       :alt: {ms[4].text}\n\n       caption\n    ")
         + fn("img6", "", f"\n    Summary.\n\n    .. image:: diagram.WebM\n       :alt: {ms[5].text}\n    "), ms)
    for fmt in ("epytext", "restructuredtext"):
        ms = [Marker(9310, "math-cdata", MATH_CDATA_PAYLOADS[0]), Marker(9311, "math-comment", MATH_COMMENT_PAYLOADS[0]),
              Marker(9312, "math-template", MATH_TEMPLATE_PAYLOADS[0])]
        t = [BS2 + cmd + "{" + m.text + "}" for cmd, m in zip(("text", "mbox", "text"), ms)]
        doc = (f"Summary.\n\n    Math M{{{t[0]}}} and M{{{t[1]}}} and M{{{t[2]}}} end." if fmt == "epytext" else
               f"Summary.\n\n    Math :math:`{t[0]}` and :math:`{t[1]}` end.\n\n    .. math:: {t[2]}\n    ")
        proj(fmt, fn("mathy2", "", doc), ms)
    ms = [Marker(9320, "math-template-abort", MATH_TEMPLATE_ABORT_PAYLOADS[0])]
    proj("epytext", fn("mathy3", "", "Summary.\n\n    Math M{" + BS2 + "text{" + ms[0].text + "}} end."), ms)
    m = Marker(9330, "module-filename", "` **MKEM{i}** `b")
    proj("epytext", "", [m], {"tp/" + m.text + ".py": Q3 + "mod" + Q3 + "\nclass K:\n    " + Q3 + "doc" + Q3
                               + "\n    def __init__(self, a, b=1):\n        " + Q3 + "init" + Q3 + "\n"})
    # 4065140: promoted title / subtitle written as headings
    ms = [Marker(9340, "directive:promoted-title", "<xmk{i} onzz{i}=\"1\">t</xmk{i}>"), Marker(9341, "directive:promoted-subtitle", "\"><script>xmk{i}</script><pre class=\"")]
    proj("restructuredtext", fn("titled", "", f"\n    {ms[0].text}\n    ==================================================\n\n    {ms[1].text}\n    --------------------------------------------------\n\n    text\n    "), ms)
    for pr in projs:
        ast.parse(pr["files"]["tp/__init__.py"])   # a corpus project that does not even parse would test nothing
    return projs


def run_one_project(args) -> Dict[str, Any]:
    """worker: build, render, check one project; returns a summary (picklable)"""
    seed, pidx, docformat, force = args
    import random
    rng = random.Random(f"C10-taint:{seed}:{pidx}")
    if pidx < 0:
        proj = corpus_projects()[-pidx - 1]
        docformat = proj["docformat"]
    else:
        proj = gen_project(rng, pidx, docformat, force_deprecated=force)
    tmp = tempfile.mkdtemp(prefix="c10-")
    out = os.path.join(tmp, "out")
    result: Dict[str, Any] = {"pidx": pidx, "docformat": docformat, "markers": proj["markers"], "files": proj["files"],
                              "violations": [], "pages": 0, "crash": None, "seen": 0}
    try:
        write_project(os.path.join(tmp, "src"), proj["files"])
        from pydoctor.driver import main as pydoctor_main
        buf = io.StringIO()
        try:
            with contextlib.redirect_stdout(buf), contextlib.redirect_stderr(buf):
                pydoctor_main(["--html-output", out, "--docformat", docformat, "--project-name", "tp",
                               "--project-base-dir", os.path.join(tmp, "src"), os.path.join(tmp, "src", "tp")])
        except SystemExit:
            pass
        except BaseException as e:  # a crash of the run is C01's subject; pages already written are still checked
            result["crash"] = type(e).__name__ + ": " + str(e)[:200].split("\n")[0]
        seen = set()
        if os.path.isdir(out):
            for fn in sorted(os.listdir(out)):
                if not fn.endswith(".html"):
                    continue
                raw = open(os.path.join(out, fn), "rb").read()
                result["pages"] += 1
                for mid, *_ in proj["markers"]:
                    if mid.encode() in raw:
                        seen.add(mid)
                for sig, what in check_page(fn, raw, proj["markers"]):
                    result["violations"].append((sig, what))
        result["seen"] = len(seen)
        result["seen_kinds"] = sorted({k for mid, _, k, _ in proj["markers"] if mid in seen})
    finally:
        shutil.rmtree(tmp, ignore_errors=True)
    return result


def taint_signature(sig: str) -> str:
    # the one confirmed defect gets the signature under which it is recorded
    if sig.startswith("source-text-became-markup:deprecated-replacement"):
        return "rst-injection:" + sig.split(":", 1)[1]
    # one root cause (math2html's unescaped text mode / literal parameters), whatever the payload turned into
    m = re.match(r"^(marker-in-script|marker-outside-text|page-not-well-formed|marker-markup-unescaped):"
                 r"(math-(?:text|param)|directive:image-(?:alt|uri)-object)$", sig)
    if m:
        return "source-text-became-markup:" + m.group(2)
    m = re.match(r"^(marker-in-script|marker-outside-text):(math-(?:cdata|comment))$", sig)
    if m:
        return "marker-markup-unescaped:" + m.group(2)
    return sig


def run_taint_stream(ctx: Ctx) -> None:
    nproj = 40 if ctx.quick else 1000
    if os.environ.get("C10_TAINT_PROJECTS"):   # debugging aid: e.g. 0 = corpus only
        nproj = int(os.environ["C10_TAINT_PROJECTS"])
    jobs = [(ctx.seed, -(k + 1), "corpus", False) for k in range(len(corpus_projects()))]   # corpus first
    for p in range(nproj):
        for fmt in DOCFORMATS:
            jobs.append((ctx.seed, p, fmt, p % 8 == 0))
    import multiprocessing as mp
    nproc = min(16, os.cpu_count() or 2)
    with mp.get_context("fork").Pool(nproc) as pool:
        results = pool.map(run_one_project, jobs, chunksize=4)
    for r in results:
        kinds = sorted({k for _, _, k, _ in r["markers"]})
        nontrivial = len(r.get("seen_kinds", [])) >= 3
        canonical = "taint %s %d %s" % (r["docformat"], r["pidx"], ",".join(f"{mid}:{k}" for mid, _, k, _ in r["markers"]))
        sample = None
        if nontrivial and r["pidx"] == 1 and r["docformat"] == "restructuredtext":
            sample = {"docformat": r["docformat"], "markers": [(m[0], m[2], m[3]) for m in r["markers"]][:6], "pages": r["pages"],
                      "violations": r["violations"][:2]}
        ctx.case(canonical, nontrivial, sample)
        ctx.count("taint:projects:" + ("corpus:" if r["pidx"] < 0 else "") + r["docformat"])
        ctx.count("taint:pages", r["pages"])
        ctx.count("taint:markers-planted", len(r["markers"]))
        ctx.count("taint:markers-seen-on-pages", r["seen"])
        for k in r.get("seen_kinds", []):
            ctx.count("taint:kind-seen:" + k)
        if r["crash"]:
            ctx.count("taint:run-aborted:" + r["crash"].split(":")[0])
        seen_sigs = set()
        for sig, what in r["violations"]:
            sig = taint_signature(sig)
            if sig in seen_sigs:
                continue
            seen_sigs.add(sig)
            ctx.fail(sig, {"docformat": r["docformat"], "files": r["files"], "markers": r["markers"]}, what)
    ctx.traces_validated += sum(r["pages"] for r in results)


def replay_project(ctx: Ctx, inp) -> int:
    tmp = tempfile.mkdtemp(prefix="c10-replay-")
    try:
        write_project(os.path.join(tmp, "src"), inp["files"])
        from pydoctor.driver import main as pydoctor_main
        out = os.path.join(tmp, "out")
        with contextlib.redirect_stdout(io.StringIO()):
            try:
                pydoctor_main(["--html-output", out, "--docformat", inp["docformat"], "--project-name", "tp",
                               os.path.join(tmp, "src", "tp")])
            except SystemExit:
                pass
        bad = 0
        for fn in sorted(os.listdir(out)):
            if fn.endswith(".html"):
                for sig, what in check_page(fn, open(os.path.join(out, fn), "rb").read(), [tuple(m) for m in inp["markers"]]):
                    print("oracle:", taint_signature(sig), "|", what)
                    bad += 1
        if not bad:
            print("oracle: property holds on this project")
        return 1 if bad else 0
    finally:
        shutil.rmtree(tmp, ignore_errors=True)
